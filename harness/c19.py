"""C19 — public-data reweighting yields valid weights and never a worse fit."""
import itertools, math
import numpy as np
from common import enc_f, dec_f, close, rng

LEAN_MODULE = 'PGM.Properties.C19'
LEAN_EXTRA = ['PGM.Properties.C19G', 'PGM.Properties.C19E']
TRANSLATORS = ('py2pub', 'py2total')     # py2total: C19G cites TotalG.estimateTotal_public (C09G); entropic_mirror_descent, PublicInference.__init__/estimate/_marginal_loss of public_inference.py -> Generated/PublicG.lean, proved equal to Model/Public.lean in C19G; C19E: the generated objective is the property's measurement loss (weighted contingency tables, C15)
TRUSTED = ['Lean 4.33 kernel', 'axioms: propext, Classical.choice, Quot.sound',
           'hand model PGM/Model/Public.lean of entropic_mirror_descent (as written, stale P included) tied to public_inference.py by running the Float instance on the same objective and comparing the weights',
           'the objective as a function of the record weights is the quadratic Cert.loss with A = (1/noise) Q Inc (Inc = record -> cell incidence); compared with PublicInference\'s own loss per run; PROVED equal (loss and gradient) to the generated loss_and_grad and to the property\'s measurement loss for records inside the domain: C19E lossgradQuad_is_measurement_loss / gen_lossAndGrad_eq_lossgradQuad',
           'estimate_total is C09']
ASSUMPTIONS = ['metric L2 or L1 (noise-weighted); the Lean descent model is compared for L2 only']
RULE = ('public datasets of 5-60 records over 2-3 attributes (duplicates; cells the private data never hits), 1-3 measurements incl. overlapping projections, noise in {0.1,1,5}, '
        'total given or estimated; metric L2 (2/3) or L1 (1/3); every sixth case a directed conflict (precise one-way answers vs very noisy contradicting two-way answers); every second case followed by a second call with another total on the same object; non-trivial = at least 2 measurements or duplicate records; distinct = distinct (public data, measurements, total)')
EXPLANATION = ('weights: one per record, finite, nonnegative, summing to the total, records unchanged; final loss <= loss of the uniform weighting with the same total; '
               'the dataset handed back by an earlier call keeps its weights after a later call; Lean Float model of the same descent compared with the implementation\'s weights')


def gen(r):
    import pandas as pd
    from mbi import Domain, Dataset
    n = r.randint(2, 3)
    attrs = r.sample(['a', 'b', 'c', 'd'], n)
    dom = [[a, r.choice([2, 3, 4])] for a in attrs]
    sizes = dict(map(tuple, dom))
    nrec = r.choice([5, 12, 30, 60])
    rows = []
    for _ in range(nrec):
        if rows and r.random() < 0.25:
            rows.append(list(r.choice(rows)))
        else:
            rows.append([r.randrange(sizes[a]) for a in attrs])
    # private table concentrated on part of the domain
    cells = list(itertools.product(*[range(sizes[a]) for a in attrs]))
    support = r.sample(cells, max(1, len(cells) // 2))
    N = r.choice([20, 100, 500])
    table = {c: 0 for c in cells}
    for _ in range(N):
        table[r.choice(support)] += 1
    meas = []
    for _ in range(r.randint(1, 3)):
        proj = r.sample(attrs, r.randint(1, n))
        pcells = list(itertools.product(*[range(sizes[a]) for a in proj]))
        pos = [attrs.index(a) for a in proj]
        acc = {}
        for c, v in table.items():
            k = tuple(c[i] for i in pos)
            acc[k] = acc.get(k, 0) + v
        x = np.array([acc.get(c, 0) for c in pcells], dtype=float)
        p = len(pcells)
        Q = np.eye(p) if r.random() < 0.7 else np.tril(np.ones((p, p)))
        noise = r.choice([0.1, 1.0, 5.0])
        y = Q @ x + np.array([r.gauss(0, noise) for _ in range(p)])
        meas.append((Q, y, noise, tuple(proj)))
    return dom, attrs, sizes, rows, meas, N


def gen_wide(r):
    """a measured projection with more than 256 cells, public records that are a good proxy for the private data (drawn from the same
    cells), stored in a compact integer type: the uniform weighting is nearly optimal, so any distortion of the objective shows"""
    attrs = r.sample(['a', 'b', 'c', 'd'], 2)
    dom = [[attrs[0], r.choice([17, 20])], [attrs[1], r.choice([16, 19])]]
    sizes = dict(map(tuple, dom))
    cells = list(itertools.product(*[range(sizes[a]) for a in attrs]))
    support = r.sample(cells, 40)
    N = r.choice([200, 1000])
    table = {c: 0 for c in cells}
    for _ in range(N):
        table[r.choice(support)] += 1
    rows = [list(r.choice(support)) for _ in range(120)]
    x = np.array([table[c] for c in cells], dtype=float)
    noise = r.choice([0.5, 2.0])
    meas = [(np.eye(len(cells)), x + np.array([r.gauss(0, noise) for _ in cells]), noise, tuple(attrs))]
    if r.random() < 0.5:
        a = attrs[0]
        xa = np.array([sum(v for c, v in table.items() if c[0] == k) for k in range(sizes[a])], dtype=float)
        meas.append((np.eye(sizes[a]), xa, 1.0, (a,)))
    return dom, attrs, sizes, rows, meas, N


def gen_undetermined(r):
    """no measurement can express the overall count (difference queries, single cells): the omitted total falls back to 1"""
    dom, attrs, sizes, rows, meas, N = gen(r)
    out = []
    for Q, y, s, proj in meas:
        p = Q.shape[1]
        if p == 1:
            continue
        D = np.array([[1.0 if k == i else (-1.0 if k == i + 1 else 0.0) for k in range(p)] for i in range(p - 1)])
        x = np.linalg.lstsq(Q, y, rcond=None)[0]
        out.append((D, D @ x, s, proj))
    if not out:
        a = max(attrs, key=lambda t: sizes[t])
        p = sizes[a]
        out = [(np.eye(p)[:1], np.array([3.0]), 1.0, (a,))] if p > 1 else meas
    return dom, attrs, sizes, rows, out, N


def gen_flat(r):
    """measurements no reweighting can fit better or worse: every public record has the same value on the measured attribute (or only
    the total is measured), so the objective is constant in the weights and its gradient is a constant vector of round-off size"""
    n = r.choice([3, 6, 10])
    k = r.choice([2, 3])
    attrs = r.sample(['a', 'b', 'c', 'd'], 2)
    dom = [[attrs[0], n], [attrs[1], k]]
    sizes = dict(map(tuple, dom))
    rows = [[i, 0] for i in range(n)]
    N = r.choice([50, 7540, 100000])
    if r.random() < 0.6:
        y = np.array([float(N)] + [float(r.choice([0, 50, 3]))] * (k - 1))
        meas = [(np.eye(k), y, r.choice([0.1, 1.0]), (attrs[1],))]
    else:
        meas = [(np.ones((1, n)), np.array([float(N)]), r.choice([0.1, 1.0]), (attrs[0],))]
    return dom, attrs, sizes, rows, meas, N


def gen_conflict(r):
    """precise one-way answers against very noisy two-way answers that contradict them (all mass on one value of the first attribute):
    the noise weighting decides which of the two the estimator should believe"""
    attrs = r.sample(['a', 'b', 'c', 'd'], 2)
    dom = [[a, r.choice([2, 3])] for a in attrs]
    sizes = dict(map(tuple, dom))
    cells = list(itertools.product(*[range(sizes[a]) for a in attrs]))
    rows = [list(c) for c in cells for _ in range(r.randint(1, 3))]
    r.shuffle(rows)
    N = r.choice([100, 500])
    meas = []
    for a in attrs:
        p = sizes[a]
        x = np.full(p, N / p)
        meas.append((np.eye(p), x + np.array([r.gauss(0, 0.1) for _ in range(p)]), 0.1, (a,)))
    for _ in range(2):
        pcells = list(itertools.product(*[range(sizes[a]) for a in attrs]))
        x = np.array([N / sizes[attrs[1]] if c[0] == 0 else 0.0 for c in pcells])
        meas.append((np.eye(len(pcells)), x + np.array([r.gauss(0, 10.0) for _ in range(len(pcells))]), 10.0, tuple(attrs)))
    return dom, attrs, sizes, rows, meas, N


def run(res, drv, tier, seed):
    import pandas as pd
    from mbi import Domain, Dataset, PublicInference
    r = rng(seed, 'C19')
    n = 25 if tier == 'quick' else 250
    for ci in range(n):
        conflict = ci % 6 == 5
        wide = ci % 6 == 1
        undet = ci % 12 == 3
        flat = ci % 12 == 9 or ci % 12 == 4
        dom, attrs, sizes, rows, meas, N = gen_conflict(r) if conflict else (gen_wide(r) if wide else (gen_undetermined(r) if undet else (gen_flat(r) if flat else gen(r))))
        if flat:
            res.count('directed: objective constant in the weights (flat)')
        if wide:
            res.count('directed: measured projection with more than 256 cells, good public proxy')
        if undet:
            res.count('directed: no measurement determines the total')
        metric = 'L1' if ci % 3 == 2 else 'L2'
        res.count('metric:' + metric)
        if conflict:
            res.count('directed: precise one-way vs noisy contradicting two-way answers')
        d = Domain(attrs, [sizes[a] for a in attrs])
        df = pd.DataFrame(np.array(rows, dtype=int), columns=attrs)
        dtype = r.choice(['int64', 'int64', 'int32', 'int16', 'int8', 'uint8', 'uint8', 'uint16'])
        if wide:
            dtype = r.choice(['uint8', 'uint8', 'int8'])     # what category codes / compact loaders produce
        df = df.astype(dtype)
        res.count('public records stored as ' + dtype)
        # a public dataset may itself carry weights (survey weights, 0/1 inclusion flags, the output of an earlier reweighting): the
        # reweighting starts from ones whatever they are, and is compared with the UNIFORMLY weighted public records
        pw = None
        if ci % 4 == 1 and len(rows) >= 4:
            pw = np.array([float(r.choice([0, 1, 1, 2])) for _ in rows])
            # switch off every public record of one measured cell
            if meas:
                p0 = list(meas[0][3])
                key0 = tuple(rows[0][attrs.index(a)] for a in p0)
                for j_, row_ in enumerate(rows):
                    if tuple(row_[attrs.index(a)] for a in p0) == key0:
                        pw[j_] = 0.0
            if pw.sum() == 0:
                pw[-1] = 1.0
            res.count('public dataset carries its own (0/1/2) weights')
        pub = Dataset(df.copy(), d, pw)
        total = None if undet else (float(N) if flat else r.choice([None, float(N), 17.5]))
        canon = {'dom': dom, 'rows': rows, 'total': total, 'metric': metric, 'dtype': dtype, 'meas': [{'Q': Q.tolist(), 'y': y.tolist(), 'noise': s, 'proj': list(p)} for Q, y, s, p in meas]}
        res.case(canon, len(meas) >= 2 or len(set(map(tuple, rows))) < len(rows), sample={'dom': dom, 'records': len(rows), 'projections': [list(m[3]) for m in meas], 'total': total} if ci < 3 else None)
        res.count('total given' if total is not None else 'total estimated')
        eng = PublicInference(pub, metric=metric)
        # a single-attribute clique may be written as the bare attribute name (a legal spelling throughout the library)
        meas_impl = [(Q, y, s_, (p_[0] if (len(p_) == 1 and (ci + k_) % 2 == 0) else p_)) for k_, (Q, y, s_, p_) in enumerate(meas)]
        if any(isinstance(m_[3], str) for m_ in meas_impl):
            res.count('a measured single attribute written as a bare name')
        try:
            with np.errstate(all='ignore'):
                est = eng.estimate(list(meas_impl), total=total)
        except Exception as e:
            res.violation('failing-input', f'PublicInference.estimate raises {type(e).__name__}: {str(e)[:120]}', {'request': canon}, key='public:raises')
            continue
        w = np.asarray(est.weights, dtype=float)
        from mbi import public_inference
        T = float(total) if total is not None else float(public_inference.estimate_total(list(meas)))
        # the objective as a quadratic in the weights
        ms = []
        for Q, y, s, proj in meas:
            pcells = list(itertools.product(*[range(sizes[a]) for a in proj]))
            idx = {c: i for i, c in enumerate(pcells)}
            Inc = np.zeros((len(pcells), len(rows)))
            for j, row in enumerate(rows):
                Inc[idx[tuple(row[attrs.index(a)] for a in proj)], j] = 1.0
            ms.append(((Q @ Inc) / s, y / s))
        if metric == 'L1':
            L = lambda v: sum(float(np.abs(A @ v - yy).sum()) for A, yy in ms)
        else:
            L = lambda v: sum(0.5 * float((A @ v - yy) @ (A @ v - yy)) for A, yy in ms)
        lu, lw = L(np.full(len(rows), T / len(rows))), L(w)
        bad = None
        if w.shape != (len(rows),):
            bad = f'{w.shape} weights for {len(rows)} public records'
        elif not np.all(np.isfinite(w)) or w.min() < 0:
            bad = f'weights not finite / negative (min {w.min()})'
        elif not close(float(w.sum()), T, 1e-9, 1e-12):
            bad = f'weights sum to {float(w.sum())}, total is {T}'
        elif est.df.values.tolist() != rows or list(est.df.columns) != attrs:
            bad = 'the public records were changed'
        elif lw > lu * (1 + 1e-9) + 1e-9:
            bad = f'reweighted data fits worse (loss {lw:.8g}) than the uniformly weighted public data with the same total ({lu:.8g})'
        rp = {'request': canon, 'observed': {'loss': lw, 'uniform_loss': lu, 'total': T}}
        if bad:
            res.violation('failing-input', 'PublicInference.estimate: ' + bad, dict(rp, expected=bad), key='public:' + bad.split()[0])
            continue
        with np.errstate(all='ignore'):
            impl_loss = eng._marginal_loss(__import__('mbi').CliqueVector.from_data(est, [m[3] for m in meas_impl]))[0]
        if not close(impl_loss, lw, 1e-8, 1e-8):
            res.violation('correspondence', f'objective: PublicInference loss {impl_loss}, quadratic form in the weights {lw}', dict(rp, stream='C19.objective'))
            continue
        # the caller's measurement list grows IN PLACE and the same engine is asked again (the usual adaptive loop): the second call starts from
        # the first call's weights, and by emd_never_worse_than_start it can never fit the list it is given worse than that starting point
        if ci % 4 == 1 and len(meas) >= 2:
            eng2 = PublicInference(Dataset(df.copy(), d), metric=metric)
            lst = list(meas[:-1])
            try:
                with np.errstate(all='ignore'):
                    e1 = eng2.estimate(lst, total=T)
                    w1 = np.asarray(e1.weights, dtype=float).copy()
                    lst.append(meas[-1])
                    e2 = eng2.estimate(lst, total=T)
            except Exception as e:
                res.violation('failing-input', f'PublicInference.estimate on a list grown in place raises {type(e).__name__}: {str(e)[:120]}', {'request': canon}, key='public:raises')
                continue
            w2 = np.asarray(e2.weights, dtype=float)
            start = w1 * T / w1.sum()
            res.count('measurement list grown in place between two calls on one engine')
            if metric == 'L2' and L(w2) > L(start) * (1 + 1e-9) + 1e-9 * (1 + abs(L(start))):
                res.violation('failing-input', f'PublicInference.estimate: after the caller\'s measurement list grew in place, the second call on the same engine fits the full list worse '
                              f'(loss {L(w2):.8g}) than the weights it started from ({L(start):.8g}): the added measurement is not part of what was optimised',
                              dict(rp, expected='loss(second call) <= loss(start)'), key='public:grown-list')
                continue
        # a later call on the same object (different total, warm-started from these weights) must leave the dataset already handed back untouched
        if ci % 2 == 0:
            w_before = w.copy()
            T2 = T * r.choice([0.5, 1.5, 2.0])
            try:
                with np.errstate(all='ignore'):
                    est2 = eng.estimate(list(meas[: max(1, len(meas) - 1)]), total=T2)
            except Exception as e:
                res.violation('failing-input', f'second PublicInference.estimate call raises {type(e).__name__}: {str(e)[:120]}', {'request': canon}, key='public:raises')
                continue
            res.count('second call on the same object')
            w_after = np.asarray(est.weights, dtype=float)
            w2 = np.asarray(est2.weights, dtype=float)
            bad = None
            if not np.array_equal(w_after, w_before):
                bad = f'the weights handed back by the first call changed after a second call (sum {float(w_before.sum())!r} -> {float(w_after.sum())!r})'
            elif np.shares_memory(np.asarray(est.weights), np.asarray(est2.weights)):
                bad = 'the datasets returned by two calls share their weight array'
            elif w2.shape != (len(rows),) or not np.all(np.isfinite(w2)) or w2.min() < 0 or not close(float(w2.sum()), T2, 1e-9, 1e-12):
                bad = f'second call: weights invalid (sum {float(w2.sum())}, total {T2})'
            if bad:
                res.violation('failing-input', 'PublicInference.estimate: ' + bad, dict(rp, expected=bad, second_total=T2), key='public:history')
                continue
        if drv and metric == 'L2':
            o = drv.one({'op': 'emd', 'ms': [{'A': [[enc_f(v) for v in row] for row in A], 'y': [enc_f(v) for v in yy]} for A, yy in ms],
                         'x0': [enc_f(1.0)] * len(rows), 'total': enc_f(T), 'iters': 250})
            if not o['ok']:
                res.violation('correspondence', 'driver error ' + o['err'], dict(rp, stream='C19.emd'))
                continue
            mw = np.array([dec_f(x) for x in o['out']['w']])
            ml = dec_f(o['out']['loss'])
            res.count('emd runs compared')
            if not np.allclose(mw, w, rtol=1e-5, atol=1e-7 * max(1.0, T)):
                # accept/reject decisions can flip on ties at double precision; report only if the losses differ too
                if not close(ml, lw, 1e-6, 1e-6):
                    res.violation('correspondence', f'entropic mirror descent: Lean (Float) weights differ from the implementation (max diff {float(np.abs(mw - w).max()):.3g}; losses {ml} vs {lw})',
                                  dict(rp, stream='C19.emd'))
                else:
                    res.count('emd weights differ but losses agree (tie in acceptance)')
    for _ in range(2 if tier == 'quick' else 12):
        adaptive_loop(res, r)


def adaptive_loop(res, r):
    """the usual adaptive loop on one engine: the caller's list grows in place and estimate is called again.  Public records in which b
    tracks a; the private a- and b-marginals pull opposite ways; the first measurement (on a) is vague, the appended one (on b) accurate:
    the result of the second call must fit the list it was given no worse than the uniformly weighted public data"""
    import pandas as pd
    from mbi import Domain, Dataset, PublicInference
    k = r.choice([3, 4])
    d = Domain(['a', 'b'], [k, k])
    rows = [[i % k, i % k] for i in range(20 * k)] + [[r.randrange(k), r.randrange(k)] for _ in range(2 * k)]
    N = float(r.choice([2000, 20000]))
    pa = np.array([k - i for i in range(k)], dtype=float); pa = pa / pa.sum() * N
    pb = pa[::-1].copy()
    lst = [(np.eye(k), pa + np.array([r.gauss(0, 0.05 * N) for _ in range(k)]), 0.05 * N, ('a',))]
    eng = PublicInference(Dataset(pd.DataFrame(np.array(rows, dtype=int), columns=['a', 'b']), d))
    canon = {'adaptive_loop': True, 'k': k, 'N': N, 'rows': rows}
    res.case(canon, True)
    res.count('directed: adaptive loop (list grown in place, accurate measurement appended)')
    try:
        with np.errstate(all='ignore'):
            eng.estimate(lst, total=N)
            lst.append((np.eye(k), pb + np.array([r.gauss(0, 1.0) for _ in range(k)]), 1.0, ('b',)))
            est = eng.estimate(lst, total=N)
    except Exception as e:
        res.violation('failing-input', f'PublicInference.estimate in an adaptive loop raises {type(e).__name__}: {str(e)[:120]}', {'request': canon}, key='public:raises')
        return
    w = np.asarray(est.weights, dtype=float)

    def loss(v):
        out = 0.0
        for Q, y, s, proj in lst:
            j = 0 if proj == ('a',) else 1
            marg = np.zeros(k)
            for row, wi in zip(rows, v):
                marg[row[j]] += wi
            dd = (Q @ marg - y) / s
            out += 0.5 * float(dd @ dd)
        return out
    lu, lw = loss(np.full(len(rows), N / len(rows))), loss(w)
    if not np.all(np.isfinite(w)) or w.min() < 0 or not close(float(w.sum()), N, 1e-9, 1e-12):
        res.violation('failing-input', f'adaptive loop: weights invalid (sum {float(w.sum())}, total {N})', {'request': canon}, key='public:adaptive-invalid')
    elif lw > lu * (1 + 1e-9):
        res.violation('failing-input', f'adaptive loop: after the accurate measurement was appended to the caller\'s list, the reweighted data fits the list worse (loss {lw:.8g}) '
                      f'than the uniformly weighted public data ({lu:.8g})', {'request': canon, 'observed': {'loss': lw, 'uniform_loss': lu}}, key='public:adaptive-worse-than-uniform')


def search(res, tier, seed, broken):
    run(res, None, 'quick', seed + 1)


def replay(res, drv, rp):
    res.case(rp['request'])
    run(res, None, 'quick', rp.get('seed', 0))
