"""C12 — every constructed junction tree is valid, with a valid message schedule."""
import itertools
import numpy as np
from common import rng

LEAN_MODULE = 'PGM.Properties.C12'
LEAN_EXTRA = ['PGM.Properties.C12B', 'PGM.Properties.C12G']
TRANSLATORS = ('py2jt',)      # src/mbi/junction_tree.py -> PGM/Generated/JunctionTreeG.lean, tied to Model/JTree.lean in C12G
TRUSTED = ['Lean 4.33 kernel', 'axioms: propext, Classical.choice, Quot.sound',
           'networkx contracts: find_cliques = all maximal cliques (compared per case with the model\'s Bron-Kerbosch), '
           'minimum_spanning_tree = some spanning tree (its output is checked by the Lean-verified checkJT, never assumed), '
           'topological_sort = some linear extension (its output is checked likewise)',
           'hand model PGM/Model/JTree.lean tied to src/mbi/junction_tree.py by this correspondence run and by the translator tools/py2jt.py (PGM/Properties/C12G.lean: the regenerated definitions are proved to be the model, under the stated networkx / numpy contracts)']
ASSUMPTIONS = ['explicit elimination orders are permutations of the domain attributes']
RULE = ('quick: every labelled graph on 2-4 attributes (cliques = edges + isolated attributes) x every elimination order, plus seeded random '
        'clique sets (3-cliques, nested, duplicated, disconnected) on up to 8 attributes in modes None / int / permutation; thorough adds all '
        'graphs on 5 attributes x all orders and larger random sets; non-trivial = the triangulation adds a fill-in edge or the tree has >= 3 nodes; '
        'distinct = distinct (domain, cliques, order)')
EXPLANATION = ('the implementation\'s tree, node list and schedule are sent to the Lean driver, which runs the verified checker checkJT on them, '
               'recomputes the maximal cliques of the model triangulation and the weight bound; an independent Python validity check classifies disagreements')


def build_impl(dom, cliques, order):
    from mbi import Domain
    from mbi.junction_tree import JunctionTree
    d = Domain([a for a, _ in dom], [s for _, s in dom])
    draws = []
    real_choice = np.random.choice

    def choice(a, *args, **kw):
        i = real_choice(a, *args, **kw)
        draws.append(int(i))
        return i
    np.random.choice = choice
    try:
        given = order
        if isinstance(order, list) and ORDER_FORM[0] % 4 == 1:
            given = iter(list(order))            # a one-shot iterator
        elif isinstance(order, list) and ORDER_FORM[0] % 4 == 2:
            given = (a for a in list(order))     # a generator
        elif isinstance(order, list) and ORDER_FORM[0] % 4 == 3:
            given = tuple(order)
        ORDER_FORM[0] += 1
        # the clique collection and each clique in any iterable spelling, one-shot ones included
        cf = ORDER_FORM[0] % 7
        mk = {0: tuple, 1: tuple, 2: list, 3: iter, 4: (lambda c: (a for a in c)), 5: (lambda c: map(str, c)), 6: (lambda c: dict.fromkeys(c).keys())}[cf]
        cls_arg = [mk(list(c)) for c in cliques]
        if ORDER_FORM[0] % 3 == 2:
            cls_arg = iter(cls_arg)
        jt = JunctionTree(d, cls_arg, given)
    finally:
        np.random.choice = real_choice
    nodes = [list(n) for n in jt.maximal_cliques()]
    edges = [[list(a), list(b)] for a, b in jt.tree.edges()]
    # a caller may consume what the accessors hand out (the schedule as a work queue, say): later calls must not notice
    if ORDER_FORM[0] % 2 == 0:
        for acc in (jt.mp_order, jt.maximal_cliques):
            got = acc()
            if isinstance(got, list):
                got.reverse()
                del got[:]
        sa = jt.separator_axes()
        if isinstance(sa, dict):
            sa.clear()
        nb = jt.neighbors()
        if isinstance(nb, dict):
            for v in nb.values():
                if isinstance(v, set):
                    v.clear()
            nb.clear()
        nodes = [list(n) for n in jt.maximal_cliques()]
    mp = [[list(a), list(b)] for a, b in jt.mp_order()]
    seps = {(tuple(a), tuple(b)): tuple(s) for (a, b), s in jt.separator_axes().items()}
    nbrs = {tuple(k): set(map(tuple, v)) for k, v in jt.neighbors().items()}
    n = len(dom)
    picks = [draws[i:i + n] for i in range(0, len(draws), n)] if n else []
    return {'picks': picks, 'order': list(order) if isinstance(order, list) else list(jt.elimination_order), 'nodes': nodes, 'edges': edges, 'mp_order': mp, 'seps': seps, 'nbrs': nbrs}


ORDER_FORM = [0]


def spec(dom, cliques, art):
    """independent validity check of the artefact; returns list of failed clauses"""
    attrs = [a for a, _ in dom]
    nodes = [tuple(n) for n in art['nodes']]
    edges = [(tuple(a), tuple(b)) for a, b in art['edges']]
    bad = []
    if not all(any(set(c) <= set(n) for n in nodes) for c in cliques):
        bad.append('an input clique is in no node')
    if not all(any(a in n for n in nodes) for a in attrs):
        bad.append('an attribute of the domain is in no node')
    if len(set(nodes)) != len(nodes) or any(set(a) <= set(b) for a in nodes for b in nodes if a != b):
        bad.append('a node contains another')
    adj = {n: set() for n in nodes}
    for a, b in edges:
        if a not in adj or b not in adj or a == b:
            bad.append('edge endpoint is not a node'); return bad
        adj[a].add(b); adj[b].add(a)

    def connected(S):
        S = list(S)
        if not S:
            return True
        seen, todo = {S[0]}, [S[0]]
        while todo:
            x = todo.pop()
            for y in adj[x]:
                if y in S and y not in seen:
                    seen.add(y); todo.append(y)
        return len(seen) == len(S)
    if len(edges) != len(nodes) - 1 or not connected(nodes):
        bad.append('not a tree')
    for a in attrs:
        if not connected([n for n in nodes if a in n]):
            bad.append(f'nodes containing {a} are not connected (running intersection fails)')
            break
    mp = [(tuple(a), tuple(b)) for a, b in art['mp_order']]
    want = set(edges) | {(b, a) for a, b in edges}
    if len(mp) != len(set(mp)) or set(mp) != want:
        bad.append('schedule does not list each direction of each edge exactly once')
    else:
        pos = {m: i for i, m in enumerate(mp)}
        for (i, j) in mp:
            for k in adj[i]:
                if k != j and pos[(k, i)] > pos[(i, j)]:
                    bad.append(f'message {i}->{j} scheduled before {k}->{i}')
                    break
            else:
                continue
            break
    for (a, b), s in art['seps'].items():
        if set(s) != set(a) & set(b):
            bad.append('separator is not the intersection'); break
    for n in nodes:
        if art['nbrs'].get(n) != adj[n]:
            bad.append('neighbors() disagrees with the tree'); break
    return bad


def gen_cases(tier, seed):
    r = rng(seed, 'C12')
    names = ['a', 'b', 'c', 'd', 'e', 'f', 'g', 'h']
    cases = []
    maxn = 4 if tier == 'quick' else 5
    for n in range(2, maxn + 1):
        attrs = names[:n]
        prs = list(itertools.combinations(attrs, 2))
        for mask in range(1 << len(prs)):
            es = [list(p) for i, p in enumerate(prs) if mask >> i & 1]
            dom = [[a, 2 + (i % 2)] for i, a in enumerate(attrs)]
            orders = list(itertools.permutations(attrs))
            if n == 5 and tier == 'thorough':
                orders = r.sample(orders, 24)
            for o in orders:
                cases.append((dom, es, list(o)))
    # chordless cycles of length 5-7: the smallest structures on which fill-in edges must themselves
    # be taken into account by later eliminations
    for n in (5, 6, 7):
        attrs = names[:n]
        ring = [[attrs[i], attrs[(i + 1) % n]] for i in range(n)]
        dom = [[a, 2] for a in attrs]
        perms = list(itertools.permutations(attrs)) if n == 5 else [tuple(r.sample(attrs, n)) for _ in range(40)]
        if tier == 'quick':
            perms = r.sample(perms, min(len(perms), 40))
        for o in perms:
            cases.append((dom, ring, list(o)))
        cases.append((dom, ring, None))
    for _ in range(6 if tier == 'quick' else 60):
        a, b, c, p, q = r.sample(names, 5)
        big = r.choice([1020, 2048, 5000])
        dom = [[a, big], [b, big], [c, 2], [p, 2], [q, 3]]
        r.shuffle(dom)
        cl = [[a, b, p], [a, b, c], [a, c, q]]
        r.shuffle(cl)
        cases.append((dom, cl, r.choice([None, None, r.sample([x for x, _ in dom], 5)])))
    nrand = 150 if tier == 'quick' else 2500
    for _ in range(nrand):
        n = r.randint(3, 8 if tier == 'quick' else 10)
        attrs = r.sample(names + ['i', 'j'], n)
        dom = [[a, r.choice([1, 2, 3, 4])] for a in attrs]
        if r.random() < 0.25:
            # attributes with thousands of values: separators whose tables have millions of cells (only sizes are computed here, no tables)
            dom = [[a, r.choice([2, 3, 1020, 1020, 4096, 1])] for a in attrs]
        cl = []
        for _ in range(r.randint(0, n + 2)):
            k = r.choice([1, 2, 2, 2, 3, 3, 4])
            cl.append(r.sample(attrs, min(k, n)))
        if cl and r.random() < 0.3:
            c = r.choice(cl)
            cl.append(list(c))                      # duplicate
            if len(c) > 1:
                cl.append(r.sample(c, len(c) - 1))  # nested
                cl.append(list(reversed(c)))        # same set, other order
        mode = r.choice(['none', 'none', 'perm', 'perm', 'int'])
        if mode == 'none':
            order = None
        elif mode == 'perm':
            order = r.sample(attrs, n)
        else:
            order = r.randint(1, 5)
        cases.append((dom, cl, order))
    return cases


def run(res, drv, tier, seed):
    cases = gen_cases(tier, seed)
    reqs, arts = [], []
    np.random.seed(seed % (2**32))
    for dom, cl, order in cases:
        try:
            art = build_impl(dom, cl, order)
        except Exception as e:
            art = {'raise': type(e).__name__ + ': ' + str(e)[:100]}
        arts.append(art)
        if 'raise' in art:
            reqs.append(None)
        else:
            reqs.append({'op': 'jt', 'dom': dom, 'cliques': cl, 'order': art['order'], 'nodes': art['nodes'],
                         'edges': art['edges'], 'mp_order': art['mp_order']})
    live = [q for q in reqs if q is not None]
    resps = iter(drv.run(live)) if drv else None
    for (dom, cl, order), art, q in zip(cases, arts, reqs):
        canon = {'dom': dom, 'cliques': cl, 'order': order}
        rp = {'request': canon}
        if q is None:
            res.case(canon, True)
            res.violation('failing-input', f'JunctionTree construction raises {art["raise"]}', dict(rp, observed=art['raise']),
                          key='jt:raises')
            continue
        mode = 'none' if order is None else ('int' if isinstance(order, int) else 'perm')
        res.count('mode:' + mode)
        bad = spec(dom, cl, art)
        resp = next(resps) if resps else None
        fill = resp['out']['fill'] if resp and resp['ok'] else 0
        res.case(canon, fill > 0 or len(art['nodes']) >= 3,
                 sample=dict(canon, nodes=art['nodes'], edges=art['edges']) if fill > 0 and len(art['nodes']) >= 3 else None)
        if fill > 0:
            res.count('fill-in edges added')
        if len(art['nodes']) >= 3:
            res.count('tree with >=3 nodes')
        obs = {k: art[k] for k in ('order', 'nodes', 'edges', 'mp_order')}
        if bad:
            res.violation('failing-input', 'constructed junction tree is invalid: ' + '; '.join(bad), dict(rp, observed=obs, expected=bad),
                          key='jt:invalid')
            continue
        if resp is None:
            continue
        if not resp['ok']:
            res.violation('correspondence', 'driver error ' + resp['err'], dict(rp, stream='C12.jt'))
            continue
        o = resp['out']
        if not o['check']['all']:
            failed = [k for k, v in o['check'].items() if not v]
            res.violation('correspondence', f'verified checker rejects the tree ({failed}) but the independent validity check accepts it',
                          dict(rp, observed=obs, model=o, stream='C12.checkJT'))
            continue
        if not o['check'].get('topo', True):
            res.violation('correspondence', 'mp_order is not a topological sort of the model dependency digraph (messages, depEdges)',
                          dict(rp, observed=obs, model=o, stream='C12.topo'))
            continue
        if not o['check'].get('preorder', True) or not o['check'].get('rip_order', True):
            res.violation('correspondence', f'maximal_cliques() is not a depth-first preorder of the tree / not a running-intersection order (preorder {o["check"].get("preorder")}, '
                          f'rip order {o["check"].get("rip_order")}): GraphicalModel.mle relies on it', dict(rp, observed=obs, model=o, stream='C12.preorder'))
            continue
        if sorted(map(tuple, o['model_nodes'])) != sorted(tuple(n) for n in art['nodes']):
            res.violation('correspondence', f'maximal cliques differ: model {sorted(o["model_nodes"])} impl {sorted(art["nodes"])}',
                          dict(rp, observed=obs, model=o, stream='C12.cliques'))
            continue
        if o['weight'] != o['bound']:
            res.violation('correspondence', f'tree weight {o["weight"]} != sum_v(n_v-1) = {o["bound"]} although running intersection holds',
                          dict(rp, observed=obs, model=o, stream='C12.weight'))
            continue
        if order is None and o['greedy'] != art['order']:
            res.violation('correspondence', f'default elimination order: model {o["greedy"]} impl {art["order"]}',
                          dict(rp, observed=obs, model=o, stream='C12.greedy'))


    # stochastic / integer mode: the recorded draws of np.random.choice drive the model's greedyOrderPicks
    if drv:
        pk = [(c, a) for c, a in zip(cases, arts) if isinstance(c[2], int) and 'raise' not in a]
        outs = drv.run([{'op': 'jt_picks', 'dom': c[0], 'cliques': c[1], 'picks': a['picks']} for c, a in pk])
        for (c, a), o in zip(pk, outs):
            res.count('int-mode orders replayed through greedyOrderPicks', len(a['picks']))
            rp = {'request': {'dom': c[0], 'cliques': c[1], 'order': c[2]}, 'picks': a['picks']}
            if not o['ok']:
                res.violation('correspondence', 'driver error ' + o['err'], dict(rp, stream='C12.picks'))
            elif len(a['picks']) != c[2] or any(len(x) != len(c[0]) for x in a['picks']):
                res.violation('correspondence', f'integer mode made {[len(x) for x in a["picks"]]} draws, expected {c[2]} runs of {len(c[0])}',
                              dict(rp, stream='C12.picks'))
            elif o['out']['chosen'] != a['order']:
                res.violation('correspondence', f'integer-mode elimination order: model {o["out"]["chosen"]} impl {a["order"]}',
                              dict(rp, model=o['out'], stream='C12.picks'))
            elif sorted(a['order']) != sorted(x for x, _ in c[0]):
                res.violation('failing-input', f'integer-mode elimination order {a["order"]} is not a permutation of the domain', rp, key='jt:order')


def search(res, tier, seed, broken):
    np.random.seed((seed + 1) % (2**32))
    for dom, cl, order in gen_cases('quick', seed + 1):
        try:
            art = build_impl(dom, cl, order)
        except Exception as e:
            res.violation('failing-input', f'JunctionTree construction raises {type(e).__name__}', {'request': {'dom': dom, 'cliques': cl, 'order': order}}, key='jt:raises')
            return
        bad = spec(dom, cl, art)
        if bad:
            res.violation('failing-input', 'constructed junction tree is invalid: ' + '; '.join(bad),
                          {'request': {'dom': dom, 'cliques': cl, 'order': order}, 'expected': bad}, key='jt:invalid')
            return


def replay(res, drv, rp):
    q = rp['request']
    np.random.seed(rp.get('seed', 0) % (2**32))
    art = build_impl(q['dom'], q['cliques'], q['order'])
    bad = spec(q['dom'], q['cliques'], art)
    res.case(q)
    if bad:
        res.violation('failing-input', 'constructed junction tree is invalid: ' + '; '.join(bad), {'request': q, 'expected': bad}, key='jt:invalid')
