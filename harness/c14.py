"""C14 — factor algebra is addressed by attribute name (correspondence + pointwise spec)."""
import itertools, math
import numpy as np
from common import Fr, enc_q, dec_q, enc_f, dec_f, same_q, close, rng

LEAN_MODULE = 'PGM.Properties.C14'
LEAN_EXTRA = ['PGM.Properties.C14B', 'PGM.Properties.C14G', 'PGM.Properties.C14F']
TRANSLATORS = ('py2cv', 'py2factor')      # src/mbi/clique_vector.py -> PGM/Generated/CliqueVecG.lean, proved equal to the hand model in C14G
TRUSTED = ['Lean 4.33 kernel', 'axioms: propext, Classical.choice, Quot.sound',
           'numpy indexing contracts of NdArr (reshape/moveaxis/broadcast_to/reduce/take), exercised per run',
           'hand model PGM/Model/Factor.lean tied to src/mbi/factor.py by this correspondence run',
           'IEEE rounding of exp/log not modelled (float stream compared at 1e-12)']
ASSUMPTIONS = ['attribute lists are duplicate-free', 'no NaN operands; signed zeros not distinguished']
RULE = ('random domains of 2-5 attributes with sizes in {1,2,3,4}; two factors over random ordered, '
        'overlapping attribute subsets; every operation of the property list; a case is non-trivial '
        'when at least one operand has >=2 attributes in non-domain order or the operands overlap partially; '
        'distinct = distinct canonical request')
EXPLANATION = ('each case is executed on src/mbi/factor.py in-process and on the Lean model '
               '(exact rationals with IEEE infinities, or doubles for exp/log); results are compared '
               'cell by cell, and independently against the pointwise by-name specification')

EXACT_BIN = ['add', 'mul', 'sub', 'div', 'iadd', 'imul']
EXACT_UN = ['sum', 'max', 'project', 'transpose', 'expand', 'condition', 'condition', 'condition', 'project', 'expand', 'copy', 'sum_all', 'max_all',
            'mul_scalar', 'add_scalar', 'sub_scalar', 'div_scalar', 'iadd_scalar', 'imul_scalar']
FLOAT_BIN = ['logaddexp']
FLOAT_UN = ['logsumexp', 'project_lse', 'exp', 'log', 'logsumexp_all']


def gen_domain(r):
    k = r.randint(2, 5)
    names = r.sample(['a', 'b', 'c', 'd', 'e', 'f'], k)
    return [(n, r.choice([1, 2, 2, 3, 3, 4])) for n in names]


def gen_factor(r, dom, kmin=0, floaty=False, positive=False):
    k = r.randint(max(kmin, 0), len(dom))
    sub = r.sample(dom, k)
    n = 1
    for _, s in sub:
        n *= s
    vals = []
    for _ in range(n):
        u = r.random()
        if floaty:
            v = r.choice([0.0, 0.5, -1.25, 2.0, 3.5, -4.0, 7.0, 700.0, -700.0, 705.0, 709.0, 709.5, 709.75, 1000.0, -745.0]) if u > 0.1 else -math.inf      # incl. the edge of the range of exp(): log(DBL_MAX) = 709.78
            if positive:
                v = abs(v) if v != -math.inf else 0.0
        else:
            if u < 0.08:
                v = -math.inf
            elif u < 0.2:
                v = 0
            else:
                v = r.randint(-9, 9)
            if positive and v != -math.inf:
                v = abs(v)
        vals.append(v)
    return {'dom': [[a, s] for a, s in sub], 'vals': vals}


def to_impl(fd):
    from mbi import Domain, Factor
    d = Domain([a for a, _ in fd['dom']], [s for _, s in fd['dom']])
    return Factor(d, np.array(fd['vals'], dtype=float))


WARMUPS = [0]
OUT_VARIANTS = [0]
INT_TABLES = [0]
OUT_MISMATCH = []


def impl_apply(fn, f, g, args):
    """run the real code; returns ('factor', attrs, shape, flatvals) | ('scalar', v) | ('raise', cls)"""
    from mbi import Domain, Factor
    F = to_impl(f)
    G = to_impl(g) if g is not None else None
    if fn in ('div', 'mul', 'add', 'sub') and np.all(np.isfinite(F.values)) and np.array_equal(F.values, np.round(F.values)) and (len(f['vals']) + len(fn)) % 2 == 0:
        # a hand-built table of counts may be stored with an integer element type: the operation is the same
        F = Factor(F.domain, F.values.astype(np.int64))
        INT_TABLES[0] += 1
    try:
        with np.errstate(all='ignore'):
            # a history on the operand: the same read-only operation asked before, with the attributes in another order
            # (results must depend on the arguments of THIS call only)
            if args.get('warmup') is not None and fn in ('project', 'project_lse', 'sum', 'logsumexp', 'max', 'transpose'):
                try:
                    {'project': F.project, 'project_lse': lambda a: F.project(a, agg='logsumexp'), 'sum': F.sum, 'logsumexp': F.logsumexp,
                     'max': F.max, 'transpose': F.transpose}[fn](args['warmup'])
                except Exception:
                    pass
                WARMUPS[0] += 1
            if fn == 'expand':
                d = Domain([a for a, _ in args['dom2']], [s for _, s in args['dom2']])
                R = F.expand(d)
            elif fn == 'transpose':
                R = F.transpose(args['attrs'])
            elif fn == 'project':
                R = F.project(args['attrs'])
            elif fn == 'project_lse':
                R = F.project(args['attrs'], agg='logsumexp')
            elif fn == 'sum':
                R = F.sum(args['attrs'])
            elif fn == 'logsumexp':
                R = F.logsumexp(args['attrs'])
            elif fn == 'max':
                R = F.max(args['attrs'])
            elif fn == 'sum_all':
                return ('scalar', float(F.sum()))
            elif fn == 'logsumexp_all':
                return ('scalar', float(F.logsumexp()))
            elif fn == 'max_all':
                return ('scalar', float(F.max()))
            elif fn == 'condition':
                R = F.condition({a: v for a, v in args['ev']})
            elif fn == 'add':
                R = F + G
            elif fn == 'mul':
                R = F * G
            elif fn == 'sub':
                R = F - G
            elif fn == 'div':
                R = F / G
            elif fn == 'logaddexp':
                R = F.logaddexp(G)
            elif fn == 'iadd':
                R = F.copy(); R += G
            elif fn == 'imul':
                R = F.copy(); R *= G
            elif fn == 'mul_scalar':
                R = args['c'] * F
            elif fn == 'add_scalar':
                R = args['c'] + F
            elif fn == 'sub_scalar':
                R = F - args['c']
            elif fn == 'div_scalar':
                R = F / args['c']
            elif fn == 'iadd_scalar':
                R = F.copy(); R += args['c']
            elif fn == 'imul_scalar':
                R = F.copy(); R *= args['c']
            elif fn in ('exp', 'log'):
                R = F.exp() if fn == 'exp' else F.log()
                # the in-place (`out=`) variant must agree with the pure one, cell for cell
                O = Factor.zeros(F.domain)
                got = F.exp(out=O) if fn == 'exp' else F.log(out=O)
                OUT_VARIANTS[0] += 1
                if got is not O or not np.array_equal(np.asarray(R.values), np.asarray(O.values), equal_nan=True):
                    OUT_MISMATCH.append((fn, f, [float(v) for v in np.asarray(R.values).flatten()][:6], [float(v) for v in np.asarray(O.values).flatten()][:6]))
            elif fn == 'copy':
                R = F.copy()
            else:
                raise RuntimeError(fn)
    except (AssertionError, KeyError, ValueError, IndexError, TypeError) as e:
        return ('raise', type(e).__name__)
    return ('factor', list(R.domain.attrs), list(R.domain.shape), [float(v) for v in np.asarray(R.values).flatten()])


def scalar_op(fn):
    def sub_(x, y):
        return x + (0.0 if y == -math.inf else -y)

    def div_(x, t):
        with np.errstate(all='ignore'):
            return float(np.float64(x) / np.float64(t)) if t > 0 else 0.0
    with np.errstate(all='ignore'):
        return {'add': lambda x, y: x + y, 'iadd': lambda x, y: x + y,
                'mul': lambda x, y: float(np.float64(x) * np.float64(y)),
                'imul': lambda x, y: float(np.float64(x) * np.float64(y)),
                'sub': sub_, 'div': div_,
                'logaddexp': lambda x, y: float(np.logaddexp(x, y))}[fn]


def lookup(fd, sigma):
    """value of factor-dict at the assignment sigma (dict attr->value)"""
    idx = 0
    for a, s in fd['dom']:
        idx = idx * s + sigma[a]
    return float(fd['vals'][idx])


def spec_check(fn, f, g, args, out):
    """pointwise by-name specification, evaluated on the implementation's result `out`.
    returns None if it holds, else a description."""
    if out[0] != 'factor':
        return None
    _, rattrs, rshape, rvals = out
    rd = {'dom': list(zip(rattrs, rshape)), 'vals': rvals}
    sizes = dict(f['dom'])
    if g is not None:
        sizes.update(dict(g['dom']))
    if fn == 'expand':
        sizes.update(dict(args['dom2']))

    def eq(x, y):
        return (math.isnan(x) and math.isnan(y)) or x == y or close(x, y, 1e-12, 1e-300)

    def each(attrs):
        for combo in itertools.product(*[range(sizes[a]) for a in attrs]):
            yield dict(zip(attrs, combo))
    fattrs = [a for a, _ in f['dom']]
    if fn in ('add', 'mul', 'sub', 'div', 'logaddexp', 'iadd', 'imul'):
        gattrs = [a for a, _ in g['dom']]
        want = set(fattrs) | set(gattrs)
        if set(rattrs) != want or len(rattrs) != len(want):
            return f'result attributes {rattrs} != union {sorted(want)}'
        op = scalar_op(fn)
        for s in each(rattrs):
            w = op(lookup(f, s), lookup(g, s))
            if not eq(lookup(rd, s), w):
                return f'at {s}: got {lookup(rd, s)}, by-name value {w}'
        return None
    if fn in ('expand', 'transpose', 'copy'):
        want = [a for a, _ in args['dom2']] if fn == 'expand' else (args['attrs'] if fn == 'transpose' else fattrs)
        if list(rattrs) != list(want):
            return f'result attribute order {rattrs} != requested {want}'
        for s in each(rattrs):
            if not eq(lookup(rd, s), lookup(f, s)):
                return f'at {s}: got {lookup(rd, s)}, expected {lookup(f, s)}'
        return None
    if fn in ('sum', 'max', 'logsumexp', 'project', 'project_lse'):
        if fn in ('project', 'project_lse'):
            keep = list(args['attrs'])
            if list(rattrs) != keep:
                return f'projection axes {rattrs} not in requested order {keep}'
        else:
            keep = [a for a in fattrs if a not in args['attrs']]
            if set(rattrs) != set(keep):
                return f'result attributes {rattrs} != {keep}'
        out_attrs = [a for a in fattrs if a not in keep]
        for s in each(rattrs):
            vals = []
            for t in each(out_attrs):
                st = dict(s); st.update(t)
                vals.append(lookup(f, st))
            with np.errstate(all='ignore'):
                if fn in ('sum', 'project'):
                    w = float(np.sum(np.array(vals, dtype=float))) if vals else 0.0
                elif fn == 'max':
                    w = float(np.max(vals))
                else:
                    from scipy.special import logsumexp
                    w = float(logsumexp(np.array(vals, dtype=float)))
            if not eq(lookup(rd, s), w):
                return f'at {s}: got {lookup(rd, s)}, aggregate by name {w}'
        return None
    if fn == 'condition':
        ev = dict(args['ev'])
        for s in each(rattrs):
            st = dict(s); st.update(ev)
            if not eq(lookup(rd, s), lookup(f, st)):
                return f'at {s}|{ev}: got {lookup(rd, s)}, expected {lookup(f, st)}'
        if set(rattrs) != set(fattrs) - set(ev):
            return f'condition result attrs {rattrs}'
        return None
    return None


def make_request(fn, f, g, args, k):
    enc = enc_q if k == 'q' else enc_f
    req = {'op': 'factor', 'fn': fn, 'k': k,
           'f': {'dom': f['dom'], 'vals': [enc(v) for v in f['vals']]}}
    if g is not None:
        req['g'] = {'dom': g['dom'], 'vals': [enc(v) for v in g['vals']]}
    for key in ('attrs', 'dom2', 'ev'):
        if key in args:
            req[key] = args[key]
    if 'c' in args:
        req['c'] = enc(args['c'])
    return req


def compare(resp, out, k):
    """model response vs implementation outcome; returns None if equal else description"""
    if not resp['ok']:
        if resp['err'] == 'raise':
            return None if out[0] == 'raise' else f'model rejects, implementation returns {out[0]}'
        return 'driver error: ' + resp['err']
    if out[0] == 'raise':
        return f'RAISES: implementation raises {out[1]} on an input the model (and the documented preconditions) accept'
    o = resp['out']
    if out[0] == 'scalar':
        mv = dec_q(o['val']) if k == 'q' else dec_f(o['val'])
        okv = same_q(mv, out[1]) if k == 'q' else close(mv, out[1], 1e-12, 1e-300)
        return None if okv else f'scalar: model {mv} impl {out[1]}'
    mattrs = [a for a, _ in o['dom']]
    if mattrs != out[1]:
        return f'attribute order: model {mattrs} impl {out[1]}'
    if o['shape'] != out[2]:
        return f'shape: model {o["shape"]} impl {out[2]}'
    if len(o['vals']) != len(out[3]):
        return 'size mismatch'
    for i, (mv, iv) in enumerate(zip(o['vals'], out[3])):
        if k == 'q':
            if not same_q(dec_q(mv), iv):
                return f'cell {i}: model {mv} impl {iv}'
        else:
            if not close(dec_f(mv), iv, 1e-12, 1e-300):
                return f'cell {i}: model {dec_f(mv)} impl {iv}'
    return None


def gen_case(r):
    dom = gen_domain(r)
    kind = r.random()
    if kind < 0.45:
        fn = r.choice(EXACT_BIN)
        k = 'q'
    elif kind < 0.8:
        fn = r.choice(EXACT_UN)
        k = 'q'
    elif kind < 0.88:
        fn = r.choice(FLOAT_BIN)
        k = 'f'
    else:
        fn = r.choice(FLOAT_UN)
        k = 'f'
    floaty = (k == 'f')
    args = {}
    g = None
    if fn in EXACT_BIN + FLOAT_BIN:
        f = gen_factor(r, dom, 1, floaty)
        if fn in ('div', 'iadd', 'imul'):
            # other must live inside self's domain (else the real code asserts) - mostly valid, sometimes not
            fdom = [tuple(x) for x in f['dom']]
            u_ = r.random()
            if u_ < 0.3 and len(fdom) >= 2:
                # the same attribute set in another order
                perm = r.sample(fdom, len(fdom))
                g = gen_factor(r, perm, len(perm), floaty)
            elif u_ < 0.85:
                g = gen_factor(r, fdom, 0, floaty)
            else:
                g = gen_factor(r, dom, 0, floaty)
        else:
            g = gen_factor(r, dom, 0, floaty)
    else:
        f = gen_factor(r, dom, 1, floaty, positive=(fn == 'log'))
        fattrs = [a for a, _ in f['dom']]
        if fn == 'expand':
            if r.random() < 0.9:
                rest = [d for d in dom if d[0] not in fattrs]
                extra = r.sample(rest, r.randint(0, len(rest)))
                d2 = [tuple(x) for x in f['dom']] + extra
                r.shuffle(d2)
            else:
                d2 = r.sample(dom, r.randint(1, len(dom)))
            args['dom2'] = [[a, s] for a, s in d2]
        elif fn == 'transpose':
            p = list(fattrs); r.shuffle(p)
            if r.random() < 0.08 and len(p) > 1:
                p = p[:-1]
            args['attrs'] = p
        elif fn in ('project', 'project_lse'):
            p = r.sample(fattrs, r.randint(0, len(fattrs)))
            if fn == 'project_lse' and len(p) == len(fattrs) and False:
                pass
            args['attrs'] = p
        elif fn in ('sum', 'max', 'logsumexp'):
            lo = 1 if fn in ('max', 'logsumexp') else 0
            args['attrs'] = r.sample(fattrs, r.randint(min(lo, len(fattrs)), len(fattrs)))
        elif fn == 'condition':
            evs = r.sample(f['dom'], r.randint(0, len(f['dom'])))
            args['ev'] = [[a, r.randrange(s)] for a, s in evs]
        elif fn.endswith('_scalar'):
            args['c'] = r.choice([0.5, -2.0, 3.0, 0.25, 1.0, -1.0, 8.0]) if fn != 'div_scalar' else r.choice([0.5, -2.0, 4.0, 0.25, 8.0])
        if fn in ('project', 'project_lse', 'sum', 'logsumexp', 'max', 'transpose') and len(args.get('attrs', [])) >= 2 and r.random() < 0.5:
            w = list(args['attrs']); r.shuffle(w)
            args['warmup'] = w
    return fn, f, g, args, k


def nontrivial(f, g):
    fa = [a for a, _ in f['dom']]
    if g is None:
        return len(fa) >= 2
    ga = [a for a, _ in g['dom']]
    inter = set(fa) & set(ga)
    return (len(fa) >= 2 or len(ga) >= 2) and (0 < len(inter) < max(len(fa), len(ga)) or fa != sorted(fa))


def run(res, drv, tier, seed):
    r = rng(seed, 'C14')
    n = 600 if tier == 'quick' else 8000
    cases = [gen_case(r) for _ in range(n)]
    outs = [impl_apply(fn, f, g, args) for fn, f, g, args, k in cases]
    resps = drv.run([make_request(fn, f, g, args, k) for fn, f, g, args, k in cases]) if drv else [None] * n
    for (fn, f, g, args, k), out, resp in zip(cases, outs, resps):
        canon = {'fn': fn, 'f': f, 'g': g, 'args': args}
        res.case(canon, nontrivial(f, g), sample=canon if fn in ('sub', 'project', 'expand', 'div') else None)
        res.count('op:' + fn)
        res.count('outcome:' + out[0])
        if any(v == -math.inf for v in f['vals']) or (g and any(v == -math.inf for v in g['vals'])):
            res.count('has -inf')
        sp = spec_check(fn, f, g, args, out)
        replay = {'request': {'fn': fn, 'f': f, 'g': g, 'args': args, 'k': k}, 'observed': out}
        if sp is not None:
            res.violation('failing-input', f'Factor.{fn} is not by-name: {sp}', dict(replay, expected=sp),
                          key=f'factor.{fn}:spec')
            continue
        if resp is None:
            continue
        d = compare(resp, out, k)
        if d is not None and d.startswith('RAISES'):
            res.violation('failing-input', f'Factor.{fn}: {d[8:]}', dict(replay, model=resp), key=f'factor.{fn}:raises')
        elif d is not None:
            res.violation('correspondence', f'Factor.{fn}: model and implementation differ ({d}); '
                          'the by-name specification holds on this input', dict(replay, model=resp, stream='C14.factor'))
    res.extra['out_variants_compared_with_pure'] = OUT_VARIANTS[0]
    res.extra['left_operands_stored_as_integer_tables'] = INT_TABLES[0]
    for fn_, f_, pure_, inpl_ in OUT_MISMATCH[:3]:
        res.violation('failing-input', f'Factor.{fn_}(out=...) disagrees with the pure Factor.{fn_}(): first cells pure {pure_}, in place {inpl_}',
                      {'request': {'op': 'factor', 'fn': fn_, 'f': f_, 'g': None, 'args': {}, 'k': 'f', 'out_variant': True}, 'observed': inpl_, 'expected': pure_},
                      key=f'factor.{fn_}:out-variant')
    run_cliquevector(res, drv, tier, seed)


def gen_cv(r, dom, keys, permute=False):
    """a CliqueVector as a list of {clique, dom, vals}; with permute, a factor may store its attributes in another order than its key"""
    sizes = dict(dom)
    out = []
    for cl in keys:
        attrs = list(cl)
        if permute and r.random() < 0.4:
            r.shuffle(attrs)
        n = 1
        for a in attrs:
            n *= sizes[a]
        vals = []
        for _ in range(n):
            u = r.random()
            vals.append(-math.inf if u < 0.07 else (math.inf if u < 0.09 else (0 if u < 0.2 else r.choice([-3, -1, 1, 2, 5, 0.5, -0.25, 7]))))
        out.append({'clique': list(cl), 'dom': [[a, sizes[a]] for a in attrs], 'vals': vals})
    return out


def cv_impl(cv):
    from mbi import Domain, Factor, CliqueVector
    return CliqueVector({tuple(e['clique']): Factor(Domain([a for a, _ in e['dom']], [s for _, s in e['dom']]), np.array(e['vals'], dtype=float))
                         for e in cv})


def cv_out(v):
    return [{'clique': list(cl), 'dom': [[a, int(s)] for a, s in zip(v[cl].domain.attrs, v[cl].domain.shape)],
             'vals': [float(x) for x in np.asarray(v[cl].values, dtype=float).flatten()]} for cl in v]


def gen_cv_case(r):
    dom = gen_domain(r)
    names = [a for a, _ in dom]
    keys = []
    for _ in range(r.randint(1, 4)):
        cl = r.sample(names, r.randint(1, min(3, len(names))))
        if cl not in keys:
            keys.append(cl)
    fn = r.choice(['smul', 'add', 'sub', 'dot', 'combine', 'combine', 'zeros'])
    a = gen_cv(r, dom, keys)
    q = {'op': 'cv', 'fn': fn, 'dom': [list(p) for p in dom], 'a': a}
    if r.random() < 0.35 and fn != 'zeros':
        # the vector is built from `a0` and then edited like any dict (a table re-bound, a clique added, one deleted): `a` is what it holds now
        a0 = [dict(e) for e in a]
        edits = []
        for _ in range(r.randint(1, 2)):
            how = r.choice(['rebind', 'add', 'delete'])
            if how == 'rebind':
                i = r.randrange(len(a0))
                a0[i] = gen_cv(r, dom, [a0[i]['clique']])[0]
            elif how == 'add' and fn in ('smul', 'combine'):
                i = r.randrange(len(a))
                a0 = a0[:i] + a0[i + 1:] if len(a0) > 1 else a0
            elif how == 'delete' and fn in ('smul', 'combine'):
                extra = r.sample(names, r.randint(1, min(2, len(names))))
                if extra not in [e['clique'] for e in a0]:
                    a0.append(gen_cv(r, dom, [extra])[0])
            edits.append(how)
        q['a0'] = a0
    if fn == 'smul':
        q['c'] = r.choice([0, 1, -1, 2, 0.5, -3, math.inf])
    elif fn in ('add', 'sub', 'dot'):
        bkeys = list(keys)
        if r.random() < 0.5:
            r.shuffle(bkeys)            # the same cliques registered in another order
        if r.random() < 0.3:
            extra = r.sample(names, r.randint(1, min(2, len(names))))
            if extra not in bkeys:
                bkeys.insert(r.randrange(len(bkeys) + 1), extra)     # a clique the first operand does not have
        q['b'] = gen_cv(r, dom, bkeys, permute=True)
    elif fn == 'combine':
        other = []
        for _ in range(r.randint(0, 4)):
            u = r.random()
            if u < 0.7:      # inside some key (possibly several, possibly in another order)
                k = r.choice(keys)
                cl = r.sample(k, r.randint(1, len(k)))
            else:            # arbitrary: may be covered by no key
                cl = r.sample(names, r.randint(1, min(3, len(names))))
            if cl not in other:
                other.append(cl)
        q['b'] = gen_cv(r, dom, other)
    return q


def cv_apply(q):
    from mbi import Domain, CliqueVector
    if 'a0' in q:
        # construct from a0, then edit the mapping until it holds exactly `a` (in a's key order where Python's dict order allows)
        a = cv_impl(q['a0'])
        want = cv_impl(q['a'])
        for k in [k for k in list(a) if k not in want]:
            del a[k]
        for k in want:
            a[k] = want[k]
        if list(a) != list(want):
            a = want       # key order could not be reproduced by edits: fall back to a fresh vector
    else:
        a = cv_impl(q['a'])
    fn = q['fn']
    try:
        with np.errstate(all='ignore'):
            if fn == 'smul':
                return ('cv', cv_out(q['c'] * a if q.get('left', True) else a * q['c']))
            if fn == 'add':
                return ('cv', cv_out(a + cv_impl(q['b'])))
            if fn == 'sub':
                return ('cv', cv_out(a - cv_impl(q['b'])))
            if fn == 'dot':
                return ('scalar', float(a.dot(cv_impl(q['b']))))
            if fn == 'combine':
                a.combine(cv_impl(q['b']))
                return ('cv', cv_out(a))
            if fn == 'zeros':
                d = Domain([x for x, _ in q['dom']], [s for _, s in q['dom']])
                return ('cv', cv_out(CliqueVector.zeros(d, [tuple(e['clique']) for e in q['a']])))
    except (AssertionError, KeyError, ValueError, IndexError) as e:
        return ('raise', type(e).__name__)


def cv_spec(q, out):
    """clique-by-clique, by-name specification evaluated on the implementation's result"""
    if out[0] == 'raise':
        return None
    sizes = dict(map(tuple, q['dom']))
    fn = q['fn']
    A = {tuple(e['clique']): e for e in q['a']}
    B = {tuple(e['clique']): e for e in q.get('b', [])}

    def n2n(x):
        return 0.0 if math.isnan(x) else (1.7976931348623157e308 if x == math.inf else (-1.7976931348623157e308 if x == -math.inf else x))

    def mulc(c, x):
        with np.errstate(all='ignore'):
            return n2n(float(np.float64(c) * np.float64(x)))

    def eq(x, y):
        return (math.isnan(x) and math.isnan(y)) or x == y or close(x, y, 1e-12, 1e-300)
    if fn == 'dot':
        want = 0.0
        with np.errstate(all='ignore'):
            for k, e in A.items():
                for combo in itertools.product(*[range(sizes[x]) for x in k]):
                    sg = dict(zip(k, combo))
                    want = want + float(np.float64(lookup(e, sg)) * np.float64(lookup(B[k], sg)))
        return None if eq(want, out[1]) else f'dot: {out[1]}, clique-by-clique sum of products {want}'
    R = {tuple(e['clique']): e for e in out[1]}
    if list(R) != list(A):
        return f'keys {list(R)} != keys of the first operand {list(A)}'
    for k, e in A.items():
        res = R[k]
        if sorted(a for a, _ in res['dom']) != sorted(k):
            return f'result factor for {k} is over {res["dom"]}'
        covered = []
        if fn == 'combine':
            for ko, eo in B.items():
                first = next((kk for kk in A if set(ko) <= set(kk)), None)
                if first == k:
                    covered.append(eo)
        for combo in itertools.product(*[range(sizes[x]) for x in k]):
            sg = dict(zip(k, combo))
            x = lookup(e, sg)
            with np.errstate(all='ignore'):
                if fn == 'smul':
                    want = mulc(q['c'], x)
                elif fn == 'add':
                    want = x + lookup(B[k], sg)
                elif fn == 'sub':
                    want = x + mulc(-1.0, lookup(B[k], sg))
                elif fn == 'zeros':
                    want = 0.0
                else:
                    want = x
                    for eo in covered:
                        want = want + lookup(eo, sg)
            got = lookup(res, sg)
            if not eq(want, got):
                return f'{fn}: clique {k} at {sg}: got {got}, by-name value {want}'
    return None


def cv_compare(resp, out):
    if not resp['ok']:
        return 'driver error: ' + resp['err']
    if out[0] == 'raise':
        return f'implementation raises {out[1]}, model returns'
    o = resp['out']
    if out[0] == 'scalar':
        return None if same_q(dec_q(o['val']), out[1]) else f'scalar: model {o["val"]} impl {out[1]}'
    if [e['clique'] for e in o] != [e['clique'] for e in out[1]]:
        return f'keys: model {[e["clique"] for e in o]} impl {[e["clique"] for e in out[1]]}'
    for em, ei in zip(o, out[1]):
        if em['dom'] != ei['dom']:
            return f'clique {em["clique"]}: factor domain model {em["dom"]} impl {ei["dom"]}'
        for i, (mv, iv) in enumerate(zip(em['vals'], ei['vals'])):
            if not same_q(dec_q(mv), iv):
                return f'clique {em["clique"]} cell {i}: model {mv} impl {iv}'
    return None


def cv_request(q):
    q2 = {k: v for k, v in q.items() if k != 'a0'}
    for key in ('a', 'b'):
        if key in q:
            q2[key] = [dict(e, vals=[enc_q(v) for v in e['vals']]) for e in q[key]]
    if 'c' in q:
        q2['c'] = enc_q(q['c'])
    return q2


def run_cliquevector(res, drv, tier, seed):
    """CliqueVector arithmetic: clique by clique, by attribute name (theorems of C14B)"""
    r = rng(seed, 'C14-cv')
    n = 200 if tier == 'quick' else 3000
    qs = [gen_cv_case(r) for _ in range(n)]
    outs = [cv_apply(q) for q in qs]
    resps = drv.run([cv_request(q) for q in qs]) if drv else [None] * n
    for q, out, resp in zip(qs, outs, resps):
        res.case(q, len(q['a']) >= 2 or q['fn'] == 'combine')
        res.count('cliquevector:' + q['fn'])
        if 'a0' in q:
            res.count('cliquevector edited after construction (re-bound / added / deleted entries)')
        if q['fn'] == 'combine':
            keys = [set(e['clique']) for e in q['a']]
            for e in q['b']:
                nc = sum(1 for k in keys if set(e['clique']) <= k)
                res.count('combine: factor covered by %s key(s)' % ('no' if nc == 0 else ('one' if nc == 1 else 'several')))
        sp = cv_spec(q, out)
        if sp is not None:
            res.violation('failing-input', f'CliqueVector.{q["fn"]} is not clique-by-clique by name: {sp}', {'request': q, 'observed': out, 'expected': sp},
                          key=f'cliquevector.{q["fn"]}:spec')
            continue
        if resp is None:
            continue
        d = cv_compare(resp, out)
        if d is not None:
            res.violation('correspondence', f'CliqueVector.{q["fn"]}: model and implementation differ ({d}); the by-name specification holds on this input',
                          {'request': q, 'observed': out, 'model': resp, 'stream': 'C14.cliquevector'})


def search(res, tier, seed, broken):
    """obligation broke: evaluate the by-name specification directly on the implementation"""
    r = rng(seed + 7919, 'C14-search')
    for _ in range(3000):
        fn, f, g, args, k = gen_case(r)
        out = impl_apply(fn, f, g, args)
        sp = spec_check(fn, f, g, args, out)
        if sp is not None:
            res.violation('failing-input', f'Factor.{fn} is not by-name: {sp}',
                          {'request': {'fn': fn, 'f': f, 'g': g, 'args': args, 'k': k}, 'observed': out, 'expected': sp},
                          key=f'factor.{fn}:spec')
            return
    for _ in range(1500):
        q = gen_cv_case(r)
        out = cv_apply(q)
        sp = cv_spec(q, out)
        if sp is not None:
            res.violation('failing-input', f'CliqueVector.{q["fn"]} is not clique-by-clique by name: {sp}', {'request': q, 'observed': out, 'expected': sp},
                          key=f'cliquevector.{q["fn"]}:spec')
            return


def replay(res, drv, rp):
    q = rp['request']
    if q.get('op') == 'cv':
        for key in ('a', 'b'):
            for e in q.get(key, []):
                e['vals'] = [float(v) for v in e['vals']]
        if 'c' in q:
            q['c'] = float(q['c'])
        out = cv_apply(q)
        sp = cv_spec(q, out)
        res.case(q)
        if sp is not None:
            res.violation('failing-input', f'CliqueVector.{q["fn"]} is not clique-by-clique by name: {sp}', {'request': q, 'observed': out, 'expected': sp},
                          key=f'cliquevector.{q["fn"]}:spec')
        elif drv:
            d = cv_compare(drv.one(cv_request(q)), out)
            if d:
                res.violation('correspondence', d, {'request': q, 'observed': out, 'stream': 'C14.cliquevector'})
        return
    fn, f, g, args, k = q['fn'], q['f'], q['g'], q['args'], q['k']
    for fd in (f, g):
        if fd:
            fd['vals'] = [float(v) for v in fd['vals']]
    out = impl_apply(fn, f, g, args)
    sp = spec_check(fn, f, g, args, out)
    res.case(q)
    if sp is not None:
        res.violation('failing-input', f'Factor.{fn} is not by-name: {sp}', {'request': q, 'observed': out, 'expected': sp},
                      key=f'factor.{fn}:spec')
    elif drv:
        d = compare(drv.one(make_request(fn, f, g, args, k)), out, k)
        if d:
            res.violation('correspondence', f'Factor.{fn}: {d}', {'request': q, 'observed': out, 'stream': 'C14.factor'})
