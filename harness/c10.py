"""C10 — structural zeros carry no mass in any answer."""
import itertools, math
import numpy as np
from common import close, rng
import estgen

LEAN_MODULE = 'PGM.Properties.C10'
LEAN_EXTRA = ['PGM.Properties.C10G', 'PGM.Properties.C10E']
TRANSLATORS = ('py2est', 'py2inf', 'py2gm', 'py2jt', 'py2gminit', 'py2gmq')     # C10E composes the generated solvers, belief_propagation and __init__; Factor.active, the zero loop of __init__ and _setup regenerated -> Generated/EstimateG.lean, identified with the definitions of Proofs/ZerosSem.lean
TRUSTED = ['Lean 4.33 kernel', 'axioms: propext, Classical.choice, Quot.sound',
           'hand models of Factor.active, CliqueVector.combine and the solvers\' parameter updates (PGM/Model/Solvers.lean) tied to inference.py / clique_vector.py / factor.py by the C08 and C14 correspondence runs',
           'numeric meaning of zero: |mass| <= 1e-80 * total (the refit mle adds 1e-100 inside log, so RDA/IG out-of-clique answers at declared cells are ~1e-100*total, never exactly 0)']
ASSUMPTIONS = ['the declared zero sets leave a non-empty support']
RULE = ('random domains (2-4 attributes), zero sets on measured cliques, sub-cliques and unmeasured attribute groups, 0-4 measurements, solvers MD/RDA/IG, '
        'with and without warm start over histories of 1-3 estimate calls; non-trivial = zeros declared on >= 2 attributes or on an unmeasured group; distinct = distinct (problem, solver, history)')
EXPLANATION = ('every answer of the returned model (in-clique and out-of-clique marginals whose attributes cover a declared cell, the full vector, synthetic records) is inspected at the declared cells; '
               'the remaining mass must sum to the total and nothing may be NaN')


DIVERGED = [0.0]


def check_zeros(model, prob, r, synth=True):
    dom = prob['dom']
    attrs = [a for a, _ in dom]
    sizes = dict(map(tuple, dom))
    zeros = prob['zeros']
    total = float(model.total)
    thr = 1e-80 * max(total, 1.0)
    # float rounding of log Z: parameters of magnitude M make every table inexact by about eps*M (same scaling as the C08 coherence check);
    # beyond 1e12 mirror descent's unbounded step doubling has diverged (recorded finding of C03 / C08) and the sum test is reported under that cause
    mags = [float(np.abs(v[np.isfinite(v)]).max()) for v in (np.asarray(model.potentials[c].values) for c in model.cliques) if np.isfinite(v).any()]
    M = max(mags + [0.0])
    DIVERGED[0] = M if M > 1e12 else 0.0
    sum_tol = 1e-6 if M > 1e12 else max(1e-6, 16 * 2.2e-16 * M)
    tups = set()
    for zc in zeros:
        tups.add(tuple(zc))
        tups.add(tuple(reversed(zc)))
        extra = [a for a in attrs if a not in zc]
        if extra:
            tups.add(tuple(list(zc) + [r.choice(extra)]))
    with np.errstate(all='ignore'):
        for t in tups:
            v = np.asarray(model.project(tuple(t)).values, dtype=float).flatten()
            if np.isnan(v).any():
                return f'answer for {list(t)} contains NaN'
            mask = estgen.declared_zero_mask(list(t), sizes, zeros)
            for m, x in zip(mask, v):
                if m and abs(x) > thr:
                    return f'answer for {list(t)} puts mass {x:.6g} on a structurally impossible cell (total {total:.6g})'
            if not close(float(v.sum()), total, sum_tol, 1e-9):
                return f'answer for {list(t)} sums to {float(v.sum())}, total {total}' + (f' (max |theta| = {M:.3g})' if M > 1e6 else '')
        dv = np.asarray(model.datavector(), dtype=float)
        if np.isnan(dv).any():
            return 'full vector contains NaN'
        mask = estgen.declared_zero_mask(attrs, sizes, zeros)
        for m, x in zip(mask, dv):
            if m and abs(x) > thr:
                return f'full vector puts mass {x:.6g} on a structurally impossible cell'
        if not close(float(dv.sum()), total, 1e-6, 1e-9):
            return f'full vector sums to {float(dv.sum())}, total {total}'
        if synth and total >= 1:
            np.random.seed(r.randrange(2 ** 31))
            df = model.synthetic_data().df
            for zc, zs in zeros.items():
                got = set(map(tuple, df[list(zc)].values.tolist()))
                hit = got & set(map(tuple, zs))
                if hit:
                    return f'synthetic records in structurally impossible cell {dict(zip(zc, sorted(hit)[0]))}'
            # "the remaining mass still sums to the total": also after records were drawn (with another row count) from this very model
            model.synthetic_data(rows=int(r.choice([7, 50, 250])))
            for t in list(tups) + [tuple(c) for c in model.cliques]:
                v = np.asarray(model.project(tuple(t)).values, dtype=float).flatten()
                if np.isnan(v).any() or not close(float(v.sum()), total, 1e-6, 1e-9):
                    return f'after synthetic records were drawn from the model, the answer for {list(t)} sums to {float(v.sum())}, total {total}'
                mask = estgen.declared_zero_mask(list(t), sizes, zeros)
                if any(m and abs(x) > thr for m, x in zip(mask, v)):
                    return f'after synthetic records were drawn from the model, the answer for {list(t)} puts mass on a structurally impossible cell'
    return None


def canon_seed(canon):
    import hashlib, json
    return int(hashlib.sha256(json.dumps({k: v for k, v in canon.items() if k != 'history_mode'}, sort_keys=True, default=str).encode()).hexdigest()[:8], 16)


def history_plan(meas, hist, mode, seed):
    """the measurement list of each of the `hist` estimate calls: growing prefixes (what the mechanisms do), shrinking ones (an earlier, larger
    model's parameters no longer fit into the later model), or arbitrary subsets"""
    import random
    n = len(meas)
    grow = [meas[: max(0, n - (hist - 1 - h))] for h in range(hist)]
    if mode == 'grow' or hist == 1:
        return grow
    if mode == 'shrink':
        return grow[::-1]
    rr = random.Random(seed)
    return [[m for m in meas if rr.random() < 0.6] for _ in range(hist)]


def run(res, drv, tier, seed):
    r = rng(seed, 'C10')
    n = 36 if tier == 'quick' else 300
    for ci in range(n):
        prob = estgen.gen_problem(r, with_zeros=True)
        if not prob['zeros']:
            continue
        engine = ['MD', 'RDA', 'IG'][ci % 3]
        if ci % 4 == 1:
            # pairwise measurements along a random tree over shuffled attributes, zeros that rule out one value of a separator attribute:
            # RDA / IG rebuild the parameters from the marginals clique by clique, in the order maximal_cliques() lists them
            kill = (ci % 8 == 1)
            prob = estgen.gen_tree_problem(r, kill_value=kill, scatter=not kill)
            engine = r.choice(['RDA', 'IG', 'MD']) if kill else r.choice(['RDA', 'IG'])
            res.count('tree-shaped measurement set with ' + ('a dead separator value' if kill else 'scattered zeros on measured pairs'))
            if not prob['zeros']:
                continue
        warm = r.random() < 0.5
        hist = r.randint(1, 3)
        iters = r.choice([1, 5, 40])
        total = r.choice([None, float(prob['N'])])
        canon = dict(estgen.canon_problem(prob), engine=engine, iters=iters, total=total, warm_start=warm, history=hist)
        measured = set(a for m in prob['meas'] for a in m['proj'])
        nt = any(len(zc) >= 2 or not set(zc) <= measured for zc in prob['zeros'])
        res.case(canon, nt, sample={k: canon[k] for k in ('dom', 'zeros', 'engine', 'warm_start', 'history')} if ci < 3 else None)
        res.count('engine:' + engine)
        res.count('warm' if warm else 'cold')
        mode = r.choice(['grow', 'shrink', 'subsets'])
        canon['history_mode'] = mode
        res.count('history:' + mode if hist > 1 else 'history:single')
        plan = history_plan(prob['meas'], hist, mode, canon_seed(canon))
        bad = None
        try:
            eng = estgen.make_engine(prob['dom'], prob['zeros'], iters=iters, warm_start=warm)
            for h in range(hist):
                ms = plan[h]
                model = estgen.estimate(eng, ms, total, engine)
                bad = check_zeros(model, prob, r, synth=(h == hist - 1))
                if bad:
                    bad = f'call {h + 1} of {hist}: ' + bad
                    break
        except Exception as e:
            bad = f'estimate raises {type(e).__name__}: {str(e)[:120]}'
        if bad:
            res.violation('failing-input', f'{engine} (warm_start={warm}): {bad}', {'request': canon, 'expected': bad},
                          key=f'zeros:{engine}' + (':diverged-parameters' if (DIVERGED[0] and 'sums to' in bad) else ''))
    directed_tree_zeros(res, rng(seed, 'C10-tree'), tier)
    directed_mechanism_zeros(res, rng(seed, 'C10-aim'), tier)


def directed_tree_zeros(res, r, tier):
    """RDA and IG rebuild the parameters from the marginals clique by clique (mle), in the order maximal_cliques() lists the cliques;
    a clique processed after both of its attributes have been seen contributes nothing - its zeros survive only if that order is a
    running-intersection order.  Scattered zeros on measured pairs of a random tree over shuffled attributes, few iterations."""
    for k in range(16 if tier == 'quick' else 120):
        prob = estgen.gen_tree_problem(r, scatter=True)
        if not prob['zeros']:
            continue
        engine = ['RDA', 'IG'][k % 2]
        iters = r.choice([1, 5])
        canon = dict(estgen.canon_problem(prob), engine=engine, iters=iters, total=float(prob['N']), warm_start=False, history=1, history_mode='grow')
        res.case(canon, True)
        res.count('directed: scattered zeros on a tree-shaped measurement set (' + engine + ')')
        try:
            eng = estgen.make_engine(prob['dom'], prob['zeros'], iters=iters)
            model = estgen.estimate(eng, prob['meas'], float(prob['N']), engine)
            bad = check_zeros(model, prob, r, synth=False)
        except Exception as e:
            bad = f'estimate raises {type(e).__name__}: {str(e)[:120]}'
        if bad:
            res.violation('failing-input', f'{engine} (warm_start=False): {bad}', {'request': canon, 'expected': bad}, key=f'zeros:{engine}')
            return


def directed_mechanism_zeros(res, r, tier):
    """a shipped mechanism that accepts `structural_zeros` (AIM) hands them to the estimator: the synthetic records and every answer of the
    model it builds must respect them - also for zeros on attributes the workload never mentions"""
    import contextlib, io
    import pandas as pd
    import mechs
    from mbi import Domain, Dataset, FactoredInference
    try:
        m = mechs.load('aim')
    except Exception:
        return
    dom = Domain(['a', 'b', 'c', 'd', 'e'], [2, 3, 2, 3, 2])
    n = 150
    rows = np.array([[r.randrange(s) for s in dom.shape] for _ in range(n)])
    zeros = {('d', 'e'): [(0, 1), (2, 0)], ('e',): [], ('c', 'd'): [(1, 1)]}
    for zc, cells in zeros.items():
        idx = [dom.attrs.index(a) for a in zc]
        for cell in cells:
            rows = rows[~np.all(rows[:, idx] == np.array(cell), axis=1)]
    data = Dataset(pd.DataFrame(rows, columns=list(dom.attrs)), dom)
    orig_init = FactoredInference.__init__

    def capped(self, *a, **kw):
        orig_init(self, *a, **kw)
        self.iters = min(self.iters, 60)
    orig_est = FactoredInference.estimate

    def est(self, *a, **kw):
        self.iters = min(self.iters, 60)
        return orig_est(self, *a, **kw)
    FactoredInference.__init__, FactoredInference.estimate = capped, est
    canon = {'mechanism': 'aim', 'zeros': {','.join(k): [list(c) for c in v] for k, v in zeros.items()}, 'workload': [['a', 'b'], ['b', 'c']]}
    res.case(canon, True)
    res.count('directed: AIM with structural zeros on attributes outside the workload')
    bad = None
    try:
        np.random.seed(7)
        with contextlib.redirect_stdout(io.StringIO()), np.errstate(all='ignore'):
            mech = m.AIM(3.0, 1e-6, rounds=5, structural_zeros=zeros)
            synth = mech.run(data, [(('a', 'b'), 1.0), (('b', 'c'), 1.0)])
        df = synth.df
        for zc, cells in zeros.items():
            for cell in cells:
                k = int(np.all(df[list(zc)].values == np.array(cell), axis=1).sum())
                if k:
                    bad = f'{k} synthetic record(s) of AIM lie in the structurally impossible cell {dict(zip(zc, cell))}'
                    break
            if bad:
                break
    except Exception as e:
        bad = f'AIM with structural zeros raises {type(e).__name__}: {str(e)[:120]}'
    finally:
        FactoredInference.__init__, FactoredInference.estimate = orig_init, orig_est
    if bad:
        res.violation('failing-input', bad, {'request': canon, 'expected': bad}, key='zeros:mechanism:aim')


def search(res, tier, seed, broken):
    run(res, None, 'quick', seed + 1)


def replay(res, drv, rp):
    q = rp['request']
    res.case(q)
    prob = {'dom': q['dom'], 'zeros': {tuple(k.split(',')): [tuple(c) for c in v] for k, v in q['zeros'].items()},
            'meas': [{'Q': np.array(m['Q']), 'y': np.array(m['y']), 'noise': m['noise'], 'proj': m['proj']} for m in q['meas']], 'N': 0}
    r = rng(0, 'r')
    plan = history_plan(prob['meas'], q['history'], q.get('history_mode', 'grow'), canon_seed(q))
    try:
        eng = estgen.make_engine(prob['dom'], prob['zeros'], iters=q['iters'], warm_start=q['warm_start'])
    except Exception as e:
        res.violation('failing-input', f'{q["engine"]}: constructing the estimator raises {type(e).__name__}: {str(e)[:120]}', {'request': q}, key=f'zeros:{q["engine"]}')
        return
    for h in range(q['history']):
        ms = plan[h]
        model = estgen.estimate(eng, ms, q['total'], q['engine'])
        bad = check_zeros(model, prob, r)
        if bad:
            res.violation('failing-input', f'{q["engine"]}: {bad}', {'request': q, 'expected': bad}, key=f'zeros:{q["engine"]}')
            return
