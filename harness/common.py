"""Shared harness infrastructure: environment, driver client, encoders, evidence/replay writers.

Runs under /venv/bin/python with PYTHONPATH=/repo/src:/repo (set up here), PYTHONHASHSEED fixed by
the `check` wrapper.  Every random choice is derived from VERIF_SEED through `rng(seed, tag)`.
"""
import fractions, hashlib, json, math, os, random, struct, subprocess, sys, time, types, fcntl

VERIF = os.path.dirname(os.path.dirname(os.path.abspath(__file__)))
REPO = os.environ.get('VERIF_REPO', '/repo')
LEAN_DIR = os.path.join(VERIF, 'lean')
DRIVER = os.path.join(LEAN_DIR, '.lake', 'build', 'bin', 'pgmdriver')
DRIVER_GEN = os.path.join(LEAN_DIR, '.lake', 'build', 'bin', 'pgmgen')
Fr = fractions.Fraction

ACCEPTED_AXIOMS = {'propext', 'Classical.choice', 'Quot.sound'}
FORBIDDEN = ['sorry', 'admit', 'native_decide', 'bv_decide', 'implemented_by', 'unsafe ',
             'maxHeartbeats 0', 'ofReduceBool']


class Infra(Exception):
    """infrastructure failure (exit 2), never a violation"""


def setup_repo_path():
    for p in (os.path.join(REPO, 'src'), REPO):
        if p not in sys.path:
            sys.path.insert(0, p)
    os.environ.setdefault('MPLBACKEND', 'Agg')
    if os.environ.get('PRIVATE_PGM_VERIF') is None:
        os.environ['PRIVATE_PGM_VERIF'] = '1'
    install_stubs()


def install_stubs():
    """third-party packages absent from the sandbox, stubbed by the harness (see DESIGN §2.2)"""
    if 'autodp' not in sys.modules:
        try:
            import autodp  # noqa
        except Exception:
            autodp = types.ModuleType('autodp')
            pc = types.ModuleType('autodp.privacy_calibrator')

            def ana_gaussian_mech(eps, delta, **kw):
                # classical (not analytic) calibration — only a placeholder scale; C20 treats
                # sigma_ana as a parameter
                return {'sigma': math.sqrt(2 * math.log(1.25 / delta)) / eps}
            pc.ana_gaussian_mech = ana_gaussian_mech
            autodp.privacy_calibrator = pc
            sys.modules['autodp'] = autodp
            sys.modules['autodp.privacy_calibrator'] = pc
    if 'hdmm' not in sys.modules:
        try:
            import hdmm  # noqa
        except Exception:
            import scipy.sparse as sp
            hdmm = types.ModuleType('hdmm')
            mat = types.ModuleType('hdmm.matrix')
            mat.Identity = lambda n: sp.eye(n)
            hdmm.matrix = mat
            sys.modules['hdmm'] = hdmm
            sys.modules['hdmm.matrix'] = mat


def rng(seed, tag):
    h = hashlib.sha256(f'{seed}:{tag}'.encode()).digest()
    return random.Random(int.from_bytes(h[:8], 'big'))


# ---------------------------------------------------------------------------------------------
# scalar encoders

def enc_q(x):
    """exact stream: Fraction / int / float-with-integer-or-dyadic value / ±inf / nan -> str"""
    if isinstance(x, str):
        return x
    if isinstance(x, (int, Fr)) and not isinstance(x, bool):
        x = Fr(x)
        return str(x.numerator) if x.denominator == 1 else f'{x.numerator}/{x.denominator}'
    x = float(x)
    if math.isnan(x):
        return 'nan'
    if math.isinf(x):
        return 'inf' if x > 0 else '-inf'
    return enc_q(Fr(x))


def dec_q(s):
    if s == 'inf':
        return math.inf
    if s == '-inf':
        return -math.inf
    if s == 'nan':
        return math.nan
    return Fr(s)


def enc_f(x):
    return struct.unpack('<Q', struct.pack('<d', float(x)))[0]


def dec_f(n):
    return struct.unpack('<d', struct.pack('<Q', int(n)))[0]


def same_q(model, impl):
    """exact comparison of a model value (Fraction/±inf/nan) with an implementation float"""
    impl = float(impl)
    if isinstance(model, float):
        if math.isnan(model):
            return math.isnan(impl)
        return model == impl
    if math.isnan(impl) or math.isinf(impl):
        return False
    # exact, or the correctly rounded double of the exact value (IEEE division of exact operands)
    return Fr(impl) == model or float(model) == impl


def close(a, b, rel=1e-9, abs_=1e-12):
    a, b = float(a), float(b)
    if math.isnan(a) or math.isnan(b):
        return math.isnan(a) and math.isnan(b)
    if math.isinf(a) or math.isinf(b):
        return a == b
    return abs(a - b) <= abs_ + rel * max(abs(a), abs(b))


# ---------------------------------------------------------------------------------------------
# driver client

class Driver:
    def __init__(self, exe=None):
        self.exe = exe or DRIVER
        if not os.path.exists(self.exe):
            raise Infra('driver not built: ' + self.exe)

    def run(self, requests, timeout=600):
        """requests: list of dicts (each gets an id).  Returns list of responses in order."""
        if not requests:
            return []
        lines = []
        for i, r in enumerate(requests):
            r = dict(r)
            r['id'] = i
            lines.append(json.dumps(r))
        p = subprocess.run([self.exe], input=('\n'.join(lines) + '\n').encode(),
                           stdout=subprocess.PIPE, stderr=subprocess.PIPE, timeout=timeout)
        if p.returncode != 0:
            raise Infra('driver crashed: ' + p.stderr.decode()[-2000:])
        out = [json.loads(l) for l in p.stdout.decode().splitlines() if l.strip()]
        if len(out) != len(requests):
            raise Infra(f'driver answered {len(out)} of {len(requests)} requests: '
                        + p.stderr.decode()[-2000:])
        for i, o in enumerate(out):
            if o.get('id') != i:
                raise Infra('driver response order mismatch')
        return out

    def one(self, request):
        return self.run([request])[0]


# ---------------------------------------------------------------------------------------------
# results

class Result:
    """collects what a check run covered and what it found"""

    def __init__(self, pid, tier, seed):
        self.pid, self.tier, self.seed = pid, tier, seed
        self.t0 = time.time()
        self.evaluations = 0
        self.nontrivial = set()
        self.samples = []
        self.counters = {}
        self.violations = []      # (kind, description, replay dict)
        self.known = []
        self.rule = ''
        self.notes = []
        self.extra = {}

    def count(self, key, n=1):
        self.counters[key] = self.counters.get(key, 0) + n

    def case(self, canon, nontrivial=True, sample=None):
        self.evaluations += 1
        if nontrivial:
            self.nontrivial.add(hashlib.sha1(json.dumps(canon, sort_keys=True, default=str).encode()).hexdigest())
        if sample is not None and len(self.samples) < 4:
            self.samples.append(sample)

    def violation(self, kind, what, replay, key=None):
        """kind: failing-input | correspondence | obligation ; key: matching key for known findings"""
        self.violations.append({'kind': kind, 'what': what, 'replay': replay, 'key': key})


def load_known():
    p = os.path.join(VERIF, 'known_findings.json')
    if not os.path.exists(p):
        return {'known': [], 'fixed': []}
    return json.load(open(p))


def write_replay(pid, v, seed):
    os.makedirs(os.path.join(VERIF, 'replays'), exist_ok=True)
    body = {'property': pid, 'kind': v['kind'], 'what': v['what'], 'seed': seed}
    body.update(v['replay'] or {})
    body['how_to_run'] = f'./check {pid} --replay <this file>'
    h = hashlib.sha1(json.dumps(body, sort_keys=True, default=str).encode()).hexdigest()[:12]
    path = os.path.join(VERIF, 'replays', f'{pid}-{h}.json')
    with open(path, 'w') as f:
        json.dump(body, f, indent=1, default=str)
    return path


def jsonable(x):
    try:
        import numpy as np
        if isinstance(x, np.ndarray):
            return x.tolist()
        if isinstance(x, (np.integer,)):
            return int(x)
        if isinstance(x, (np.floating,)):
            return float(x)
    except Exception:
        pass
    if isinstance(x, Fr):
        return enc_q(x)
    if isinstance(x, (set, frozenset, tuple)):
        return [jsonable(v) for v in x]
    if isinstance(x, dict):
        return {str(k): jsonable(v) for k, v in x.items()}
    if isinstance(x, list):
        return [jsonable(v) for v in x]
    return x


class LeanLock:
    def __enter__(self):
        self.f = open(os.path.join(LEAN_DIR, '.build.lock'), 'w')
        fcntl.flock(self.f, fcntl.LOCK_EX)
        return self

    def __exit__(self, *a):
        fcntl.flock(self.f, fcntl.LOCK_UN)
        self.f.close()
