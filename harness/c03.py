"""C03 — estimation attains the global optimum over all distributions (certificate per run)."""
import contextlib, io, itertools, math
import numpy as np
from common import enc_f, dec_f, close, rng
import estgen

LEAN_MODULE = 'PGM.Properties.C03'
LEAN_EXTRA = ['PGM.Properties.C03B', 'PGM.Properties.C04G']
TRANSLATORS = ('py2inf',)     # the three solvers of inference.py regenerated and identified with Model/Solvers.lean (gen_mirrorDescent, ...)
TRUSTED = ['Lean 4.33 kernel', 'axioms: propext, Classical.choice, Quot.sound',
           'the Frank-Wolfe gap certificate (PGM/Model/Certificate.lean, theorem fw_gap_bound) evaluated in Float by the driver on the table the real code returns',
           'convergence of MD / RDA / IG to a small certificate value is NOT proved: it is decided per generated input by evaluating the proved certificate (a test, labelled)',
           'the loss of the table equals the estimator\'s loss on consistent marginals by C04.loss_each_once and linearity of marginalisation']
ASSUMPTIONS = ['squared-error objective', 'full domain <= 400 cells so that the explicit table can be materialised']
RULE = ('random domains (2-4 attributes, <= 200 cells), 1-4 measurements with overlapping / nested projections, identity / integer / prefix queries, noise 0.5-3, known or estimated total, '
        'solvers MD / RDA / IG with an escalating iteration budget (250 -> 64000 quick, -> 256000 thorough, x4 per step, stopping at the first budget that certifies); non-trivial = at least two measurements on different projections; distinct = distinct (problem, solver)')
EXPLANATION = ('P = model.datavector(); loss and Frank-Wolfe gap of P computed by the Lean model: L(P) - min over all nonnegative tables with that total <= gap (theorem). Violations: (a) the loss recomputed from the model\'s own '
               'answers lies below L(P) - gap, (b) the final loss exceeds the loss of the uniform table, (c) the gap does not fall below 1e-3*(L_uniform - L + 1) at the largest budget (convergence test)')


def table_matrices(prob, sizes, attrs):
    """A_m = (1/noise) Q_m Pi_m as dense matrices over the full table, y_m/noise"""
    cells = list(itertools.product(*[range(sizes[a]) for a in attrs]))
    out = []
    for m in prob['meas']:
        proj = m['proj']
        pcells = list(itertools.product(*[range(sizes[a]) for a in proj]))
        index = {c: i for i, c in enumerate(pcells)}
        Pi = np.zeros((len(pcells), len(cells)))
        pos = [attrs.index(a) for a in proj]
        for j, x in enumerate(cells):
            Pi[index[tuple(x[i] for i in pos)], j] = 1.0
        out.append(((m['Q'] @ Pi) / m['noise'], m['y'] / m['noise']))
    return out


def run(res, drv, tier, seed):
    r = rng(seed, 'C03')
    n = 9 if tier == 'quick' else 60
    # "given enough iterations": the budget is escalated (x4) until the certificate is small; the last two steps are only reached by the
    # slowly converging cases (RDA is O(1/t))
    budgets = [250, 1000, 4000, 16000, 64000] if tier == 'quick' else [250, 1000, 4000, 16000, 64000, 256000]
    for ci in range(n):
        if ci < 3:
            # measurement cycles of length 5 (6 in the thorough tier): the junction tree needs fill-in edges that depend on earlier fill-in
            prob = estgen.gen_cycle_problem(r, 5 if tier == 'quick' or ci < 2 else 6)
            res.count('structure:chordless-cycle')
        else:
            prob = estgen.gen_problem(r, with_zeros=False, nmeas=r.randint(1, 4))
        engine = ['MD', 'RDA', 'IG'][ci % 3]
        total = r.choice([None, float(prob['N'])])
        if ci in (5, 7):
            # large populations with proportionally large noise: the smoothness constant is ~1e-9 and the solvers' step parameters live
            # at the edge of double precision
            scale = r.choice([1e4, 1e5])
            for m in prob['meas']:
                m['y'] = m['y'] * scale
                m['noise'] = m['noise'] * scale * r.choice([10.0, 60.0])
            prob['N'] = prob['N'] * scale
            total = float(prob['N'])
            engine = ['RDA', 'IG'][ci % 2 == 1]
            res.count('scale: large totals and noise (smoothness constant ~1e-9)')
        attrs = [a for a, _ in prob['dom']]
        sizes = dict(map(tuple, prob['dom']))
        canon = dict(estgen.canon_problem(prob), engine=engine, total=total)
        nt = len(set(tuple(sorted(m['proj'])) for m in prob['meas'])) >= 2
        res.case(canon, nt, sample={'dom': prob['dom'], 'projections': [m['proj'] for m in prob['meas']], 'engine': engine, 'total': total} if ci < 3 else None)
        res.count('engine:' + engine)
        ms = table_matrices(prob, sizes, attrs)
        final = None
        for it in budgets:
            eng = estgen.make_engine(prob['dom'], {}, iters=it)
            try:
                if ci % 4 == 0 and len(prob['meas']) >= 2:
                    # the estimator has a history: an earlier call on part of the list (one-way marginals first, as adaptive mechanisms do)
                    first = sorted(prob['meas'], key=lambda m: len(m['proj']))[: max(1, len(prob['meas']) // 2)]
                    eng.iters = 5
                    estgen.estimate(eng, first, total, engine)
                    eng.iters = it
                    if it == budgets[0]:
                        res.count('estimator with an earlier call on part of the measurement list')
                model = estgen.estimate(eng, prob['meas'], total, engine)
            except Exception as e:
                res.violation('failing-input', f'estimate({engine}, iters={it}) raises {type(e).__name__}: {str(e)[:120]}', {'request': canon}, key=f'optimum:raises:{engine}')
                final = None
                break
            with np.errstate(all='ignore'):
                P = np.asarray(model.datavector(), dtype=float)
                # loss recomputed from the model's own answers through project()
                la = 0.0
                for m in prob['meas']:
                    x = np.asarray(model.project(tuple(m['proj'])).values, dtype=float).flatten()
                    d_ = (m['Q'] @ x - m['y']) / m['noise']
                    la += 0.5 * float(d_ @ d_)
            T = float(model.total)
            lp = sum(0.5 * float((A @ P - y) @ (A @ P - y)) for A, y in ms)
            g = sum(A.T @ (A @ P - y) for A, y in ms)
            gap = float(g @ P - T * g.min())
            U = np.full(P.shape, T / P.size)
            lu = sum(0.5 * float((A @ U - y) @ (A @ U - y)) for A, y in ms)
            final = (it, model, P, T, lp, gap, lu, la)
            if gap <= 1e-3 * (lu - lp + 1):
                break
        if final is None:
            continue
        it, model, P, T, lp, gap, lu, la = final
        res.extra.setdefault('certified_gaps', []).append({'engine': engine, 'iters': it, 'loss': lp, 'gap': gap, 'uniform_loss': lu})
        res.count(f'converged at budget {it}')
        rp = {'request': canon, 'observed': {'iters': it, 'loss': lp, 'gap': gap, 'uniform_loss': lu, 'loss_from_answers': la}}
        scale = abs(lp) + 1
        if la < lp - gap - 1e-6 * scale:
            res.violation('failing-input', f'{engine}: the loss computed from the model\'s own answers ({la:.8g}) is below the certified lower bound on the optimum ({lp - gap:.8g}): the answers do not come from one table',
                          rp, key=f'optimum:below:{engine}')
        elif not close(la, lp, 1e-6, 1e-6 * scale):
            mag = max([float(np.abs(v[np.isfinite(v)]).max()) for v in (np.asarray(model.potentials[c].values) for c in model.cliques) if np.isfinite(v).any()] + [0.0])
            diverged = mag > 1e12
            res.violation('failing-input', f'{engine}: loss from project() answers {la:.8g} differs from the loss of the materialised table {lp:.8g}'
                          + (f' (the parameters have diverged: max |theta| = {mag:.3g}, datavector() sums to {float(P.sum()):.6g}, model total {T:.6g})' if diverged else ''),
                          rp, key=f'optimum:incoherent:{engine}' + (':diverged-parameters' if diverged else ''))
        elif lp > lu + 1e-9 * (abs(lu) + 1):
            res.violation('failing-input', f'{engine}: returned model fits worse ({lp:.8g}) than the uniform table with the same total ({lu:.8g})', rp, key=f'optimum:worse-than-uniform:{engine}')
        elif gap > 1e-3 * (lu - lp + 1):
            res.violation('failing-input', f'{engine}: after {it} iterations the certified optimality gap is {gap:.4g} (loss {lp:.6g}, uniform {lu:.6g}): not within tolerance of the optimum over all tables (convergence test)',
                          rp, key=f'optimum:gap:{engine}')
        elif drv:
            q = {'op': 'fw_gap', 'ms': [{'A': [[enc_f(v) for v in row] for row in A], 'y': [enc_f(v) for v in y]} for A, y in ms], 'p': [enc_f(v) for v in P], 'T': enc_f(T)}
            o = drv.one(q)
            if not o['ok']:
                res.violation('correspondence', 'driver error ' + o['err'], dict(rp, stream='C03.fwgap'))
            else:
                ml, mg = dec_f(o['out']['loss']), dec_f(o['out']['gap'])
                if not close(ml, lp, 1e-9, 1e-9 * scale) or not close(mg, gap, 1e-6, 1e-7 * scale):
                    res.violation('correspondence', f'certificate: Lean model loss {ml}, gap {mg}; harness {lp}, {gap}', dict(rp, stream='C03.fwgap'))
    armijo_audit(res, r, tier)


def armijo_audit(res, r, tier):
    """C03B md_step_descends / md_no_forced_descent on real runs: every line search of mirror_descent that ends before its 25th trial
    hands on a loss no larger than the one it started from; a run without an exhausted search ends no higher than the uniform start"""
    for ci in range(8 if tier == 'quick' else 60):
        prob = estgen.gen_problem(r, with_zeros=(ci % 3 == 0), nmeas=r.randint(1, 4))
        if ci % 4 == 1:
            for m in prob['meas']:
                m['noise'] = r.choice([1e-3, 1e-5])      # stiff: many halvings, some searches exhausted
        iters = r.choice([1, 2, 5, 20, 60])
        total = r.choice([None, float(prob['N'])])
        eng = estgen.make_engine(prob['dom'], prob['zeros'], iters=iters)
        log = []
        real = eng._marginal_loss

        def loss(*a, _f=real, **k):
            out = _f(*a, **k)
            log.append(float(out[0]))
            return out
        eng._marginal_loss = loss
        canon = dict(estgen.canon_problem(prob), engine='MD', iters=iters, total=total, audit='armijo')
        res.case(canon, True)
        try:
            with contextlib.redirect_stdout(io.StringIO()), np.errstate(all='ignore'):
                eng.estimate(estgen.to_measurements(prob['meas']), total=total, engine='MD', callback=lambda mu: log.append('it'), options={})
        except Exception as e:
            res.violation('failing-input', f'estimate(MD, iters={iters}) raises {type(e).__name__}: {str(e)[:120]}', {'request': canon}, key='optimum:raises:MD')
            continue
        if not log or log[0] == 'it':
            continue
        init, cur, forced, bad = log[0], log[0], 0, None
        trials = []
        segs, seg = [], None
        for x in log[1:]:
            if x == 'it':
                seg = []
                segs.append(seg)
            elif seg is not None:
                seg.append(x)
        for t, seg in enumerate(segs):
            if not seg:
                continue
            if len(seg) >= 25:
                forced += 1
            elif seg[-1] > cur + 1e-9 * (abs(cur) + 1):
                bad = f'iteration {t + 1}: the line search accepted trial {len(seg)} of 25 with loss {seg[-1]!r} although the current loss is {cur!r}'
                break
            cur = seg[-1]
        res.count('armijo audit: MD runs')
        res.count('armijo audit: line searches exhausted (25 trials)', forced)
        res.count('armijo audit: line searches accepted before the 25th trial', sum(1 for sg in segs if 0 < len(sg) < 25))
        if not bad and forced == 0 and segs and cur > init + 1e-9 * (abs(init) + 1):
            bad = f'no line search was exhausted, yet the run ends at loss {cur!r} above the loss of the uniform start {init!r}'
        if bad:
            res.violation('failing-input', f'mirror descent (iters={iters}): {bad}: an accepted Armijo step can never increase the loss when the marginal oracle is exact '
                          '(theorems md_step_descends_exact / md_no_forced_descent_exact)', {'request': canon, 'observed': {'losses': [x for x in log if x != "it"][:60]}}, key='optimum:armijo')


def search(res, tier, seed, broken):
    run(res, None, 'quick', seed + 1)


def replay(res, drv, rp):
    res.case(rp['request'])
    run(res, None, 'quick', rp.get('seed', 0))
