"""C15 — datasets vectorise to their contingency table; projection commutes; domain laws."""
import itertools, math
import numpy as np
from common import Fr, enc_q, dec_q, same_q, rng

LEAN_MODULE = 'PGM.Properties.C15'
LEAN_EXTRA = ['PGM.Properties.C15G', 'PGM.Properties.C15D']
TRANSLATORS = ('py2dom', 'py2ds')      # domain.py -> DomainG.lean (C15G), dataset.py -> DatasetG.lean (C15D), each proved equal to the hand model
TRUSTED = ['Lean 4.33 kernel', 'axioms: propext, Classical.choice, Quot.sound',
           'numpy.histogramdd bin contract (edges 0..n, last bin right-closed) as modelled in PGM/Model/Dataset.lean, exercised per run',
           'pandas column selection by name (df.loc[:, cols])',
           'hand model tied to src/mbi/dataset.py, domain.py by this correspondence run']
ASSUMPTIONS = ['attribute names duplicate-free', 'integer-valued records']
RULE = ('random domains of 1-4 attributes (sizes 1-4; a fifth of the cases 3-4 attributes of sizes 5-9), stored as int64/32/16/8, uint8/16, float or category codes, 0-40 integer records incl. duplicates and boundary values n-1, n, n+1, -1; Domain operations are applied to fresh domains and to domains derived by chains of up to 3 project/marginalize/transpose/sort/merge/fromdict steps; '
        'optional dyadic weights; 0-2 successive projections in random order; extra unused columns; plus random Domain operations; '
        'non-trivial = at least 2 attributes and at least 2 records (datasets) or an argument list not in domain order (domains)')
EXPLANATION = ('datavector of the (projected) dataset computed by src/mbi/dataset.py vs the Lean model over exact rationals, '
               'plus an independent contingency-table count for in-domain records; Domain methods vs the Lean list model')


DTYPES = ['int64', 'int32', 'int16', 'int8', 'uint8', 'uint16', 'float64', 'float32', 'category-codes']


def gen_dataset(r):
    wide = r.random() < 0.2      # more cells than a narrow storage type can index, every attribute still fits it
    k = r.randint(3, 4) if wide else r.randint(1, 4)
    names = r.sample(['a', 'b', 'c', 'd', 'e'], k)
    dom = [[n, r.choice([5, 6, 7, 8, 9]) if wide else r.choice([1, 2, 2, 3, 4])] for n in names]
    extra = r.sample(['x', 'y'], r.randint(0, 2))
    cols = names + extra
    r.shuffle(cols)
    nrows = r.choice([0, 1, 2, 5, 12, 40])
    boundary = r.random() < 0.3
    sizes = dict(map(tuple, dom))
    rows = []
    for _ in range(nrows):
        if rows and r.random() < 0.2:
            rows.append(list(r.choice(rows)))
            continue
        row = []
        for c in cols:
            n = sizes.get(c, 5)
            v = r.randrange(n)
            if boundary and r.random() < 0.25:
                v = r.choice([n, n + 1, -1, n - 1])
            row.append(v)
        rows.append(row)
    weights = None
    if r.random() < 0.5:
        weights = [r.choice([0, 1, 2, 3, 0.5, 0.25, 1.5, 7]) for _ in rows]
    projs = []
    cur = names
    for _ in range(r.choice([0, 1, 1, 2])):
        if r.random() < 0.06:
            p = r.sample(names + extra, 1)
        else:
            p = r.sample(cur, r.randint(1, len(cur)))
        projs.append(p)
        cur = p
    lo = min([v for row in rows for v in row], default=0)
    dtype = r.choice(DTYPES) if (lo >= 0 and r.random() < 0.6) else r.choice(['int64', 'int32', 'int16', 'float64'])
    return {'op': 'dataset', 'cols': cols, 'rows': rows, 'dom': dom, 'weights': weights, 'projs': projs, 'dtype': dtype,
            'vectorise_first': r.random() < 0.5, 'other_order_first': r.random() < 0.5}


def impl_dataset(q):
    import pandas as pd
    from mbi import Domain, Dataset
    try:
        df = pd.DataFrame(np.array(q['rows'], dtype=int).reshape(len(q['rows']), len(q['cols'])), columns=q['cols'])
        dt = q.get('dtype', 'int64')
        if dt == 'category-codes':      # what Series.astype('category').cat.codes hands back: int8
            df = df.astype('int8')
        elif dt != 'int64':
            df = df.astype(dt)
        dom = Domain([a for a, _ in q['dom']], [s for _, s in q['dom']])
        w = None if q['weights'] is None else np.array(q['weights'], dtype=float)
        D = Dataset(df, dom, w)
        for p in q['projs']:
            if q.get('vectorise_first'):
                D.datavector()          # a history on one object: the parent is vectorised before it is projected
            if q.get('other_order_first') and len(p) >= 2:
                D.project(list(reversed(p))).datavector()      # ... or projected onto the same attributes in another order first
            D = D.project(p)
        vec = D.datavector()
        return ('ok', [list(x) for x in zip(D.domain.attrs, D.domain.shape)], int(D.records), [float(v) for v in vec])
    except (AssertionError, KeyError, ValueError, IndexError) as e:
        return ('raise', type(e).__name__)


def spec_dataset(q, out):
    """contingency-table specification for in-domain records (independent count)"""
    if out[0] != 'ok':
        return None
    sizes = dict(map(tuple, q['dom']))
    final = q['projs'][-1] if q['projs'] else [a for a, _ in q['dom']]
    if [a for a, _ in out[1]] != list(final):
        return f'attribute order {out[1]} != requested {final}'
    colidx = {c: i for i, c in enumerate(q['cols'])}
    in_dom = all(0 <= row[colidx[a]] < sizes[a] for row in q['rows'] for a in sizes)
    if not in_dom:
        return None
    table = {}
    for i, row in enumerate(q['rows']):
        key = tuple(row[colidx[a]] for a in final)
        w = Fr(1) if q['weights'] is None else Fr(q['weights'][i])
        table[key] = table.get(key, Fr(0)) + w
    cells = list(itertools.product(*[range(sizes[a]) for a in final]))
    if len(cells) != len(out[3]):
        return f'vector length {len(out[3])} != {len(cells)}'
    for c, v in zip(cells, out[3]):
        if Fr(v) != table.get(c, Fr(0)):
            return f'cell {c}: got {v}, contingency count {table.get(c, 0)}'
    if out[2] != len(q['rows']):
        return f'records {out[2]} != {len(q["rows"])}'
    return None


def cmp_dataset(resp, out):
    if not resp['ok']:
        if resp['err'] == 'raise':
            return None if out[0] == 'raise' else 'model rejects, implementation returns'
        return 'driver error ' + resp['err']
    if out[0] == 'raise':
        return f'implementation raises {out[1]}, model returns'
    o = resp['out']
    if o['dom'] != out[1]:
        return f'domain: model {o["dom"]} impl {out[1]}'
    if o['records'] != out[2]:
        return f'records: model {o["records"]} impl {out[2]}'
    if len(o['vec']) != len(out[3]):
        return 'vector length'
    for i, (m, v) in enumerate(zip(o['vec'], out[3])):
        if not same_q(dec_q(m), v):
            return f'cell {i}: model {m} impl {v}'
    return None


DOMFNS = ['project', 'marginalize', 'invert', 'canonical', 'axes', 'merge', 'contains', 'size', 'size_of', 'sort_size', 'sort_name']


def derive_spec(dom, pre):
    """list-of-pairs reference for a chain of derivations (the set / product laws of the property)"""
    for step in pre:
        sizes = dict(map(tuple, dom))
        names = [a for a, _ in dom]
        if step[0] in ('project', 'transpose'):
            dom = [[a, sizes[a]] for a in step[1]]
        elif step[0] == 'marginalize':
            dom = [[a, sizes[a]] for a in names if a not in step[1]]
        elif step[0] == 'sort_size':
            dom = sorted(dom, key=lambda p: p[1])
        elif step[0] == 'sort_name':
            dom = sorted(dom, key=lambda p: p[0])
        elif step[0] == 'merge':
            dom = dom + [list(p) for p in step[1] if p[0] not in names]
        elif step[0] == 'fromdict':
            dom = [list(p) for p in dom]
    return dom


def derive_impl(d, pre):
    from mbi import Domain
    for step in pre:
        if step[0] == 'project':
            d = d.project(step[1])
        elif step[0] == 'transpose':
            d = d.transpose(step[1])
        elif step[0] == 'marginalize':
            d = d.marginalize(step[1])
        elif step[0] == 'sort_size':
            d = d.sort('size')
        elif step[0] == 'sort_name':
            d = d.sort('name')
        elif step[0] == 'merge':
            d = d.merge(Domain([a for a, _ in step[1]], [s for _, s in step[1]]))
        elif step[0] == 'fromdict':
            d = Domain.fromdict(dict(zip(d.attrs, d.shape)))
    return d


def gen_pre(r, dom):
    """0-3 derivation steps; the final operation is then applied to the derived object"""
    pre = []
    for _ in range(r.choice([0, 0, 1, 1, 2, 3])):
        cur = derive_spec(dom, pre)
        names = [a for a, _ in cur]
        kind = r.choice(['project', 'project', 'marginalize', 'transpose', 'sort_size', 'sort_name', 'merge', 'fromdict'])
        if kind == 'project':
            if not names:
                continue
            pre.append(['project', r.sample(names, r.randint(1, len(names)))])
        elif kind == 'transpose':
            pre.append(['transpose', r.sample(names, len(names))])
        elif kind == 'marginalize':
            pre.append(['marginalize', r.sample(names + ['y'], r.randint(0, max(0, len(names) - 1)))])
        elif kind == 'merge':
            sizes = dict(map(tuple, cur))
            n2 = r.sample(['a', 'b', 'c', 'd', 'e', 'f', 'g', 'h'], r.randint(0, 3))
            pre.append(['merge', [[n, sizes.get(n, r.choice([1, 2, 3, 6]))] for n in n2]])
        else:
            pre.append([kind])
    return pre


def gen_domain(r):
    k = r.randint(1, 5)
    names = r.sample(['a', 'b', 'c', 'd', 'e', 'f'], k)
    dom0 = [[n, r.choice([1, 2, 3, 4, 5])] for n in names]
    if r.random() < 0.08:
        # attribute sizes whose product leaves the range of a machine integer (2**63): a Domain only does arithmetic on sizes
        dom0 = [[n, r.choice([2 ** 16, 10 ** 5, 2 ** 20, 3 ** 13, 2 ** 31 - 1, 10])] for n in names]
    pre = gen_pre(r, dom0)
    dom = derive_spec(dom0, pre)         # the reference value of the derived domain: what the model is given
    names = [a for a, _ in dom]
    fn = r.choice(DOMFNS)
    q = {'op': 'domain', 'fn': fn, 'dom': dom, 'dom0': dom0, 'pre': pre}
    pool = names + (['z'] if r.random() < 0.1 else [])
    if fn in ('project', 'axes', 'size_of'):
        q['attrs'] = r.sample(pool, r.randint(0, len(pool)))
    elif fn in ('marginalize', 'invert', 'canonical'):
        pool = names + ['y', 'z']
        q['attrs'] = r.sample(pool, r.randint(0, len(pool)))
        if q['attrs'] and r.random() < 0.3:
            # an argument that names an attribute more than once (e.g. the concatenation Ci + Cj of two overlapping cliques)
            q['attrs'] = q['attrs'] + r.sample(q['attrs'], r.randint(1, len(q['attrs'])))
            r.shuffle(q['attrs'])
    elif fn in ('merge', 'contains'):
        k2 = r.randint(0, 4)
        n2 = r.sample(['a', 'b', 'c', 'd', 'e', 'f', 'g'], k2)
        sizes = dict(map(tuple, dom))
        q['dom2'] = [[n, sizes.get(n, r.choice([1, 2, 3]))] for n in n2]
    return q


def impl_domain(q):
    from mbi import Domain
    enc = lambda D: [list(x) for x in zip(D.attrs, D.shape)]
    fn = q['fn']
    try:
        if q.get('pre'):
            d = derive_impl(Domain([a for a, _ in q['dom0']], [s for _, s in q['dom0']]), q['pre'])
            if enc(d) != q['dom']:
                return ('derived', enc(d))
        else:
            d = Domain([a for a, _ in q['dom']], [s for _, s in q['dom']])
        if fn == 'project':
            return ('dom', enc(d.project(q['attrs'])))
        if fn == 'marginalize':
            return ('dom', enc(d.marginalize(q['attrs'])))
        if fn == 'invert':
            return ('attrs', list(d.invert(q['attrs'])))
        if fn == 'canonical':
            return ('attrs', list(d.canonical(q['attrs'])))
        if fn == 'axes':
            return ('axes', list(d.axes(q['attrs'])))
        if fn == 'merge':
            o = Domain([a for a, _ in q['dom2']], [s for _, s in q['dom2']])
            return ('dom', enc(d.merge(o)))
        if fn == 'contains':
            o = Domain([a for a, _ in q['dom2']], [s for _, s in q['dom2']])
            return ('val', bool(d.contains(o)))
        if fn == 'size':
            return ('val', int(d.size()))
        if fn == 'size_of':
            return ('val', int(d.size(q['attrs'])))
        if fn == 'sort_size':
            return ('dom', enc(d.sort('size')))
        if fn == 'sort_name':
            return ('dom', enc(d.sort('name')))
    except (AssertionError, KeyError, ValueError, IndexError) as e:
        return ('raise', type(e).__name__)


def spec_domain(q, out):
    """set / product laws stated in the property, checked on the implementation's result"""
    if out[0] == 'raise':
        return None
    if out[0] == 'derived':
        return f'derivation chain {q["pre"]} of {q["dom0"]} gives {out[1]}, the set/product laws give {q["dom"]}'
    sizes = dict(map(tuple, q['dom']))
    names = [a for a, _ in q['dom']]
    fn = q['fn']
    if fn == 'sort_name':
        want = sorted(q['dom'], key=lambda p: p[0])
        return None if out[1] == want else f'sort(name) -> {out[1]}, want {want}'
    if fn == 'project':
        want = [[a, sizes[a]] for a in q['attrs']]
        return None if out[1] == want else f'project -> {out[1]}, want {want}'
    if fn == 'marginalize':
        want = [[a, sizes[a]] for a in names if a not in q['attrs']]
        return None if out[1] == want else f'marginalize -> {out[1]}, want {want}'
    if fn == 'invert':
        want = [a for a in names if a not in q['attrs']]
        return None if out[1] == want else f'invert -> {out[1]}'
    if fn == 'canonical':
        want = [a for a in names if a in q['attrs']]
        return None if out[1] == want else f'canonical -> {out[1]}'
    if fn == 'axes':
        want = [names.index(a) for a in q['attrs']]
        return None if out[1] == want else f'axes -> {out[1]}'
    if fn == 'merge':
        s2 = dict(map(tuple, q['dom2']))
        want = q['dom'] + [[a, s2[a]] for a, _ in q['dom2'] if a not in names]
        return None if out[1] == want else f'merge -> {out[1]}, want {want}'
    if fn == 'contains':
        want = set(a for a, _ in q['dom2']) <= set(names)
        return None if out[1] == want else f'contains -> {out[1]}'
    if fn == 'size':
        want = math.prod(sizes.values())
        return None if out[1] == want else f'size -> {out[1]}'
    if fn == 'size_of':
        want = math.prod(sizes[a] for a in q['attrs'])
        return None if out[1] == want else f'size(attrs) -> {out[1]}'
    if fn == 'sort_size':
        got = out[1]
        if sorted(map(tuple, got)) != sorted(map(tuple, q['dom'])):
            return 'sort is not a permutation'
        if any(got[i][1] > got[i + 1][1] for i in range(len(got) - 1)):
            return 'sort not ordered by size'
        return None
    return None


def cmp_domain(resp, out):
    if not resp['ok']:
        if resp['err'] == 'raise':
            return None if out[0] == 'raise' else 'model rejects, implementation returns'
        return 'driver error ' + resp['err']
    if out[0] == 'raise':
        return f'implementation raises {out[1]}, model returns'
    key = out[0]
    return None if resp['out'].get(key) == out[1] else f'model {resp["out"]} impl {out}'


def run(res, drv, tier, seed):
    r = rng(seed, 'C15')
    n = 400 if tier == 'quick' else 6000
    qs = [gen_dataset(r) if i % 2 == 0 else gen_domain(r) for i in range(n)]
    outs = [impl_dataset(q) if q['op'] == 'dataset' else impl_domain(q) for q in qs]
    reqs = []
    for q in qs:
        q2 = dict(q)
        if q['op'] == 'dataset' and q['weights'] is not None:
            q2['weights'] = [enc_q(w) for w in q['weights']]
        reqs.append(q2)
    resps = drv.run(reqs) if drv else [None] * n
    for q, out, resp in zip(qs, outs, resps):
        if q['op'] == 'dataset':
            nt = len(q['dom']) >= 2 and len(q['rows']) >= 2
            res.case(q, nt, sample=q if len(q['rows']) == 5 else None)
            res.count('dataset:' + out[0])
            res.count('storage dtype ' + q.get('dtype', 'int64'))
            if len(out) > 3 and len(out[3]) > 256:
                res.count('more than 256 cells')
            if q['weights'] is not None:
                res.count('weighted')
            sizes = dict(map(tuple, q['dom']))
            ci = {c: i for i, c in enumerate(q['cols'])}
            if any(not (0 <= row[ci[a]] < sizes[a]) for row in q['rows'] for a in sizes):
                res.count('out-of-domain records present')
            sp = spec_dataset(q, out)
            d = cmp_dataset(resp, out) if resp else None
            stream = 'C15.dataset'
        else:
            nt = 'attrs' in q and q['attrs'] != [a for a, _ in q['dom'] if a in q['attrs']] or q['fn'] in ('merge', 'sort_size', 'sort_name') or q.get('pre')
            if q.get('pre'):
                res.count('domain operation on a derived domain (chain of %d)' % len(q['pre']))
            res.case(q, bool(nt), sample=q if q['fn'] == 'merge' else None)
            res.count('domain:' + q['fn'])
            sp = spec_domain(q, out)
            d = cmp_domain(resp, out) if resp else None
            stream = 'C15.domain'
        if sp is not None:
            res.violation('failing-input', f'{q["op"]}: {sp}', {'request': q, 'observed': out, 'expected': sp},
                          key=f'{q["op"]}:{q.get("fn", "datavector")}:spec')
        elif d is not None:
            res.violation('correspondence', f'{q["op"]} {q.get("fn", "")}: {d}; the stated law holds on this input',
                          {'request': q, 'observed': out, 'model': resp, 'stream': stream})


def search(res, tier, seed, broken):
    r = rng(seed + 104729, 'C15-search')
    for i in range(4000):
        q = gen_dataset(r) if i % 2 == 0 else gen_domain(r)
        out = impl_dataset(q) if q['op'] == 'dataset' else impl_domain(q)
        sp = spec_dataset(q, out) if q['op'] == 'dataset' else spec_domain(q, out)
        if sp is not None:
            res.violation('failing-input', f'{q["op"]}: {sp}', {'request': q, 'observed': out, 'expected': sp},
                          key=f'{q["op"]}:{q.get("fn", "datavector")}:spec')
            return


def replay(res, drv, rp):
    q = rp['request']
    out = impl_dataset(q) if q['op'] == 'dataset' else impl_domain(q)
    sp = spec_dataset(q, out) if q['op'] == 'dataset' else spec_domain(q, out)
    res.case(q)
    if sp is not None:
        res.violation('failing-input', f'{q["op"]}: {sp}', {'request': q, 'observed': out, 'expected': sp},
                      key=f'{q["op"]}:{q.get("fn", "datavector")}:spec')
    elif drv:
        q2 = dict(q)
        if q['op'] == 'dataset' and q['weights'] is not None:
            q2['weights'] = [enc_q(w) for w in q['weights']]
        resp = drv.one(q2)
        d = cmp_dataset(resp, out) if q['op'] == 'dataset' else cmp_domain(resp, out)
        if d:
            res.violation('correspondence', d, {'request': q, 'observed': out, 'model': resp, 'stream': 'C15'})
