"""Instrumented execution of the shipped mechanisms (used by C05 and C06).

Every source of randomness is intercepted from outside (no source hooks):
  * noisy releases  `stat + np.random.normal/laplace(scale=…, size=…)`  — the sampler returns a
    `Noise` array whose addition is observed through `__array_ufunc__`, so the *operand* (the
    released statistic), the scale and the size are recorded, and in replay mode the released
    value is forced to the recorded one whatever the operand is;
  * private selections `choice(n, p=probs)` (no size) — the probability vector is recorded and the
    outcome is forced in replay mode;
  * everything else (`choice` with a size, `shuffle`, `rand`, `permutation`: post-processing) is served
    from a dedicated seeded generator, identical across a record/replay pair.
Inference inside the mechanisms is post-processing; its iteration counts are capped.
"""
import contextlib, io, math
import numpy as np
import mechs


class Noise(np.ndarray):
    """array returned by the patched samplers; addition to a statistic is the release event"""
    __array_priority__ = 1000

    def __new__(cls, values, rec, info):
        obj = np.asarray(values, dtype=float).view(cls)
        obj._rec, obj._info = rec, info
        return obj

    def __array_finalize__(self, obj):
        self._rec = getattr(obj, '_rec', None)
        self._info = getattr(obj, '_info', None)

    def __array_ufunc__(self, ufunc, method, *inputs, **kwargs):
        plain = [np.asarray(x).view(np.ndarray) if isinstance(x, Noise) else x for x in inputs]
        if ufunc is np.add and method == '__call__' and len(inputs) == 2 and sum(isinstance(x, Noise) for x in inputs) == 1 \
                and self._info is not None and not self._info.get('used'):
            other = plain[1] if isinstance(inputs[0], Noise) else plain[0]
            stat = np.array(other, dtype=float)
            self._info['used'] = True
            return self._rec.release(self._info, stat, np.asarray(self).view(np.ndarray))
        return getattr(ufunc, method)(*plain, **kwargs)


class Recorder:
    def __init__(self, seed, forced=None, iters_cap=40):
        self.gen = np.random.RandomState(seed)          # privacy-relevant outcomes (record mode)
        self.post = np.random.RandomState(seed + 7)     # post-processing randomness
        self.events = []
        self.forced = forced                            # list of forced outcomes (replay mode) or None
        self.k = 0
        self.iters_cap = iters_cap
        self.unpaired = 0

    # -- events ------------------------------------------------------------------------------
    def sampler(self, dist):
        def f(loc=0.0, scale=1.0, size=None):
            n = size if size is not None else 1
            vals = (self.gen.normal(0.0, 1.0, n) if dist == 'normal' else self.gen.laplace(0.0, 1.0, n)) * float(scale) + loc
            info = {'dist': dist, 'scale': float(scale), 'size': int(np.prod(n)), 'used': False}
            self.unpaired += 1
            return Noise(vals, self, info)
        return f

    def release(self, info, stat, noise):
        self.unpaired -= 1
        ev = {'kind': 'release', 'dist': info['dist'], 'scale': info['scale'], 'size': info['size'], 'stat': stat.flatten()}
        if self.forced is not None:
            f = self.forced[self.k] if self.k < len(self.forced) else None
            if f is None or f['kind'] != 'release' or len(f['value']) != stat.size:
                ev['mismatch'] = True
                out = stat + noise
            else:
                out = np.array(f['value'], dtype=float).reshape(stat.shape)
        else:
            out = stat + noise
        ev['value'] = np.array(out, dtype=float).flatten()
        self.events.append(ev)
        self.k += 1
        return out

    def choice(self, a, size=None, replace=True, p=None):
        if size is None and p is not None:
            p = np.asarray(p, dtype=float)
            n = a if isinstance(a, (int, np.integer)) else len(a)
            ev = {'kind': 'select', 'p': p.copy(), 'n': int(n)}
            if self.forced is not None:
                f = self.forced[self.k] if self.k < len(self.forced) else None
                if f is None or f['kind'] != 'select' or f['n'] != n:
                    ev['mismatch'] = True
                    idx = int(self.gen.choice(n, p=p / p.sum()))
                else:
                    idx = f['idx']
            else:
                idx = int(self.gen.choice(n, p=p / p.sum()))
            ev['idx'] = idx
            self.events.append(ev)
            self.k += 1
            return idx if isinstance(a, (int, np.integer)) else a[idx]
        return self.post.choice(a, size, replace, p)

    def outcomes(self):
        out = []
        for e in self.events:
            if e['kind'] == 'release':
                out.append({'kind': 'release', 'value': e['value'].tolist()})
            else:
                out.append({'kind': 'select', 'idx': e['idx'], 'n': e['n']})
        return out


@contextlib.contextmanager
def patched(rec):
    import mbi
    saved = {n: getattr(np.random, n) for n in ('normal', 'laplace', 'choice', 'shuffle', 'rand', 'permutation', 'randint')}
    np.random.normal = rec.sampler('normal')
    np.random.laplace = rec.sampler('laplace')
    np.random.choice = rec.choice
    np.random.shuffle = rec.post.shuffle
    np.random.rand = rec.post.rand
    np.random.permutation = rec.post.permutation
    np.random.randint = rec.post.randint
    FI = mbi.FactoredInference
    orig_init = FI.__init__
    orig_est = FI.estimate

    def init(self, *a, **kw):
        orig_init(self, *a, **kw)
        self.iters = min(self.iters, rec.iters_cap)

    def est(self, measurements, total=None, engine='MD', callback=None, options={}):
        self.iters = min(self.iters, rec.iters_cap)
        return orig_est(self, measurements, total, engine, callback, dict(options))
    FI.__init__ = init
    FI.estimate = est
    try:
        with contextlib.redirect_stdout(io.StringIO()), np.errstate(all='ignore'):
            yield
    finally:
        for n, f in saved.items():
            setattr(np.random, n, f)
        FI.__init__ = orig_init
        FI.estimate = orig_est


def make_dataset(dom, rows):
    import pandas as pd
    from mbi import Domain, Dataset
    d = Domain([a for a, _ in dom], [s for _, s in dom])
    df = pd.DataFrame(np.array(rows, dtype=int).reshape(len(rows), len(dom)), columns=[a for a, _ in dom])
    return Dataset(df, d)


def run(name, dom, rows, params, seed, forced=None, iters_cap=40):
    """returns (events, result) ; result = dict(df rows, domain) or {'raise': …}"""
    rec = Recorder(seed, forced, iters_cap)
    data = make_dataset(dom, rows)
    out = None
    try:
        with patched(rec):
            if name == 'mst':
                m = mechs.load('mst')
                synth = m.MST(data, params['epsilon'], params['delta'])
            elif name == 'aim':
                m = mechs.load('aim')
                mech = m.AIM(params['epsilon'], params['delta'], prng=(np.random if params.get('prng') else None), rounds=params.get('rounds'),
                             max_model_size=params.get('max_model_size', 80))
                wts = params.get('weights') or [1.0] * len(params['workload'])
                W = [(tuple(cl), float(w)) for cl, w in zip(params['workload'], wts)]
                if params.get('first_workload'):
                    # an earlier run on the same object (its own budget, its own randomness, not audited): only the state it leaves counts
                    rec0 = Recorder(seed + 7919, None, iters_cap)
                    with patched(rec0):
                        mech.run(data, [(tuple(cl), 1.0) for cl in params['first_workload']])
                synth = mech.run(data, W)
            elif name == 'mwem':
                m = mechs.load('mwem')
                synth = m.mwem_pgm(data, params['epsilon'], params.get('delta', 0.0), workload=[tuple(c) for c in params['workload']],
                                   rounds=params.get('rounds'), pgm_iters=iters_cap, noise=params.get('noise', 'gaussian'),
                                   bounded=params.get('bounded', False), alpha=params.get('alpha', 0.9))
            elif name == 'adagrid':
                m = mechs.load('adagrid')
                synth = m.adagrid(data, params['epsilon'], params['delta'], params.get('threshold', 5.0), targets=list(params.get('targets', [])),
                                  split_strategy=params.get('split_strategy'), iters=iters_cap)
            else:
                raise ValueError(name)
            out = {'rows': synth.df.values.tolist(), 'cols': list(synth.df.columns),
                   'domain': [list(x) for x in zip(synth.domain.attrs, synth.domain.shape)]}
    except Exception as e:  # a mechanism that raises produces no output
        import traceback
        out = {'raise': type(e).__name__ + ': ' + str(e)[:200], 'tb': traceback.format_exc()[-600:]}
    return rec, out


def ref_cdp_delta(rho, eps):
    """the published bound (Canonne-Kamath-Steinke, Prop. 12), minimised over the Renyi order by golden-section search on a log grid -
    written here independently of mechanisms/cdp2adp.py, which is code under test"""
    if rho <= 0:
        return 0.0
    import math

    def f(a):
        return ((a - 1) * (a * rho - eps) + a * math.log1p(-1 / a)) - math.log(a - 1)
    lo, hi = math.log(1e-9), math.log(1e9)       # alpha - 1 on a log scale
    g = (math.sqrt(5) - 1) / 2
    c, d = hi - g * (hi - lo), lo + g * (hi - lo)
    for _ in range(200):
        if f(1 + math.exp(c)) < f(1 + math.exp(d)):
            hi = d
        else:
            lo = c
        c, d = hi - g * (hi - lo), lo + g * (hi - lo)
    return min(1.0, math.exp(f(1 + math.exp((lo + hi) / 2))))


def ref_cdp_rho(eps, delta):
    """largest rho whose implied delta at eps does not exceed the target (0 for delta = 0: no Gaussian release is (eps, 0)-DP)"""
    if delta <= 0:
        return 0.0
    if delta >= 1:
        return float('inf')
    lo, hi = 0.0, eps + 1.0
    for _ in range(200):
        mid = (lo + hi) / 2
        if ref_cdp_delta(mid, eps) <= delta:
            lo = mid
        else:
            hi = mid
    return lo


def budget(name, params):
    """(kind, amount): zCDP rho implied by (eps, delta), or pure eps for Laplace MWEM; computed by the reference conversion above"""
    if name == 'mwem' and params.get('noise') == 'laplace':
        return 'eps', params['epsilon']
    return 'rho', ref_cdp_rho(params['epsilon'], params['delta'])


def charges(ev_d, ev_n, laplace_pure=False):
    """per-event privacy cost by the property's charging rule, from the two event traces"""
    out = []
    for a, b in zip(ev_d, ev_n):
        if a['kind'] != b['kind']:
            out.append(None)
            continue
        if a['kind'] == 'release':
            if a['stat'].shape != b['stat'].shape:
                out.append(None)
                continue
            diff = a['stat'] - b['stat']
            if a['dist'] == 'normal':
                d2 = float(np.sqrt((diff ** 2).sum()))
                out.append(('rho', d2 * d2 / (2 * a['scale'] ** 2)))
            else:
                out.append(('eps', float(np.abs(diff).sum()) / a['scale']))
        else:
            if a['p'].shape != b['p'].shape:
                out.append(None)
                continue
            with np.errstate(all='ignore'):
                lr = np.abs(np.log(a['p']) - np.log(b['p']))
            lr = lr[np.isfinite(lr)]
            e = float(lr.max()) if lr.size else 0.0
            out.append(('eps', e) if laplace_pure else ('rho', e * e / 8))
    return out
