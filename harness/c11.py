"""C11 — synthetic records faithfully realise the model."""
import itertools, math
import numpy as np
from common import Fr, enc_q, close, rng
import gmgen

LEAN_MODULE = 'PGM.Properties.C11'
LEAN_EXTRA = ['PGM.Properties.C11B', 'PGM.Properties.C11G', 'PGM.Properties.C11E', 'PGM.Properties.C11F']
TRANSLATORS = ('py2gm', 'py2gmq')   # synthetic_data / synthetic_col of graphical_model.py -> Generated/GraphicalModelQG.lean (imports GraphicalModelG.lean)
TRUSTED = ['Lean 4.33 kernel', 'axioms: propext, Classical.choice, Quot.sound',
           'hand model PGM/Model/Synth.lean of the inner synthetic_col (rounding mode) tied to graphical_model.py:196-249 by applying the verified checker colOK to every (column, group) of the generated table',
           'the column loop (generation order, grouping by the already generated relevant attributes) is re-derived by the harness from model.elimination_order; pandas groupby / numpy repeat, shuffle, choice are trusted',
           'float rounding of counts*total/sum: groups whose exact target is within 1e-6 of an integer are checked with tolerance in Python instead of by the exact checker (counted)']
ASSUMPTIONS = ['sampling mode: only row count, domain conformance, zero support and a 6-sigma frequency test are checked (distribution of numpy.random.choice trusted)']
RULE = ('models as in C01 with zero-probability cells; totals from 1 to 1e5 (thorough 1e6) with rows default = int(total) or explicit; methods round and sample; '
        'non-trivial = model has a clique of >= 2 attributes and at least one zero cell; distinct = distinct (model, total, rows, method, numpy seed)')
EXPLANATION = ('generated tables are checked for exact row count, domain conformance, no record in a zero-probability cell of the explicit joint, per-(column, group) '
               'rounding by the verified colOK against exact conditional targets, and clique-count error bounded by a constant independent of the row count')


def table_counts(df, attrs):
    c = {}
    for row in df[attrs].values.tolist():
        k = tuple(int(v) for v in row)
        c[k] = c.get(k, 0) + 1
    return c


class SynthRecorder:
    """records, from outside, what the column loop of synthetic_data does: the grouping attributes of every conditional step
    (DataFrame.groupby) and the array every synthetic_col call returns (the array handed to np.random.shuffle, after the shuffle)"""

    def __enter__(self):
        import pandas as pd
        self.by, self.cols = [], []
        self._gb, self._sh = pd.DataFrame.groupby, np.random.shuffle
        rec = self

        def groupby(df, by=None, *a, **k):
            rec.by.append(list(by) if isinstance(by, (list, tuple)) else [by])
            return rec._gb(df, by, *a, **k)

        def shuffle(x):
            rec._sh(x)
            rec.cols.append([int(v) for v in x])
        pd.DataFrame.groupby = groupby
        np.random.shuffle = shuffle
        return self

    def __exit__(self, *a):
        import pandas as pd
        pd.DataFrame.groupby = self._gb
        np.random.shuffle = self._sh


def table_request(dom, joint, model, rec, nrows):
    """the request replaying the whole table in the Lean model (synthTable) from the recorded outcomes; None when the run cannot be
    aligned with the column loop (reported by the caller)"""
    attrs = [a for a, _ in dom]
    sizes = dict(map(tuple, dom))
    order = list(model.elimination_order)[::-1]
    cliques = [set(c) for c in model.cliques]
    specs, used, by = [], [], list(rec.by)
    for k, col in enumerate(order):
        want = set() if k == 0 else set(used) & set().union(*[c for c in cliques if col in c])
        if want:
            if not by:
                return None, f'step {k} (column {col}): the model conditions on {sorted(want)} but the implementation made no further groupby call'
            proj = by.pop(0)
            if set(proj) != want or len(set(proj)) != len(proj):
                return None, f'step {k} (column {col}): the implementation groups by {proj}, the column loop of the model conditions on {sorted(want)}'
        else:
            proj = []
        pm = gmgen.brute_marginal(dom, joint, proj + [col], Fr(1))
        keys = list(itertools.product(*[range(sizes[a]) for a in proj]))
        n = sizes[col]
        cond = [{'key': list(g), 'counts': [enc_q(x) for x in pm[i * n:(i + 1) * n]]} for i, g in enumerate(keys)]
        specs.append({'col': attrs.index(col), 'proj': [attrs.index(a) for a in proj], 'size': n, 'cond': cond})
        used.append(col)
    if by:
        return None, f'the implementation made {len(by)} more groupby call(s) than the column loop has conditional steps'
    # the recorded synthetic_col results, step by step: one per group; the number of groups of a step is known only from the replay, so the
    # flat list is cut greedily by the model: here by replaying the grouping on the implementation's own final table
    return {'specs': specs, 'order': order}, None


def cut_outcomes(df, attrs, spec_req, cols):
    """split the flat list of recorded synthetic_col results into steps: a step has as many results as its grouping has distinct keys
    in the final table (the keys of a step do not change afterwards: synthTable_groupKeys_stable)"""
    outs, i = [], 0
    vals = df[attrs].values
    for sp in spec_req['specs']:
        ng = len({tuple(row[j] for j in sp['proj']) for row in vals.tolist()}) if len(vals) else 0
        if not sp['proj']:
            ng = 1 if len(vals) else 0
        outs.append(cols[i:i + ng])
        i += ng
    return outs, i


def run(res, drv, tier, seed):
    r = rng(seed, 'C11')
    n = 40 if tier == 'quick' else 300
    items, item_ctx = [], []
    tables = []
    for ci in range(n):
        dom, cl, kind = gmgen.gen_structure(r, 400, nmax=5)
        total = r.choice([1, 2, 7, 10, 37.6, 100, 1000, 12345.9, 10 ** 5] + ([10 ** 6] if tier == 'thorough' else []))
        order = gmgen.gen_order(r, dom)
        if ci % 4 == 3:
            # a chain of six attributes built with the integer form of elimination_order (several randomised greedy orders, the cheapest
            # is used for the tree): the column loop walks model.elimination_order, which must be the order the tree was built with
            names = r.sample(['a', 'b', 'c', 'd', 'e', 'f', 'g'], 6)
            dom = [[a, 2] for a in names]
            cl = [[names[i], names[i + 1]] for i in range(5)]
            order, total = r.choice([3, 6, 6]), r.choice([1000, 5000, 12345.9])
            np.random.seed(r.randrange(2 ** 31))
            res.count('directed: chain with an integer elimination order')
        model = gmgen.build_model(dom, cl, float(total), order)
        pots = gmgen.gen_potentials(r, model, zero_p=0.2)
        joint = gmgen.brute_joint(dom, pots)
        Z = sum(joint.values())
        if Z == 0:
            continue
        model.potentials = gmgen.impl_potentials(pots)
        method = 'round' if r.random() < 0.7 else 'sample'
        rows = None if r.random() < 0.6 else r.choice([1, 5, 50, 999, 0])
        if method == 'sample' and r.random() < 0.7:
            rows = r.choice([1000, 5000, 20000])
        npseed = r.randrange(2 ** 31)
        np.random.seed(npseed)
        attrs = [a for a, _ in dom]
        sizes = dict(map(tuple, dom))
        canon = {'dom': dom, 'cliques': cl, 'total': total, 'rows': rows, 'method': method, 'npseed': npseed, 'pots': gmgen.enc_pots(pots)}
        nz = sum(1 for p in joint.values() if p == 0)
        res.case(canon, any(len(c) >= 2 for c in model.cliques) and nz > 0,
                 sample={'dom': dom, 'cliques': cl, 'total': total, 'rows': rows, 'method': method} if ci < 3 else None)
        res.count('method:' + method)
        rp = {'request': canon}
        try:
            with np.errstate(all='ignore'), SynthRecorder() as srec:
                synth = model.synthetic_data(rows=rows, method=method)
        except Exception as e:
            res.violation('failing-input', f'synthetic_data raises {type(e).__name__}: {str(e)[:120]}', dict(rp, observed=str(e)), key='synth:raises')
            continue
        df = synth.df
        if method == 'round' and drv and 0 < df.shape[0] <= 20000:
            tq, why = table_request(dom, joint, model, srec, df.shape[0])
            if tq is None:
                tables.append((canon, None, why, df, attrs))
            else:
                outs, usedn = cut_outcomes(df, attrs, tq, srec.cols)
                par = []
                for k, sp in enumerate(tq['specs']):
                    pj = set(sp['proj'])
                    par.append(next((j for j in range(k - 1, -1, -1) if pj <= set(tq['specs'][j]['proj']) | {tq['specs'][j]['col']}), k) if pj else 0)
                tables.append((canon, {'op': 'synth_table', 'ncols': len(attrs), 'total': int(df.shape[0]), 'specs': tq['specs'], 'outs': outs,
                                       'parent': par, 'mass': '1'}, (usedn, len(srec.cols)), df, attrs))
        want_rows = int(total) if rows is None else rows
        bad = None
        if df.shape[0] != want_rows:
            bad = f'{df.shape[0]} rows generated, {want_rows} requested'
        elif list(synth.domain.attrs) != attrs or list(synth.domain.shape) != [sizes[a] for a in attrs]:
            bad = f'returned domain {synth.domain} differs from the model domain'
        else:
            vals = df[attrs].values
            if want_rows and ((vals < 0).any() or (vals >= np.array([sizes[a] for a in attrs])).any()):
                bad = 'a value lies outside its attribute domain'
        if not bad and want_rows:
            tc = table_counts(df, attrs)
            for cell, cnt in tc.items():
                if joint[cell] == 0:
                    bad = f'{cnt} record(s) in cell {dict(zip(attrs, cell))} to which the model gives probability zero'
                    break
        if bad:
            res.violation('failing-input', f'synthetic_data(method={method}): {bad}', dict(rp, expected=bad), key='synth:' + method)
            continue
        if want_rows == 0:
            continue
        if method == 'sample':
            # statistical test (labelled so in the evidence): every cell count of every model clique AND of the full joint table is a
            # Binomial(rows, p) variable when the rows are independent draws from the model; Bernstein's inequality gives
            # P(|X - np| > t) <= 2 exp(-t^2 / (2 (np(1-p) + t/3))), and t is chosen for a false-alarm probability below 1e-13 per cell
            if want_rows >= 200:
                L = 30.0

                def tail(p):
                    return L / 3 + math.sqrt(L * L / 9 + 2 * L * want_rows * p * (1 - p))
                tests = [list(c) for c in model.cliques]
                if len(joint) <= 2000:
                    tests.append(list(attrs))
                worst = None
                for c in tests:
                    P = gmgen.brute_marginal(dom, joint, c, Fr(1))
                    got = table_counts(df, c)
                    for cell, p in zip(itertools.product(*[range(sizes[a]) for a in c]), P):
                        p = float(p)
                        dev = abs(got.get(cell, 0) - want_rows * p)
                        if dev > tail(p) and (worst is None or dev / tail(p) > worst[0]):
                            worst = (dev / tail(p), c, cell, got.get(cell, 0), want_rows * p, tail(p))
                    res.count('sample: binomial tail test on the full joint table' if c == list(attrs) else 'sample: binomial tail test on a model clique')
                if worst:
                    _, c, cell, cnt, exp, t = worst
                    bad = (f'{want_rows} sampled records do not follow the model: attributes {c} cell {cell} holds {cnt} records, the model expects {exp:.1f} '
                           f'(independent draws stay within +-{t:.1f} except with probability 1e-13)')
                    res.violation('failing-input', f'synthetic_data(sample): {bad}', dict(rp, expected=bad), key='synth:sample-distribution')
            continue
        # rounding mode: clique-count error bounded independently of the row count
        order = list(model.elimination_order)[::-1]
        B = 0
        prod = 1
        for a in order:
            prod *= sizes[a]
            B += prod
        for c in model.cliques:
            c = list(c)
            P = gmgen.brute_marginal(dom, joint, c, Fr(want_rows))
            got = table_counts(df, c)
            for cell, p in zip(itertools.product(*[range(sizes[a]) for a in c]), P):
                if abs(got.get(cell, 0) - float(p)) > B:
                    bad = f'clique {c} cell {cell}: count {got.get(cell, 0)} vs expected {float(p):.3f} (error beyond the row-independent bound {B})'
                    break
            if bad:
                break
        if bad:
            res.violation('failing-input', f'synthetic_data(round): {bad}', dict(rp, expected=bad), key='synth:count-error')
            continue
        # per (column, group) rounding against exact conditional targets
        cliques = [set(c) for c in model.cliques]
        used = []
        for k, col in enumerate(order):
            if k == 0:
                relevant = []
            else:
                relevant = [a for a in attrs if a in set(used) & set().union(*[c for c in cliques if col in c])]
            pm = gmgen.brute_marginal(dom, joint, relevant + [col], Fr(1))
            shape = [sizes[a] for a in relevant] + [sizes[col]]
            pm = np.array(pm, dtype=object).reshape(shape)
            groups = table_counts(df, relevant + [col])
            gsize = {}
            for key, cnt in groups.items():
                gsize[key[:-1]] = gsize.get(key[:-1], 0) + cnt
            for gkey, gtot in gsize.items():
                counts = [pm[gkey + (v,)] for v in range(sizes[col])]
                out = [groups.get(gkey + (v,), 0) for v in range(sizes[col])]
                s = sum(counts)
                if s == 0:
                    bad = f'group {dict(zip(relevant, gkey))} has {gtot} records but zero model probability'
                    break
                xs = [c_ * gtot / s for c_ in counts]
                res.count('column groups checked')
                degenerate = any(abs(float(x) - round(float(x))) < 1e-6 and x != 0 for x in xs)
                for x, o in zip(xs, out):
                    lo, hi = math.floor(float(x) - 1e-6), math.floor(float(x) + 1e-6) + 1
                    if not (lo <= o <= hi) or (x == 0 and o != 0):
                        bad = f'column {col}, group {dict(zip(relevant, gkey))}: counts {out} for targets {[round(float(t), 4) for t in xs]} (each must be the floor or the floor plus one; zero targets stay empty)'
                        break
                if bad:
                    break
                if not degenerate:
                    items.append({'counts': [enc_q(c_) for c_ in counts], 'total': gtot, 'out': out})
                    item_ctx.append((canon, col, gkey))
                else:
                    res.count('groups with near-integer targets (tolerance check only)')
            if bad:
                break
            used.append(col)
        if bad:
            res.violation('failing-input', f'synthetic_data(round): {bad}', dict(rp, expected=bad), key='synth:rounding')
    if drv and items:
        ok = drv.run([{'op': 'col_check', 'items': items}])[0]
        if not ok['ok']:
            res.violation('correspondence', 'driver error ' + ok['err'], {'stream': 'C11.colOK'})
        else:
            for flag, it, (canon, col, gkey) in zip(ok['out']['ok'], items, item_ctx):
                if not flag:
                    res.violation('correspondence', f'verified colOK rejects column {col} group {gkey}: {it}; the tolerance check in Python accepted it',
                                  {'request': canon, 'model': it, 'stream': 'C11.colOK'})
                    break
        res.extra['groups_checked_by_verified_colOK'] = len(items)
    # the whole table: the Lean model of the column loop (synthTable) replays the recorded synthetic_col results and must reproduce the
    # implementation's table row by row; the replayed table then has to meet the row-independent bound of synthTable_clique_error
    live = [t for t in tables if t[1] is not None]
    resps = drv.run([t[1] for t in live], timeout=1200) if drv and live else []
    it = iter(resps)
    for canon, req, info, df, attrs in tables:
        rp = {'request': canon}
        if req is None:
            res.violation('correspondence', 'column loop: ' + info, dict(rp, stream='C11.table'))
            continue
        o = next(it)
        res.count('whole tables replayed row by row in the Lean model')
        if not o['ok']:
            res.violation('correspondence', 'driver error ' + o['err'], dict(rp, stream='C11.table'))
            continue
        o = o['out']
        usedn, nrec = info
        if usedn != nrec:
            res.violation('correspondence', f'column loop: the implementation made {nrec} synthetic_col calls, the groups of the model\'s steps account for {usedn}', dict(rp, stream='C11.table'))
            continue
        if o['table'] != df[attrs].values.tolist():
            k = next((i for i, (a, b) in enumerate(zip(o['table'], df[attrs].values.tolist())) if a != b), None)
            res.violation('correspondence', f'whole table: the model\'s replay of the column loop differs from the implementation\'s table (first at row {k})', dict(rp, stream='C11.table'))
            continue
        if not o['wf'] or not o.get('chain_wf', True):
            res.violation('correspondence', f'column loop: steps not well formed (specsWF {o["wf"]}, chainWF {o.get("chain_wf")}): the generation order is not a perfect elimination order of the model cliques',
                          dict(rp, stream='C11.table'))
            continue
        if not o['outs_ok']:
            res.count('whole tables with a near-integer target somewhere (outsOK decided by the tolerance check)')
            continue
        res.count('whole tables accepted by outsOK (hypotheses of the table theorems hold)')
        if not o.get('marg_consistent', True):
            res.violation('correspondence', 'brute-force marginals are not one consistent family (harness error)', dict(rp, stream='C11.table'))
        elif any(Fr(w) > b for w, b in zip(o['worst_err'], o['err_bound'])):
            res.violation('correspondence', f'replayed table breaks the proved bound: worst clique errors {o["worst_err"]} vs bounds {o["err_bound"]}', dict(rp, stream='C11.table'))
        else:
            res.extra.setdefault('clique_error_vs_bound', []).append([[float(Fr(w)) for w in o['worst_err']], o['err_bound'], int(df.shape[0])])
    sequences(res, tier, seed)


def sequences(res, tier, seed):
    """multi-step use of one model object: (i) cached marginals, a short preview, then the full table;
    (ii) generate, give the same object new parameters, generate again — each table must realise the
    parameters the model has at that moment"""
    r = rng(seed, 'C11-seq')
    for ci in range(6 if tier == 'quick' else 40):
        dom, cl, kind = gmgen.gen_structure(r, 300, nmax=4)
        total = r.choice([200, 1000, 5000])
        model = gmgen.build_model(dom, cl, float(total), None)
        attrs = [a for a, _ in dom]
        sizes = dict(map(tuple, dom))
        pots1 = gmgen.gen_potentials(r, model, zero_p=0.2)
        pots2 = gmgen.gen_potentials(r, model, zero_p=0.2)
        j1, j2 = gmgen.brute_joint(dom, pots1), gmgen.brute_joint(dom, pots2)
        if sum(j1.values()) == 0 or sum(j2.values()) == 0:
            continue
        mode = ['cache-preview-full', 'regenerate-after-new-parameters'][ci % 2]
        canon = {'dom': dom, 'cliques': cl, 'total': total, 'sequence': mode, 'pots': gmgen.enc_pots(pots1), 'pots2': gmgen.enc_pots(pots2)}
        res.case(canon, True)
        res.count('sequence:' + mode)
        np.random.seed(r.randrange(2 ** 31))
        try:
            with np.errstate(all='ignore'):
                model.potentials = gmgen.impl_potentials(pots1)
                if mode == 'cache-preview-full':
                    model.marginals = model.belief_propagation(model.potentials)
                    model.synthetic_data(rows=7)
                    synth = model.synthetic_data()
                    joint = j1
                else:
                    model.synthetic_data()
                    model.potentials = gmgen.impl_potentials(pots2)
                    synth = model.synthetic_data()
                    joint = j2
        except Exception as e:
            res.violation('failing-input', f'synthetic_data raises {type(e).__name__} in the sequence {mode}', {'request': canon}, key='synth:sequence-raises')
            continue
        df = synth.df
        B = sum(math.prod([sizes[a] for a in attrs][:k + 1]) for k in range(len(attrs)))
        bad = None
        tc = table_counts(df, attrs)
        for cell, cnt in tc.items():
            if joint[cell] == 0:
                bad = f'{cnt} record(s) in cell {dict(zip(attrs, cell))} to which the model (current parameters) gives probability zero'
                break
        if not bad:
            for c in model.cliques:
                c = list(c)
                P = gmgen.brute_marginal(dom, joint, c, Fr(df.shape[0]))
                got = table_counts(df, c)
                for cell, p in zip(itertools.product(*[range(sizes[a]) for a in c]), P):
                    if abs(got.get(cell, 0) - float(p)) > B:
                        bad = f'clique {c} cell {cell}: count {got.get(cell, 0)} vs expected {float(p):.2f} under the model\'s current parameters'
                        break
                if bad:
                    break
        if bad:
            res.violation('failing-input', f'synthetic_data in the sequence "{mode}": {bad}', {'request': canon, 'expected': bad}, key='synth:sequence')


def search(res, tier, seed, broken):
    run(res, None, 'quick', seed + 1)


def replay(res, drv, rp):
    res.case(rp['request'])
    run(res, None, 'quick', rp.get('seed', 0))
