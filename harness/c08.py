"""C08 — the returned model is one coherent, valid distribution."""
import copy, itertools, math
import numpy as np
from common import enc_f, dec_f, close, rng
import estgen

LEAN_MODULE = 'PGM.Properties.C08'
LEAN_EXTRA = ['PGM.Properties.C08B', 'PGM.Properties.C04G', 'PGM.Properties.C01G', 'PGM.Properties.C08E']
TRANSLATORS = ('py2inf', 'py2gm', 'py2est', 'py2jt', 'py2gminit', 'py2gmq')   # py2est / py2jt / py2gminit / py2gmq: C08E composes the estimator shell, the generated __init__ and project with them; solvers, belief propagation and mle regenerated and identified with the hand models
TRUSTED = ['Lean 4.33 kernel', 'axioms: propext, Classical.choice, Quot.sound',
           'hand model PGM/Model/Solvers.lean (three solvers as state machines over an arbitrary marginal oracle and loss) and GM.mle tied to src/mbi/inference.py / graphical_model.py by this correspondence run (Float instance)',
           'the 1e-100 offset inside Factor.log (tau): theorems are for tau = 0, the check uses tolerance 1e-6 relative']
ASSUMPTIONS = ['support non-empty']
RULE = ('random domains (2-4 attributes, <=200 cells), 0-4 measurements (identity / integer / prefix queries, noise 0.5-3), total given or estimated, structural zeros on/off, '
        'solvers MD / RDA / IG, iteration counts 1, 2, 7, 100; non-trivial = model has >= 2 cliques; distinct = distinct (problem, solver, iterations)')
EXPLANATION = ('stored clique marginals vs belief_propagation(stored potentials) on the real object; every answer (in-clique, out-of-clique, full vector) finite, nonnegative, '
               'summing to the total; overlapping answers agree; potentials-served vs cache-served answers agree; Lean Float model of bp / mle / the solver run compared with the implementation')


def answers(model, attrs, r):
    tups = [[a] for a in attrs] + [list(p) for p in itertools.combinations(attrs, 2)]
    if len(attrs) >= 3:
        tups.append(attrs[:3])
    out = {}
    with np.errstate(all='ignore'):
        for t in tups:
            out[tuple(t)] = np.asarray(model.project(tuple(t)).values, dtype=float)
    return out


def marginalise(arr, attrs_from, attrs_to):
    ax = tuple(i for i, a in enumerate(attrs_from) if a not in attrs_to)
    res = arr.sum(axis=ax) if ax else arr
    kept = [a for a in attrs_from if a in attrs_to]
    perm = [kept.index(a) for a in attrs_to]
    return np.transpose(res, perm) if len(perm) > 1 else res


DIVERGED = [0.0]


def check_model(model, prob, r, tol_rel=1e-6):
    DIVERGED[0] = 0.0
    return _check_model(model, prob, r, tol_rel)


def _check_model(model, prob, r, tol_rel=1e-6):
    """returns a description of the first incoherence found, or None"""
    attrs = [a for a, _ in prob['dom']]
    total = float(model.total)
    # float rounding: log Z of parameters of magnitude M carries an absolute error of about eps*M, i.e. a relative error of that size in
    # every table; the stiff cases (noise 1e-9, forced step) reach M ~ 1e12
    mags = [float(np.abs(v[np.isfinite(v)]).max()) for v in (np.asarray(model.potentials[c].values) for c in model.cliques) if np.isfinite(v).any()]
    if max(mags + [0.0]) > 1e12:
        DIVERGED[0] = max(mags)          # beyond this the rounding argument says nothing: checked at the base tolerance, reported under its own key
    else:
        tol_rel = max(tol_rel, 16 * 2.2e-16 * max(mags + [0.0]))
    tol = tol_rel * max(1.0, total)
    with np.errstate(all='ignore'):
        if hasattr(model, 'marginals'):
            bp = model.belief_propagation(model.potentials)
            for cl in model.cliques:
                a, b = np.asarray(model.marginals[cl].values), np.asarray(bp[cl].values)
                if not np.all(np.isfinite(a)) or not np.allclose(a, b, rtol=tol_rel, atol=tol):
                    return f'stored marginal on {list(cl)} differs from the marginal implied by the stored parameters (max diff {float(np.nanmax(np.abs(a - b))):.3g}, total {total:.6g})'
        cached = answers(model, attrs, r)
        m2 = copy.copy(model)
        if hasattr(m2, 'marginals'):
            del m2.marginals
        plain = answers(m2, attrs, r)
        dv = np.asarray(model.datavector(), dtype=float)
    for name, ans in (('cache', cached), ('parameters', plain)):
        for t, v in ans.items():
            if not np.all(np.isfinite(v)):
                return f'answer for {list(t)} (served from {name}) is not finite'
            if v.min() < -1e-9 * max(1.0, total):
                return f'answer for {list(t)} (served from {name}) has a negative entry {v.min()}'
            if not close(float(v.sum()), total, tol_rel, 1e-9):
                return f'answer for {list(t)} (served from {name}) sums to {float(v.sum())}, model total {total}'
    if not np.all(np.isfinite(dv)) or not close(float(dv.sum()), total, tol_rel, 1e-9):
        return f'full vector not finite or sums to {float(dv.sum())} (total {total})'
    for t in cached:
        if not np.allclose(cached[t], plain[t], rtol=tol_rel, atol=tol):
            return f'answer for {list(t)} differs between cache-served and parameter-served paths (max diff {float(np.abs(cached[t] - plain[t]).max()):.3g})'
    keys = list(cached)
    for t1, t2 in itertools.combinations(keys, 2):
        common = [a for a in t1 if a in t2]
        if not common:
            continue
        m1 = marginalise(cached[t1], list(t1), common)
        m2_ = marginalise(cached[t2], list(t2), common)
        if not np.allclose(m1, m2_, rtol=tol_rel, atol=tol):
            return f'answers for {list(t1)} and {list(t2)} disagree on shared attributes {common} (max diff {float(np.abs(m1 - m2_).max()):.3g})'
    full = dv.reshape([s for _, s in prob['dom']])
    for t in keys[:4]:
        mm = marginalise(full, attrs, list(t))
        if not np.allclose(mm, cached[t], rtol=tol_rel, atol=tol):
            return f'full vector marginalised to {list(t)} disagrees with the answer for it'
    return None


def run(res, drv, tier, seed):
    r = rng(seed, 'C08')
    n = 30 if tier == 'quick' else 250
    reqs, ctx = [], []
    for ci in range(n):
        directed = ci < (9 if tier == 'quick' else 60)
        if directed:
            # tree-shaped pairwise measurement sets over shuffled attributes (clique order matters to mle), every third one with structural
            # zeros that remove a whole value of a separator attribute (-inf slices in the messages)
            prob = estgen.gen_tree_problem(r, kill_value=(ci % 3 == 2))
            engine = ['MD', 'MD', 'IG'][(ci // 3) % 3] if ci % 3 == 2 else ['RDA', 'IG'][ci % 2]
            iters = [1, 7, 2][ci % 3]
            res.count('directed:tree' + ('+killed-separator-value' if ci % 3 == 2 else ''))
        else:
            prob = estgen.gen_problem(r)
            engine = r.choice(['MD', 'MD', 'RDA', 'IG'])
            iters = r.choice([1, 2, 7, 100])
        if (not directed) and ci % 7 == 3:
            # pairwise measurements around a chordless cycle of 5-6 attributes: the junction tree needs fill-in edges that depend on earlier fill-in
            prob = estgen.gen_cycle_problem(r, r.choice([5, 5, 6]))
            engine, iters = r.choice(['MD', 'RDA', 'IG']), r.choice([1, 7, 25])
            res.count('directed: chordless measurement cycle')
        stiff = (not directed) and ci % 5 == 0
        if stiff:
            # nearly noise-free measurements and one or two iterations: the Armijo search of mirror descent fails all 25 halvings and the
            # last trial is taken regardless (the "forced" exit of md_exit_pair)
            prob = estgen.gen_problem(r, nmeas=r.choice([1, 2, 3]))
            for m in prob['meas']:
                m['noise'] = r.choice([1e-5, 1e-7, 1e-9])
            engine, iters = 'MD', r.choice([1, 1, 2])
        total = r.choice([None, float(prob['N']), 37.5])
        canon = dict(estgen.canon_problem(prob), engine=engine, iters=iters, total=total)
        eng = estgen.make_engine(prob['dom'], prob['zeros'], iters=iters)
        nloss = [0]
        real_loss = eng._marginal_loss

        def counting_loss(*a, _f=real_loss, **k):
            nloss[0] += 1
            return _f(*a, **k)
        eng._marginal_loss = counting_loss
        try:
            model = estgen.estimate(eng, prob['meas'], total, engine)
        except Exception as e:
            res.case(canon, True)
            res.violation('failing-input', f'estimate({engine}, iters={iters}) raises {type(e).__name__}: {str(e)[:150]}', {'request': canon}, key=f'estimate:raises:{engine}')
            continue
        res.case(canon, len(model.cliques) >= 2, sample={k: canon[k] for k in ('dom', 'engine', 'iters', 'total', 'zeros')} if ci < 3 else None)
        res.count('engine:' + engine); res.count('iters:%d' % iters)
        if engine == 'MD' and nloss[0] >= 1 + 25 * iters:
            res.count('MD: every line search exhausted its 25 halvings (forced exit)')
        elif engine == 'MD' and nloss[0] >= 26:
            res.count('MD: at least 25 loss evaluations (a line search may have been exhausted)')
        if not hasattr(model, 'marginals'):
            res.count('early exit (marginals unset)')
        if prob['zeros']:
            res.count('with structural zeros')
        bad = check_model(model, prob, r)
        if bad:
            div = DIVERGED[0]
            res.violation('failing-input', f'{engine}, iters={iters}: {bad}' + (f' (the parameters have diverged: max |theta| = {div:.3g})' if div else ''),
                          {'request': canon, 'expected': bad}, key=f'coherent:{engine}' + (':diverged-parameters' if div else ''))
            continue
        # the model handed back stays one coherent distribution while it is USED: drawing records from it (which reads the stored
        # marginals clique by clique) must not change a single answer
        if hasattr(model, 'marginals') and ci % 3 == 0:
            res.count('coherence re-checked after synthetic_data on the returned model')
            bad = None
            try:
                with np.errstate(all='ignore'):
                    model.synthetic_data(rows=r.choice([7, 50]))
            except Exception as e:
                bad = f'synthetic_data on the returned model raises {type(e).__name__}: {str(e)[:120]}'
            bad = bad or check_model(model, prob, r)
            if bad:
                res.violation('failing-input', f'{engine}, iters={iters}: after drawing records from the returned model: {bad}', {'request': dict(canon, then='synthetic_data'), 'expected': bad},
                              key=f'coherent-after-use:{engine}')
                continue
        # correspondence: bp / mle on doubles against the stored pair
        dom = eng.domain
        mcl = [list(c) for c in model.cliques]
        mord = [[list(a), list(b)] for a, b in model.message_order]
        if hasattr(model, 'marginals'):
            reqs.append({'op': 'bp_f', 'cliques': mcl, 'order': mord, 'pots': estgen.enc_cv_f(model.potentials, dom), 'total': enc_f(float(model.total))})
            ctx.append(('bp', canon, model))
            if engine in ('RDA', 'IG'):
                reqs.append({'op': 'mle_f', 'cliques': mcl, 'marg': estgen.enc_cv_f(model.marginals, dom)})
                ctx.append(('mle', canon, model))
        if iters <= 2 and engine == 'MD' and total is not None and prob['meas']:
            zs = [{'clique': list(k), 'cells': [list(c) for c in v]} for k, v in prob['zeros'].items()]
            reqs.append({'op': 'solve', 'engine': engine, 'dom': prob['dom'], 'cliques': mcl, 'order': mord, 'meas': estgen.enc_meas_f(prob['meas']),
                         'total': enc_f(float(model.total)), 'iters': iters, 'zeros': zs, 'L': enc_f(1.0)})
            ctx.append(('solve', canon, model))
    resps = drv.run(reqs, timeout=1200) if drv and reqs else []
    for (kind, canon, model), resp in zip(ctx, resps):
        res.count('correspondence:' + kind)
        if not resp['ok']:
            res.violation('correspondence', f'{kind}: driver error {resp["err"]}', {'request': canon, 'stream': 'C08.' + kind})
            continue
        o = resp['out']
        key = {'bp': 'marg', 'mle': 'pots', 'solve': 'potentials'}[kind]
        target = model.marginals if kind == 'bp' else model.potentials
        tol = 1e-6
        for e in o[key]:
            iv = np.asarray(target[tuple(e['clique'])].values, dtype=float).flatten()
            mv = np.array([dec_f(x) for x in e['vals']])
            scale = max(1.0, float(model.total)) if kind == 'bp' else 1.0
            with np.errstate(all='ignore'):
                okv = np.all((np.isclose(mv, iv, rtol=tol, atol=tol * scale)) | ((mv == iv)))
            if not okv:
                res.violation('correspondence', f'{kind}: Lean (Float) result on {e["clique"]} differs from the implementation: model {mv[:4]} impl {iv[:4]}; the coherence checks hold on this input',
                              {'request': canon, 'stream': 'C08.' + kind})
                break


def search(res, tier, seed, broken):
    run(res, None, 'quick', seed + 1)


def replay(res, drv, rp):
    res.case(rp['request'])
    q = rp['request']
    prob = {'dom': q['dom'], 'zeros': {tuple(k.split(',')): [tuple(c) for c in v] for k, v in q['zeros'].items()},
            'meas': [{'Q': np.array(m['Q']), 'y': np.array(m['y']), 'noise': m['noise'], 'proj': m['proj']} for m in q['meas']], 'N': 0}
    eng = estgen.make_engine(prob['dom'], prob['zeros'], iters=q['iters'])
    model = estgen.estimate(eng, prob['meas'], q['total'], q['engine'])
    bad = check_model(model, prob, rng(0, 'r'))
    if bad:
        res.violation('failing-input', f'{q["engine"]}, iters={q["iters"]}: {bad}', {'request': q, 'expected': bad}, key=f'coherent:{q["engine"]}')
