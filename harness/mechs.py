"""loading the mechanisms (namespace package, '+' in a file name, stubbed third-party imports)"""
import importlib, importlib.util, os, sys
import common


def load(name):
    common.setup_repo_path()
    fn = {'mst': 'mst.py', 'aim': 'aim.py', 'mwem': 'mwem+pgm.py', 'adagrid': 'adaptive_grid.py',
          'mechanism': 'mechanism.py', 'cdp2adp': 'cdp2adp.py'}[name]
    modname = 'mechanisms.' + fn[:-3].replace('+', '_')
    if modname in sys.modules:
        return sys.modules[modname]
    if '+' not in fn:
        return importlib.import_module('mechanisms.' + fn[:-3])
    spec = importlib.util.spec_from_file_location(modname, os.path.join(common.REPO, 'mechanisms', fn))
    mod = importlib.util.module_from_spec(spec)
    sys.modules[modname] = mod
    spec.loader.exec_module(mod)
    return mod


class FakePrng:
    """records the arguments of every sampler call; returns deterministic outcomes"""

    def __init__(self, r=None):
        self.calls = []
        self.r = r

    def choice(self, a, size=None, replace=True, p=None):
        self.calls.append(('choice', a, None if p is None else [float(x) for x in p]))
        n = a if isinstance(a, int) else len(a)
        return 0 if self.r is None else self.r.randrange(n)

    def normal(self, loc=0.0, scale=1.0, size=None):
        import numpy as np
        self.calls.append(('normal', float(loc), float(scale), size))
        return np.zeros(size) if size is not None else 0.0

    def laplace(self, loc=0.0, scale=1.0, size=None):
        import numpy as np
        self.calls.append(('laplace', float(loc), float(scale), size))
        return np.zeros(size) if size is not None else 0.0
