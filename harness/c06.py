"""C06 — private data reaches mechanism output only through the DP primitives (relational replay)."""
import numpy as np
from common import rng
import mechrun
import c05

LEAN_MODULE = 'PGM.Properties.C06'
NEEDS_GENERATED = True
TRANSLATORS = ('py2lean', 'py2flow', 'py2mstdom')     # py2mstdom: mst.py compress_domain / transform_data / reverse_data / MST -> MstDomG.lean (C06D)
LEAN_EXTRA = ['PGM.Properties.C06D']
TRUSTED = ['Lean 4.33 kernel', 'axioms: propext, Classical.choice, Quot.sound',
           'harness/mechrun.py instrumentation (observes release operands / scales / probability vectors from outside and forces outcomes on the neighbour run)',
           'post-processing randomness (synthetic_data, reverse_data) is served from an identically seeded generator in both runs']
ASSUMPTIONS = ['neighbouring datasets under the mechanism\'s own adjacency notion (replace-one for bounded MWEM, add/remove otherwise)']
RULE = ('for each of MST, AIM, MWEM+PGM (both noise kinds, both adjacency notions), Adaptive Grid (targets, split strategies): random and directed neighbouring pairs over 3-4 attributes; '
        'the run on D records every released value and selection, the run on D\' is forced to observe the same; non-trivial = at least one selection and two releases; distinct = distinct (mechanism, parameters, D, D\')')
EXPLANATION = ('the two executions must perform the same sequence of releases / selections with the same noise scales and sizes and return identical synthetic data; '
               'the returned data must carry the input\'s original domain and lie inside it')


def one_pair(res, name, dom, rows, rows2, params, seed, tag):
    rec, out = mechrun.run(name, dom, rows, params, seed)
    canon = {'mechanism': name, 'dom': dom, 'rows': rows, 'rows2': rows2, 'params': params, 'seed': seed}
    nsel = sum(1 for e in rec.events if e['kind'] == 'select')
    nrel = sum(1 for e in rec.events if e['kind'] == 'release')
    res.case(canon, nsel >= 1 and nrel >= 2, sample={'mechanism': name, 'params': params, 'trace': [(e['kind'], e.get('scale'), e.get('size') or e.get('n')) for e in rec.events][:10]} if tag == 'directed' else None)
    res.count(f'{name}:{tag}')
    if 'raise' in out:
        res.count(f'{name}: raises (no output)')
        res.extra.setdefault('raised', []).append({'mechanism': name, 'error': out['raise']})
        return
    # domain conformance of the output
    if out['domain'] != [list(x) for x in dom]:
        res.violation('failing-input', f'{name}: returned data has domain {out["domain"]}, the input\'s domain is {dom}', {'request': canon, 'observed': out['domain']}, key=f'{name}:domain')
        return
    sizes = [s for _, s in dom]
    arr = np.array(out['rows'], dtype=float).reshape(len(out['rows']), len(dom))
    if arr.size and (np.isnan(arr).any() or (arr < 0).any() or (arr >= np.array(sizes)).any()):
        res.violation('failing-input', f'{name}: returned data has values outside the original domain', {'request': canon}, key=f'{name}:domain-values')
        return
    rec2, out2 = mechrun.run(name, dom, rows2, params, seed, forced=rec.outcomes())
    if 'raise' in out2:
        res.violation('failing-input', f'{name}: the run on the neighbouring dataset, observing the same released values and selections, raises {out2["raise"]}', {'request': canon}, key=f'{name}:neighbour-raises')
        return
    t1 = [(e['kind'], e.get('dist'), e.get('scale'), e.get('size') if e['kind'] == 'release' else e['n']) for e in rec.events]
    t2 = [(e['kind'], e.get('dist'), e.get('scale'), e.get('size') if e['kind'] == 'release' else e['n']) for e in rec2.events]
    if t1 != t2:
        k = next((i for i, (a, b) in enumerate(zip(t1, t2)) if a != b), min(len(t1), len(t2)))
        res.violation('failing-input', f'{name}: event {k} differs between the two executions although all earlier outcomes were identical: {t1[k] if k < len(t1) else None} vs {t2[k] if k < len(t2) else None} '
                      f'({len(t1)} vs {len(t2)} events): control flow or a noise scale depends on the private data', {'request': canon, 'observed': {'D': t1, 'Dprime': t2}}, key=f'{name}:trace')
        return
    if out['rows'] != out2['rows'] or out['cols'] != out2['cols']:
        res.violation('failing-input', f'{name}: identical released values and selections but different synthetic data: the output depends on the private data outside the DP primitives',
                      {'request': canon}, key=f'{name}:output')


def directed_adagrid_threshold(res, seed):
    """a one-way cell whose true count sits just above the public plausibility cut-off threshold*sigma_1:
    removing one of its records must not change which later releases happen (the cut-off is applied to noisy answers)"""
    import math
    import mechs
    C = mechs.load('cdp2adp')
    dom = [['a', 4], ['b', 2], ['c', 3]]
    eps, delta, thr = 3.0, 1e-6, 1.0
    rho = C.cdp_rho(eps, delta)
    sigma1 = math.sqrt(0.5 / (rho / 3)) * math.sqrt(len(dom))
    cut = thr * sigma1
    k = int(math.floor(cut)) + 1
    rows = [[3, i % 2, i % 3] for i in range(k)] + [[i % 3, i % 2, (i // 2) % 3] for i in range(40 * k)]
    rows2 = rows[1:]
    one_pair(res, 'adagrid', dom, rows, rows2, {'epsilon': eps, 'delta': delta, 'threshold': thr, 'targets': [], 'split_strategy': None}, seed, 'directed')


def directed_constant_attribute(res, r, seed):
    """an attribute that takes a single value in D although its domain is larger; the neighbour adds a record with another value:
    nothing outside the DP primitives may depend on how many distinct values the raw column holds"""
    dom = [['a', 2], ['b', 3], ['c', 4], ['d', 2]]
    rows = [[r.randrange(2), r.randrange(3), r.randrange(4), 0] for _ in range(300)]
    rows2 = rows + [[1, 2, 3, 1]]
    for name in ('adagrid', 'mst', 'aim'):
        params = c05.gen_params(r, name, dom)
        if name == 'adagrid':
            params['targets'] = []
        one_pair(res, name, dom, rows, rows2, params, seed * 1000 + 77, 'directed')
    res.count('directed: attribute constant in the data, neighbour adds another value')


def run(res, drv, tier, seed):
    r = rng(seed, 'C06')
    per = 3 if tier == 'quick' else 25
    for name in ['mst', 'aim', 'mwem', 'adagrid']:
        for k in range(per):
            dom = r.choice(c05.DOMS)
            rows = c05.gen_rows(r, dom, r.choice([20, 60, 120]))
            params = c05.gen_params(r, name, dom)
            bounded = bool(params.get('bounded'))
            directed = (k % 2 == 1)
            rows2 = c05.neighbour(r, dom, rows, bounded, directed)
            one_pair(res, name, dom, rows, rows2, params, seed * 1000 + k, 'directed' if directed else 'random')
    directed_adagrid_threshold(res, seed)
    directed_constant_attribute(res, r, seed)


def search(res, tier, seed, broken):
    # say which statement of which mechanism the flow check rejects (diagnostic mirror of PGM.Flow.flow)
    try:
        import sys, os
        sys.path.insert(0, os.path.join(os.path.dirname(os.path.dirname(os.path.abspath(__file__))), 'tools'))
        import py2flow, common
        res.extra['flow_check_explanation'] = py2flow.explain_all(common.REPO)
        for b in broken:
            b['detail'] = (b.get('detail') or '') + ' | flow check: ' + str({k: v for k, v in res.extra['flow_check_explanation'].items() if v != 'accepted'})[:600]
    except Exception as e:
        res.extra['flow_check_explanation'] = 'translator failed: ' + repr(e)[:300]
    run(res, None, 'quick', seed + 1)


def replay(res, drv, rp):
    q = rp['request']
    one_pair(res, q['mechanism'], q['dom'], q['rows'], q['rows2'], q['params'], q['seed'], 'replay')
