"""C04 — the optimised objective, its gradient and smoothness bound are the stated ones."""
import itertools, math
import numpy as np
from common import Fr, enc_q, dec_q, close, rng
import gmgen

LEAN_MODULE = 'PGM.Properties.C04'
LEAN_EXTRA = ['PGM.Properties.C04B', 'PGM.Properties.C04G']
TRANSLATORS = ('py2inf',)     # _marginal_loss, grouping, _lipschitz and the three solvers of inference.py -> Generated/InferenceG.lean
TRUSTED = ['Lean 4.33 kernel', 'axioms: propext, Classical.choice, Quot.sound',
           'hand model PGM/Model/Loss.lean tied to src/mbi/inference.py (_setup grouping, _marginal_loss, _lipschitz) by this correspondence run',
           'scipy eigsh modelled by its contract (largest eigenvalue of QtQ, supplied by numpy.eigvalsh); equivalence of dense/sparse/LinearOperator spellings is exercised, not proved',
           'IEEE rounding not modelled (rel 1e-9)']
ASSUMPTIONS = ['squared-error metric for the expansion and smoothness clauses', 'projections are duplicate-free attribute tuples of the domain']
RULE = ('random domains (2-5 attributes, sizes 1-4), 1-6 measurements with overlapping / nested / repeated projections in random attribute order, integer query matrices, '
        'noise in {0.1, 0.5, 1, 3.5}, spellings dense / sparse / LinearOperator / None and proj as str / list / tuple; candidate marginals = marginals of a random integer table; '
        'non-trivial = two measurements share a clique or a projection is permuted; distinct = distinct (domain, measurements, marginals)')
EXPLANATION = ('engine._marginal_loss / _lipschitz / groups on the real code vs the Lean model over exact rationals, vs the independent per-measurement loss, '
               'the exact central-difference derivative identity of a quadratic, spelling invariance, and lambda_max of the explicit Hessian')


def gen_case(r):
    n = r.randint(2, 5)
    attrs = r.sample(gmgen.NAMES, n)
    while True:
        dom = [[a, r.choice([1, 2, 2, 3, 3, 4])] for a in attrs]
        if math.prod(s for _, s in dom) <= 400:
            break
    sizes = dict(map(tuple, dom))
    meas = []
    base = [r.sample(attrs, r.randint(1, min(3, n))) for _ in range(r.randint(1, 3))]
    for _ in range(r.randint(1, 6)):
        u = r.random()
        if u < 0.4 and base:
            b = r.choice(base)
            proj = r.sample(b, r.randint(1, len(b)))      # nested / permuted
        elif u < 0.5 and meas:
            proj = list(meas[-1]['proj'])                  # repeated
        else:
            proj = r.sample(attrs, r.randint(1, min(3, n)))
        p = math.prod(sizes[a] for a in proj)
        kind = r.choice(['identity', 'none', 'int', 'prefix', 'total', 'diag'])
        if kind in ('identity', 'none'):
            Q = np.eye(p)
        elif kind == 'diag':
            Q = np.diag([float(r.choice([1, 2, 3, -2, 4])) for _ in range(p)]) if r.random() < 0.6 else float(r.choice([2, 3, 4])) * np.eye(p)
        elif kind == 'int':
            Q = np.array([[r.randint(-2, 3) for _ in range(p)] for _ in range(r.randint(1, p + 1))], dtype=float)
            if not Q.any():
                Q[0, 0] = 1.0      # an all-zero query matrix is not a measurement (ARPACK rejects it: "starting vector is zero")
        elif kind == 'prefix':
            Q = np.tril(np.ones((p, p)))
        else:
            Q = np.ones((1, p))
        # noisy answers are not integers: quarter-valued (exact in binary and in the rational model)
        y = np.array([r.randint(-5, 30) + r.choice([0.0, 0.25, 0.5, 0.75, 0.0]) for _ in range(Q.shape[0])], dtype=float)
        noise = r.choice([0.1, 0.5, 1.0, 3.5])
        meas.append({'Q': Q, 'y': y, 'noise': noise, 'proj': proj, 'qkind': kind})
    table = {x: r.randint(0, 6) for x in itertools.product(*[range(s) for _, s in dom])}
    return dom, meas, table


def spell(r, m, variant):
    from scipy import sparse
    from scipy.sparse.linalg import aslinearoperator
    Q, proj = m['Q'], m['proj']
    if variant == 0:
        Qs = None if m['qkind'] == 'none' else Q
        ps = tuple(proj)
    else:
        # element types: every generated query has integer entries, so an integer / narrow-float / boolean array is the same query
        is01 = bool(np.isin(Q, (0.0, 1.0)).all())
        k = r.choice(['dense', 'sparse', 'op', 'csc', 'coo', 'dia', 'dense-int', 'sparse-int32', 'dense-float32', 'op-int']
                     + (['none'] if m['qkind'] in ('identity', 'none') else []) + (['dense-bool', 'sparse-bool'] if is01 else []))
        mk = {'dense': lambda: Q, 'sparse': lambda: sparse.csr_matrix(Q), 'op': lambda: aslinearoperator(sparse.csr_matrix(Q)), 'none': lambda: None,
              'csc': lambda: sparse.csc_matrix(Q), 'coo': lambda: sparse.coo_matrix(Q), 'dia': lambda: sparse.dia_matrix(Q),
              'dense-int': lambda: Q.astype(int), 'sparse-int32': lambda: sparse.csr_matrix(Q.astype(np.int32)),
              'dense-float32': lambda: Q.astype(np.float32), 'op-int': lambda: aslinearoperator(sparse.csr_matrix(Q.astype(np.int64))),
              'dense-bool': lambda: Q.astype(bool), 'sparse-bool': lambda: sparse.csr_matrix(Q.astype(bool))}
        Qs = mk[k]()
        SPELLINGS[k] = SPELLINGS.get(k, 0) + 1
        ps = r.choice([tuple(proj), list(proj)] + ([proj[0]] if len(proj) == 1 else []))
    return (Qs, m['y'], m['noise'], ps)


SPELLINGS = {}


def marg_of_table(dom, table, attrs_out):
    attrs = [a for a, _ in dom]
    sizes = dict(map(tuple, dom))
    pos = [attrs.index(a) for a in attrs_out]
    acc = {}
    for x, v in table.items():
        k = tuple(x[i] for i in pos)
        acc[k] = acc.get(k, 0) + v
    return [acc.get(c, 0) for c in itertools.product(*[range(sizes[a]) for a in attrs_out])]


def setup_engine(dom, measurements):
    from mbi import Domain, FactoredInference
    d = Domain([a for a, _ in dom], [s for _, s in dom])
    eng = FactoredInference(d, iters=1)
    ms = eng.fix_measurements(list(measurements))
    eng._setup(ms, 100.0)
    return eng, ms


def cliquevec(eng, dom, table_or_vals):
    from mbi import Factor, CliqueVector
    d = {}
    for cl in eng.model.cliques:
        vals = table_or_vals(cl)
        d[cl] = Factor(eng.domain.project(cl), np.array(vals, dtype=float))
    return CliqueVector(d)


def run(res, drv, tier, seed):
    r = rng(seed, 'C04')
    n = 120 if tier == 'quick' else 1200
    reqs, rows = [], []
    for _ in range(n):
        dom, meas, table = gen_case(r)
        sizes = dict(map(tuple, dom))
        m0 = [spell(r, m, 0) for m in meas]
        m1 = [spell(r, m, 1) for m in meas]
        with np.errstate(all='ignore'):
            eng, ms = setup_engine(dom, m0)
            eng1, ms1 = setup_engine(dom, m1)
            mu = cliquevec(eng, dom, lambda cl: marg_of_table(dom, table, list(cl)))
            mu1 = cliquevec(eng1, dom, lambda cl: marg_of_table(dom, table, list(cl)))
            loss, grad = eng._marginal_loss(mu)
            loss1, grad1 = eng1._marginal_loss(mu1)
            try:
                lip = eng._lipschitz(ms)
                lip1 = eng1._lipschitz(ms1)
            except TypeError as ex:
                lip = lip1 = None
                lip_err = str(ex)[:80]
            # direction for the derivative identity
            h = cliquevec(eng, dom, lambda cl: [r.randint(-3, 3) for _ in range(math.prod(sizes[a] for a in cl))])
            lp, _ = eng._marginal_loss(mu + h)
            lm, _ = eng._marginal_loss(mu - h)
            gh = grad.dot(h)
            # explicit Hessian of the engine's loss as a function of the clique vector
            cl_list = list(eng.model.cliques)
            offs, tot = {}, 0
            for cl in cl_list:
                offs[cl] = tot; tot += eng.domain.size(cl)
            H = np.zeros((tot, tot))
            zero = cliquevec(eng, dom, lambda cl: [0] * eng.domain.size(cl))
            _, g0 = eng._marginal_loss(zero)
            for cl in cl_list:
                for k in range(eng.domain.size(cl)):
                    e = cliquevec(eng, dom, lambda c2: [1 if (c2 == cl and i == k) else 0 for i in range(eng.domain.size(c2))])
                    _, ge = eng._marginal_loss(e)
                    col = np.concatenate([(ge[c2].values - g0[c2].values).flatten() for c2 in cl_list])
                    H[:, offs[cl] + k] = col
            lam = float(np.linalg.eigvalsh((H + H.T) / 2).max()) if tot else 0.0
        groups = {}
        for cl, lst in eng.groups.items():
            for (_, _, _, proj) in lst:
                groups.setdefault(tuple(proj), []).append(list(cl))
        canon = {'dom': dom, 'meas': [{'Q': m['Q'].tolist(), 'y': m['y'].tolist(), 'noise': m['noise'], 'proj': m['proj']} for m in meas],
                 'table': [int(v) for v in table.values()]}
        # independent loss: every measurement exactly once
        spec_loss = Fr(0)
        for m in meas:
            x = marg_of_table(dom, table, m['proj'])
            c = 1 / Fr(m['noise'])
            for row, yi in zip(m['Q'], m['y']):
                d_ = c * (sum(Fr(int(q)) * xv for q, xv in zip(row, x)) - Fr(float(yi)))
                spec_loss += d_ * d_ / 2
        shared = len(set(tuple(sorted(m['proj'])) for m in meas)) < len(meas) or any(m['proj'] != [a for a, _ in dom if a in m['proj']] for m in meas)
        res.case(canon, shared, sample={'dom': dom, 'projections': [m['proj'] for m in meas], 'noise': [m['noise'] for m in meas]} if shared else None)
        res.count('cliques in model: %d' % min(len(eng.model.cliques), 4))
        bad, key = None, None
        # a query stored in single precision has its eigenvalue computed in single precision (rounding, relative 6e-8 observed)
        tol1 = 1e-5 if any(getattr(q[0], 'dtype', None) == np.float32 for q in m1) else 1e-9
        if not close(loss, float(spec_loss), 1e-9, 1e-9):
            bad, key = f'loss {loss} != sum over measurements (each once) {float(spec_loss)}', 'loss:value'
        elif not close(gh, (lp - lm) / 2, 1e-8, 1e-7):
            bad, key = f'<grad,h> = {gh} but (L(mu+h)-L(mu-h))/2 = {(lp - lm) / 2}: gradient is not the derivative of the loss', 'loss:gradient'
        elif not close(loss, loss1, 1e-9, 1e-9):
            bad, key = f'equivalent spellings give different loss: {loss} vs {loss1}', 'loss:spelling'
        elif any(not np.allclose(grad[cl].values, grad1[cl].values, rtol=1e-9, atol=1e-9) for cl in grad):
            bad, key = 'equivalent spellings give different gradients', 'loss:spelling'
        elif lip is None:
            bad, key = f'_lipschitz raises TypeError ({lip_err}) for a measurement over a 1-cell marginal', 'lipschitz:one-cell'
        elif lip < lam * (1 - 1e-9) - 1e-9:
            bad, key = f'smoothness constant {lip} is below the largest Hessian eigenvalue {lam}', 'lipschitz:below-hessian'
        elif lip1 < lam * (1 - tol1) - 1e-9:
            bad, key = f'smoothness constant {lip1} for an equivalent spelling of the measurements (dense / csr / csc / coo / dia / operator) is below the largest Hessian eigenvalue {lam}', 'lipschitz:below-hessian'
        rp = {'request': canon, 'observed': {'loss': loss, 'lipschitz': lip, 'lambda_max': lam, 'groups': {str(k): v for k, v in groups.items()}}}
        rows.append((canon, bad, key, rp, eng, mu, meas, loss, grad, lip))
        eigs = [float(np.linalg.eigvalsh(m['Q'].T @ m['Q']).max()) for m in meas]
        reqs.append({'op': 'loss', 'dom': dom, 'cliques': [list(c) for c in eng.model.cliques],
                     'meas': [{'Q': [[enc_q(int(v)) for v in row] for row in m['Q']], 'y': [enc_q(Fr(float(v))) for v in m['y']],
                               'noise': enc_q(Fr(m['noise']).limit_denominator(1000)), 'proj': m['proj']} for m in meas],
                     'mu': [{'clique': list(cl), 'dom': [[a, sizes[a]] for a in cl], 'vals': [enc_q(int(v)) for v in mu[cl].values.flatten()]} for cl in eng.model.cliques],
                     'eigs': [enc_q(Fr(e).limit_denominator(10**9)) for e in eigs]})
    res.extra['spellings_used'] = dict(SPELLINGS)
    history_loss(res, r, tier)
    l1_stream(res, drv, r, tier)
    resps = drv.run(reqs) if drv else [None] * n
    for (canon, bad, key, rp, eng, mu, meas, loss, grad, lip), resp in zip(rows, resps):
        if bad:
            res.violation('failing-input', bad, dict(rp, expected=bad), key=key)
            continue
        if resp is None:
            continue
        if not resp['ok']:
            res.violation('correspondence', 'driver error ' + resp['err'], dict(rp, stream='C04.loss'))
            continue
        o = resp['out']
        d = None
        if not close(float(dec_q(o['loss'])), loss, 1e-9, 1e-9):
            d = f'loss: model {float(dec_q(o["loss"]))} impl {loss}'
        else:
            for e in o['grad']:
                gi = grad[tuple(e['clique'])]
                if [a for a, _ in e['dom']] != list(gi.domain.attrs):
                    d = f'gradient layout on {e["clique"]}'
                    break
                for k, (mv, iv) in enumerate(zip(e['vals'], gi.values.flatten())):
                    if not close(float(dec_q(mv)), float(iv), 1e-9, 1e-9):
                        d = f'gradient on {e["clique"]} cell {k}: model {float(dec_q(mv))} impl {iv}'
                        break
                if d:
                    break
        if not d and lip is not None and not close(float(dec_q(o['lipschitz'])), lip, 1e-6, 1e-9):
            d = f'lipschitz: model {float(dec_q(o["lipschitz"]))} impl {lip}'
        if d:
            res.violation('correspondence', d + '; the independent checks hold on this input', dict(rp, model=o, stream='C04.loss'))


def spec_loss_of(dom, meas, table):
    out = Fr(0)
    for m in meas:
        x = marg_of_table(dom, table, m['proj'])
        c = 1 / Fr(m['noise'])
        for row, yi in zip(m['Q'], m['y']):
            d_ = c * (sum(Fr(int(q)) * xv for q, xv in zip(row, x)) - Fr(float(yi)))
            out += d_ * d_ / 2
    return out


def history_loss(res, r, tier):
    """the objective after a SECOND setup on one (warm-started or cold) engine is the objective of the second call's measurement list:
    grown lists that change the model cliques, a replaced answer vector, a removed measurement"""
    from mbi import Domain, FactoredInference
    for ci in range(40 if tier == 'quick' else 300):
        dom, meas, table = gen_case(r)
        if len(meas) < 2:
            continue
        k = r.randint(1, len(meas) - 1)
        first = meas[:k]
        mode = r.choice(['grow', 'replace', 'remove', 'grow'])
        if mode == 'grow':
            second = list(meas)
        elif mode == 'replace':
            second = [dict(m, y=m['y'] + float(r.randint(1, 9))) if i == 0 else m for i, m in enumerate(first)] + meas[k:]
        else:
            second = meas[k:] + first[1:]
        warm = r.random() < 0.7
        d = Domain([a for a, _ in dom], [s for _, s in dom])
        eng = FactoredInference(d, iters=1, warm_start=warm)
        canon = {'dom': dom, 'history': mode, 'warm_start': warm, 'first': [m['proj'] for m in first], 'second': [m['proj'] for m in second],
                 'meas': [{'Q': m['Q'].tolist(), 'y': m['y'].tolist(), 'noise': m['noise'], 'proj': m['proj']} for m in second]}
        res.case(canon, True)
        res.count('history: objective after a second setup on one engine')
        try:
            with np.errstate(all='ignore'):
                l1 = [spell(r, m, 0) for m in first]
                eng._setup(eng.fix_measurements(l1), 100.0)
                mu = cliquevec(eng, dom, lambda cl: marg_of_table(dom, table, list(cl)))
                eng._marginal_loss(mu)
                l2 = [next(a for a, mm in zip(l1, first) if mm is m) if any(mm is m for mm in first) else spell(r, m, 0) for m in second]
                eng._setup(eng.fix_measurements(l2), 100.0)
                mu = cliquevec(eng, dom, lambda cl: marg_of_table(dom, table, list(cl)))
                loss, grad = eng._marginal_loss(mu)
        except Exception as e:
            res.violation('failing-input', f'second _setup / _marginal_loss on one engine raises {type(e).__name__}: {str(e)[:100]}', {'request': canon}, key='loss:history-raises')
            continue
        want = float(spec_loss_of(dom, second, table))
        if not close(loss, want, 1e-9, 1e-9):
            res.violation('failing-input', f'after a second setup ({mode}, warm_start={warm}) the engine\'s loss is {loss}, the sum over the second call\'s measurements (each once) is {want}',
                          {'request': canon, 'observed': loss, 'expected': want}, key='loss:history')


def l1_stream(res, drv, r, tier):
    """metric='L1': the loss is the sum over all measurements (each once) of the absolute noise-scaled residuals, the gradient the
    corresponding subgradient c*Q^T sign(diff); exact comparison with the Lean model marginalLossL1 and with the specification"""
    from mbi import Domain, FactoredInference
    n = 40 if tier == 'quick' else 400
    reqs, rows = [], []
    for _ in range(n):
        dom, meas, table = gen_case(r)
        sizes = dict(map(tuple, dom))
        d = Domain([a for a, _ in dom], [s for _, s in dom])
        eng = FactoredInference(d, iters=1, metric='L1')
        with np.errstate(all='ignore'):
            ms = eng.fix_measurements([spell(r, m, r.choice([0, 1])) for m in meas])
            eng._setup(ms, 100.0)
            mu = cliquevec(eng, dom, lambda cl: marg_of_table(dom, table, list(cl)))
            loss, grad = eng._marginal_loss(mu)
            h = cliquevec(eng, dom, lambda cl: [r.randint(-3, 3) for _ in range(math.prod(sizes[a] for a in cl))])
            lh, _ = eng._marginal_loss(mu + h)
            gh = grad.dot(h)
        spec = Fr(0)
        for m in meas:
            x = marg_of_table(dom, table, m['proj'])
            c = 1 / Fr(m['noise'])
            for row, yi in zip(m['Q'], m['y']):
                spec += abs(c * (sum(Fr(int(q)) * xv for q, xv in zip(row, x)) - Fr(float(yi))))
        canon = {'dom': dom, 'metric': 'L1', 'meas': [{'Q': m['Q'].tolist(), 'y': m['y'].tolist(), 'noise': m['noise'], 'proj': m['proj']} for m in meas],
                 'table': [int(v) for v in table.values()]}
        res.case(canon, len(meas) >= 2)
        res.count('metric L1')
        bad = None
        if not close(loss, float(spec), 1e-9, 1e-9):
            bad = f'L1 loss {loss} != sum over measurements (each once) of the absolute scaled residuals {float(spec)}'
        elif lh < loss + gh - 1e-7 * (abs(loss) + abs(gh) + 1):
            bad = f'L1: L(mu+h) = {lh} < L(mu) + <g,h> = {loss + gh}: the returned gradient is not a subgradient of the loss'
        rows.append((canon, bad, loss, grad, eng))
        reqs.append({'op': 'loss', 'l1': True, 'dom': dom, 'cliques': [list(c) for c in eng.model.cliques],
                     'meas': [{'Q': [[enc_q(int(v)) for v in row] for row in m['Q']], 'y': [enc_q(Fr(float(v))) for v in m['y']],
                               'noise': enc_q(Fr(m['noise']).limit_denominator(1000)), 'proj': m['proj']} for m in meas],
                     'mu': [{'clique': list(cl), 'dom': [[a, sizes[a]] for a in cl], 'vals': [enc_q(int(v)) for v in mu[cl].values.flatten()]} for cl in eng.model.cliques],
                     'eigs': [enc_q(1) for _ in meas]})
    resps = drv.run(reqs) if drv else [None] * len(reqs)
    for (canon, bad, loss, grad, eng), resp in zip(rows, resps):
        rp = {'request': canon, 'observed': {'loss': loss}}
        if bad:
            res.violation('failing-input', bad, dict(rp, expected=bad), key='loss:l1')
            continue
        if resp is None:
            continue
        if not resp['ok']:
            res.violation('correspondence', 'driver error ' + resp['err'], dict(rp, stream='C04.l1'))
            continue
        o = resp['out']
        dmsg = None
        if not close(float(dec_q(o['loss'])), loss, 1e-9, 1e-9):
            dmsg = f'L1 loss: model {float(dec_q(o["loss"]))} impl {loss}'
        else:
            for e in o['grad']:
                gi = grad[tuple(e['clique'])]
                for k, (mv, iv) in enumerate(zip(e['vals'], gi.values.flatten())):
                    if not close(float(dec_q(mv)), float(iv), 1e-9, 1e-9):
                        dmsg = f'L1 gradient on {e["clique"]} cell {k}: model {float(dec_q(mv))} impl {iv}'
                        break
                if dmsg:
                    break
        if dmsg:
            res.violation('correspondence', dmsg + '; the independent checks hold on this input', dict(rp, model=o, stream='C04.l1'))


def search(res, tier, seed, broken):
    run(res, None, 'quick', seed + 1)


def replay(res, drv, rp):
    res.case(rp['request'])
    run(res, None, 'quick', rp.get('seed', 0))
