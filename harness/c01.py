"""C01 — exact inference returns the true marginals of the product distribution."""
import math
import numpy as np
from common import Fr, enc_q, dec_q, enc_f, dec_f, close, rng
import gmgen

LEAN_MODULE = 'PGM.Properties.C01'
LEAN_EXTRA = ['PGM.Properties.C01B', 'PGM.Properties.C01G', 'PGM.Properties.C01E']
TRANSLATORS = ('py2gm', 'py2jt', 'py2gminit')      # py2gm: belief_propagation, variable elimination, datavector, mle of graphical_model.py -> Generated/GraphicalModelG.lean (C01G); py2jt: junction_tree.py -> Generated/JunctionTreeG.lean; py2gminit: GraphicalModel.__init__ -> Generated/GraphicalModelInitG.lean (imports both; C01E: gen_exact_inference_end_to_end)
TRUSTED = ['Lean 4.33 kernel', 'axioms: propext, Classical.choice, Quot.sound',
           'hand model PGM/Model/GM.lean (belief_propagation transcribed over the Factor model) tied to src/mbi/graphical_model.py by this correspondence run',
           'junction tree taken from the implementation and validated by the verified checkJT in the same run (C12)',
           'IEEE rounding not modelled: exact stream compared at rel 1e-9; range stream (potentials x 1e3..1e6) compared with the Float instance at 1e-6']
ASSUMPTIONS = ['support of the product is non-empty (Z != 0) for the equality clause; with Z = 0 both model and code yield NaN']
RULE = ('structure classes {chain, star, cycle, grid, disconnected, nested, duplicated, single, 3-cliques, random} on 2-7 attributes of sizes 1-4; '
        'rational potentials incl. zeros (-inf); totals in {1/2,1,10,1e6}; elimination order None / permutation / int; message order permuted to a random '
        'linear extension; non-trivial = tree with >= 2 nodes and at least one zero cell or fill-in; distinct = distinct (structure, potentials, order, schedule)')
EXPLANATION = ('implementation marginals vs (i) the Lean model of belief_propagation over exact rationals and (ii) brute-force marginals of the product; '
               'the model is additionally compared with (ii) exactly')

TOTALS = [Fr(1, 2), Fr(1), Fr(10), Fr(10**6)]


def one_case(r, max_cells):
    dom, cl, kind = gmgen.gen_structure(r, max_cells)
    order = gmgen.gen_order(r, dom)
    total = r.choice(TOTALS)
    return dom, cl, kind, order, total


def run_impl(model, pots, sched, scale=None, offsets=None):
    cv = gmgen.impl_potentials(pots, scale, offsets)
    model.message_order = [(tuple(a), tuple(b)) for a, b in sched]
    with np.errstate(all='ignore'):
        mu = model.belief_propagation(cv)
    return {tuple(cl): (list(mu[cl].domain.attrs), [float(v) for v in mu[cl].values.flatten()]) for cl in mu}


def run(res, drv, tier, seed):
    r = rng(seed, 'C01')
    n = 150 if tier == 'quick' else 1500
    max_cells = 1500 if tier == 'quick' else 4000
    np.random.seed(seed % 2**32)
    cases, reqs = [], []
    for ci in range(n):
        dom, cl, kind, order, total = one_case(r, max_cells)
        form = r.choice(gmgen.ORDER_FORMS) if isinstance(order, list) and r.random() < 0.5 else None
        if ci % 10 == 3:
            # directed: a chordless cycle of 4-6 attributes (fill-in is needed whatever the order) with a GIVEN order in a one-shot spelling
            n_ = r.randint(4, 6)
            A_ = r.sample(gmgen.NAMES, n_)
            dom = [[a, r.choice([2, 2, 3])] for a in A_]
            cl = [r.sample([A_[i], A_[(i + 1) % n_]], 2) for i in range(n_)]
            r.shuffle(cl)
            kind, order = 'cycle', r.sample(A_, n_)
            form = r.choice(['iter', 'generator', 'reversed', 'map'])
        if form:
            res.count('given order passed as ' + form)
        model = gmgen.build_model(dom, cl, float(total), order, form)
        pots = gmgen.gen_potentials(r, model)
        sched = gmgen.random_linear_extension(r, model.message_order)
        shift = None
        if r.random() < 0.3 and pots:
            # constant added to one potential (log space) = rational factor in exp space
            k = r.randrange(len(pots))
            c = r.choice([Fr(3), Fr(1, 7), Fr(1000), Fr(1, 1000)])
            shifted = [(cl_, fd, [v * c for v in vals]) if i == k else (cl_, fd, vals) for i, (cl_, fd, vals) in enumerate(pots)]
            shift = shifted
        impl = run_impl(model, pots, sched)
        impl_shift = run_impl(model, shift, sched) if shift else None
        cases.append((dom, cl, kind, order, total, model, pots, sched, impl, impl_shift))
        reqs.append({'op': 'bp', 'cliques': [list(c) for c in model.cliques], 'order': [[list(a), list(b)] for a, b in sched],
                     'pots': gmgen.enc_pots(pots), 'total': enc_q(total)})
    resps = drv.run(reqs) if drv else [None] * n
    for (dom, cl, kind, order, total, model, pots, sched, impl, impl_shift), q, resp in zip(cases, reqs, resps):
        joint = gmgen.brute_joint(dom, pots)
        nz = sum(1 for _, _, vals in pots for v in vals if v == 0)
        canon = {'dom': dom, 'cliques': cl, 'order': order, 'total': str(total), 'pots': q['pots'], 'sched': q['order']}
        res.case(canon, len(model.cliques) >= 2 and nz > 0,
                 sample={'dom': dom, 'cliques': cl, 'order': order, 'kind': kind, 'tree_nodes': [list(c) for c in model.cliques]} if kind in ('cycle', 'grid') else None)
        res.count('kind:' + kind)
        res.count('order:' + ('none' if order is None else 'int' if isinstance(order, int) else 'perm'))
        if nz:
            res.count('has -inf cells')
        Z = sum(joint.values())
        if Z == 0:
            res.count('empty support (Z=0)')
        bad = None
        tol_abs = 1e-12 * float(total)
        for c in model.cliques:
            attrs_i, vals_i = impl[tuple(c)]
            spec = gmgen.brute_marginal(dom, joint, attrs_i, total)
            if spec is None:
                if not all(math.isnan(v) for v in vals_i):
                    res.count('Z=0 but finite output')
                continue
            for k, (sv, iv) in enumerate(zip(spec, vals_i)):
                if not close(float(sv), iv, 1e-9, tol_abs):
                    bad = f'clique {list(c)} cell {k}: implementation {iv}, marginal of the product {float(sv)}'
                    break
            if bad:
                break
            if impl_shift is not None:
                for k, (a, b) in enumerate(zip(vals_i, impl_shift[tuple(c)][1])):
                    if not close(a, b, 1e-9, tol_abs):
                        bad = f'clique {list(c)} cell {k}: adding a constant to one potential changes the answer {a} -> {b}'
                        break
            if bad:
                break
        rp = {'request': canon, 'observed': {str(k): v for k, v in impl.items()}}
        if bad:
            res.violation('failing-input', 'belief_propagation: ' + bad, dict(rp, expected=bad), key='bp:wrong-marginal')
            continue
        if resp is None:
            continue
        if not resp['ok']:
            res.violation('correspondence', 'driver error ' + resp['err'], dict(rp, stream='C01.bp'))
            continue
        d = None
        for e in resp['out']['marg']:
            c = tuple(e['clique'])
            mattrs = [a for a, _ in e['dom']]
            attrs_i, vals_i = impl[c]
            if mattrs != attrs_i:
                d = f'clique {list(c)}: attribute order model {mattrs} impl {attrs_i}'
                break
            spec = gmgen.brute_marginal(dom, joint, mattrs, total)
            for k, (mv, iv) in enumerate(zip(e['vals'], vals_i)):
                m = dec_q(mv)
                if isinstance(m, float):
                    if not (math.isnan(m) and math.isnan(iv)) and m != iv:
                        d = f'clique {list(c)} cell {k}: model {m} impl {iv}'
                elif not close(float(m), iv, 1e-9, tol_abs):
                    d = f'clique {list(c)} cell {k}: model {m} impl {iv}'
                elif spec is not None and m != spec[k]:
                    d = f'clique {list(c)} cell {k}: MODEL {m} differs from brute-force marginal {spec[k]} (theorem bp_marginals would be false)'
                if d:
                    break
            if d:
                break
        if d:
            res.violation('correspondence', 'belief_propagation: ' + d + '; implementation agrees with the brute-force marginals',
                          dict(rp, model=resp['out'], stream='C01.bp'))
    range_stream(res, drv, tier, seed)
    history_stream(res, tier, seed)


OFFSETS = [30.0, 300.0, 690.0, 700.0, 705.0, 708.0, 709.0, 709.5, 709.7, 710.0, 712.0, 720.0, 744.0, 745.0, 746.0, 800.0, 1e3, 1e4, 1e6]     # beyond 1e6 the addition itself rounds away the potential (ulp(1e9) = 1.2e-7)


def range_stream(res, drv, tier, seed):
    """potentials of huge magnitude: outputs must stay finite and agree with the scale-free answer structure"""
    r = rng(seed, 'C01-range')
    n = 40 if tier == 'quick' else 400
    for _ in range(n):
        dom, cl, kind = gmgen.gen_structure(r, 600)
        model = gmgen.build_model(dom, cl, 10.0, None)
        pots = gmgen.gen_potentials(r, model, zero_p=0.1)
        scale = r.choice([1e3, 1e4, 1e5, 1e6])
        sched = gmgen.random_linear_extension(r, model.message_order)
        impl = run_impl(model, pots, sched, scale)
        canon = {'dom': dom, 'cliques': cl, 'scale': scale, 'pots': gmgen.enc_pots(pots)}
        res.case(canon, True)
        res.count('range stream')
        if sum(gmgen.brute_joint(dom, pots).values()) == 0:
            continue        # the zeros rule out every joint assignment (Z = 0: NaN in code and model alike)
        # the same unit-scale potentials with one constant added per clique, the constants chosen around the edge of the range of
        # exp() (log(DBL_MAX) = 709.78, log(min subnormal) = -745.1) and far outside it: the answer must not change at all
        base = run_impl(model, pots, sched)
        for _ in range(2):
            offs = [r.choice(OFFSETS) * r.choice([1, 1, -1]) + r.choice([0.0, 0.0, r.uniform(-2, 2)]) if r.random() < 0.8 else 0.0 for _ in pots]
            shifted = run_impl(model, pots, sched, None, offs)
            res.count('offset stream')
            for c, (attrs_b, vb) in base.items():
                vs = shifted[c][1]
                if not all(math.isfinite(v) for v in vs) or not all(close(a, b, 1e-7, 1e-9) for a, b in zip(vb, vs)):
                    res.violation('failing-input', f'belief_propagation: adding the constants {offs} to the log-potentials changes the marginal on '
                                  f'{list(c)} from {vb[:6]} to {vs[:6]}', {'request': dict(canon, offsets=offs), 'observed': vs}, key='bp:offset')
                    return
        joint = gmgen.brute_joint(dom, pots)
        if sum(joint.values()) == 0:
            continue
        for c, (attrs_i, vals) in impl.items():
            if not all(math.isfinite(v) for v in vals):
                res.violation('failing-input', f'belief_propagation returns non-finite marginals for potentials of magnitude {scale}',
                              {'request': canon, 'observed': vals}, key='bp:overflow')
                return
            s = sum(vals)
            if not close(s, 10.0, 1e-6, 1e-9):
                res.violation('failing-input', f'marginal on {list(c)} sums to {s}, total is 10 (potentials scaled by {scale})',
                              {'request': canon, 'observed': vals}, key='bp:range-total')
                return
            # support: cells outside the support of the joint's marginal must be 0
            spec = gmgen.brute_marginal(dom, joint, attrs_i, Fr(10))
            for sv, iv in zip(spec, vals):
                if sv == 0 and abs(iv) > 1e-9:
                    res.violation('failing-input', f'mass {iv} on a zero-probability cell (scale {scale})', {'request': canon, 'observed': vals}, key='bp:range-support')
                    return


def history_stream(res, tier, seed):
    """one model object, one parameter container: inference, then the container is changed IN PLACE (a table re-assigned, a table
    updated with +=, cells set to -inf, the total re-assigned), then inference again on the very same container — every call must
    return the marginals of the parameters it is given at that moment"""
    r = rng(seed, 'C01-history')
    for ci in range(20 if tier == 'quick' else 200):
        dom, cl, kind = gmgen.gen_structure(r, 600)
        total = float(r.choice([1, 10, 1000]))
        model = gmgen.build_model(dom, cl, total, None)
        pots = gmgen.gen_potentials(r, model, zero_p=0.05)
        cv = gmgen.impl_potentials(pots)
        cur = [(c, fd, list(v)) for c, fd, v in pots]
        steps = []
        canon = {'dom': dom, 'cliques': cl, 'history': steps, 'pots': gmgen.enc_pots(pots)}
        bad = None
        for step in range(r.randint(2, 4)):
            if step > 0:
                k = r.randrange(len(cur))
                c, fd, vals = cur[k]
                how = r.choice(['assign', 'iadd', 'kill-cell', 'total', 'assign'])
                if how == 'assign':
                    new = gmgen.gen_potentials(r, model, zero_p=0.05)[k][2]
                    cur[k] = (c, fd, list(new))
                    cv[tuple(c)] = gmgen.impl_potentials([cur[k]])[tuple(c)]
                elif how == 'iadd':
                    f = [r.choice([Fr(1, 2), Fr(2), Fr(5), Fr(1)]) for _ in vals]
                    cur[k] = (c, fd, [a * b for a, b in zip(vals, f)])
                    cv[tuple(c)] += gmgen.impl_potentials([(c, fd, f)])[tuple(c)]
                elif how == 'kill-cell':
                    j = r.randrange(len(vals))
                    if sum(1 for v in vals if v > 0) > 1:
                        vals = list(vals); vals[j] = Fr(0)
                        cur[k] = (c, fd, vals)
                        cv[tuple(c)].values.reshape(-1)[j] = -np.inf
                else:
                    total = float(r.choice([2, 50, 12345]))
                    model.total = total
                steps.append([how, list(c)])
            joint = gmgen.brute_joint(dom, cur)
            if sum(joint.values()) == 0:
                break
            with np.errstate(all='ignore'):
                mu = model.belief_propagation(cv)
            for c in model.cliques:
                attrs_i = list(mu[c].domain.attrs)
                spec = gmgen.brute_marginal(dom, joint, attrs_i, Fr(total))
                got = [float(v) for v in mu[c].values.flatten()]
                for kk, (sv, iv) in enumerate(zip(spec, got)):
                    if not close(float(sv), iv, 1e-9, 1e-12 * total):
                        bad = (f'call {step + 1} on one model / one parameter container after in-place changes {steps}: clique {list(c)} cell {kk}: '
                               f'implementation {iv}, marginal of the product of the CURRENT potentials {float(sv)}')
                        break
                if bad:
                    break
            if bad:
                break
        res.case(canon, len(steps) >= 1)
        res.count('history: inference repeated on one container after in-place changes')
        if bad:
            res.violation('failing-input', 'belief_propagation: ' + bad, {'request': canon, 'expected': bad}, key='bp:history')


def search(res, tier, seed, broken):
    run(res, None, 'quick', seed + 1)


def replay(res, drv, rp):
    q = rp['request']
    if 'history' in q:
        res.case(q)
        history_stream(res, 'quick', rp.get('seed', 0))
        return
    dom, cl, order = q['dom'], q['cliques'], q['order']
    total = Fr(q['total'])
    np.random.seed(rp.get('seed', 0) % 2**32)
    model = gmgen.build_model(dom, cl, float(total), order)
    pots = [(e['clique'], e['dom'], [Fr(v) for v in e['vals']]) for e in q['pots']]
    impl = run_impl(model, pots, [(tuple(a), tuple(b)) for a, b in q['sched']] if set(map(lambda m: (tuple(m[0]), tuple(m[1])), q['sched'])) == set(model.message_order) else model.message_order)
    joint = gmgen.brute_joint(dom, pots)
    res.case(q)
    for c, (attrs_i, vals_i) in impl.items():
        spec = gmgen.brute_marginal(dom, joint, attrs_i, total)
        if spec is None:
            continue
        for k, (sv, iv) in enumerate(zip(spec, vals_i)):
            if not close(float(sv), iv, 1e-9, 1e-12 * float(total)):
                res.violation('failing-input', f'belief_propagation: clique {list(c)} cell {k}: implementation {iv}, marginal of the product {float(sv)}',
                              {'request': q}, key='bp:wrong-marginal')
                return
