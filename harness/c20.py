"""C20 — selection and noise primitives are exactly calibrated."""
import math
import numpy as np
from common import enc_f, dec_f, close, rng
import mechs

LEAN_MODULE = 'PGM.Properties.C20'
NEEDS_GENERATED = True
LEAN_EXTRA = ['PGM.Properties.C05S']
TRANSLATORS = ('py2lean', 'py2flow', 'py2sel')   # py2sel: exponential_mechanism of mechanism.py / mst.py / adaptive_grid.py and the selection of mwem+pgm.py translated whole -> Generated/SelectG.lean (closed forms gen_mech_em_*, gen_mst_em, gen_ada_em, gen_mwem_worst_approximated in C05S)
TRUSTED = ['Lean 4.33 kernel', 'axioms: propext, Classical.choice, Quot.sound',
           'tools/py2lean.py slices (coefficient / scale expressions), validated per run by running the generated Float expressions against the probability vectors and scales the real primitives hand to their samplers',
           'numpy samplers (choice / normal / laplace) draw from the distribution with the parameters they are given: trusted, not modelled',
           'autodp.privacy_calibrator is absent: the analytic Gaussian sigma is a parameter (stubbed), the helper\'s multiplier is what is checked']
ASSUMPTIONS = ['permute_and_flip is a different selection rule by design and is outside the proportional-to-exp clause']
RULE = ('quality vectors of length 1-12 as arrays or dicts, with ties, constants added, magnitudes up to 1e6, eps in [1e-3,50], sensitivity in {0.5,1,2,7}, '
        'optional positive base measures, for the primitives of mechanism.py (incl. generalized), mst.py, adaptive_grid.py (both variants), mwem+pgm.py (both adjacencies); '
        'non-trivial = at least two distinct qualities; distinct = distinct (primitive, inputs)')
EXPLANATION = ('the probability vector each primitive passes to the sampler is captured and compared (1e-12) with the closed form b_i exp(eps q_i/(2 Delta))/sum and with the '
               'generated Float expressions; shift invariance and huge magnitudes are exercised; scale helpers and sampler pass-through likewise')


def closed_form(q, eps, sens, base=None, mono=False):
    q = np.asarray(q, dtype=float)
    c = (1.0 if mono else 0.5) * eps / sens
    s = c * (q - q.max())
    if base is not None:
        s = s + np.log(np.asarray(base, dtype=float))
    s = s - s.max()
    w = np.exp(s)
    return w / w.sum()


def gen_q(r, huge=False):
    n = r.randint(1, 12)
    if huge:
        # a huge common offset with small exactly representable gaps (adding a constant must not change the distribution), or
        # qualities near the top of the double range (selection must stay well defined)
        if r.random() < 0.7:
            K = r.choice([2.0 ** 40, -2.0 ** 44, 2.0 ** 50, 2.0 ** 52])
            return [K + float(r.randint(0, 6)) for _ in range(n)]
        return [r.choice([1.0, 0.5, 0.25, -1.0]) * 1e308 for _ in range(n)]
    mag = r.choice([1, 1, 10, 1e3, 1e6])
    q = [r.choice([0, 1, 2, 3, -1, 0.5]) * mag if r.random() < 0.5 else r.uniform(-1, 1) * mag for _ in range(n)]
    if n > 1 and r.random() < 0.3:
        q[1] = q[0]
    return q


def run(res, drv, tier, seed):
    r = rng(seed, 'C20')
    n = 300 if tier == 'quick' else 3000
    M = mechs.load('mechanism')
    mst = mechs.load('mst')
    ada = mechs.load('adagrid')
    mw = mechs.load('mwem')
    from mbi import Domain, GraphicalModel, CliqueVector, Factor
    reqs, rows = [], []
    for _ in range(n):
        prim = r.choice(['mech', 'mech-dict', 'mech-base', 'gem', 'mst', 'mst-mono', 'ada', 'ada-mono', 'mwem', 'mwem-bounded'])
        q = gen_q(r, huge=(prim in ('mech', 'mech-dict', 'mech-base', 'mst', 'ada') and r.random() < 0.15))
        eps = math.exp(r.uniform(math.log(1e-3), math.log(50)))
        sens = r.choice([0.5, 1.0, 2.0, 7.0])
        shift = r.choice([0.0, 0.0, 5.0, -1e3, 1e5])
        fake = mechs.FakePrng()
        base = None
        want_sens, mono, bounded = sens, False, False
        try:
            if prim.startswith('mech') or prim == 'gem':
                mech = M.Mechanism(1.0, 0.0, False, prng=fake)
                if prim == 'mech':
                    # a float64 array (or a basic-slice view of one) that the caller keeps and selects from again: the LAST draw is the
                    # one compared with the definition below, and the caller's scores must be left alone
                    if r.random() < 0.5:
                        big = np.zeros(len(q) + 2, dtype=np.float64)
                        big[1:-1] = q
                        arr = big[1:-1]
                    else:
                        arr = np.array(q, dtype=np.float64)
                    keep = arr.copy()
                    for _k in range(r.choice([1, 2, 3])):
                        mech.exponential_mechanism(arr, eps, sens)
                    if not np.array_equal(arr, keep):
                        res.violation('failing-input', f'{prim}: the caller\'s quality vector was modified by the draw ({keep[:4]} -> {arr[:4]}); a repeated draw is mis-calibrated',
                                      {'request': {'prim': prim, 'q': q, 'eps': eps, 'sens': sens}}, key='em:mutates-input')
                        continue
                elif prim == 'mech-dict':
                    keys = [f'k{i}' for i in range(len(q))]
                    got_key = mech.exponential_mechanism(dict(zip(keys, q)), eps, sens)
                    if got_key != keys[0]:
                        res.violation('failing-input', f'dict form returns key {got_key} for chosen index 0', {'request': {'prim': prim, 'q': q}}, key='em:keys')
                elif prim == 'mech-base':
                    keys = [f'k{i}' for i in range(len(q))]
                    base = [r.choice([0.5, 1, 2, 3, 10]) for _ in q]
                    # the base measure is a dict keyed by candidate: its insertion order need not match, and it may cover more keys
                    items = list(zip(keys, base))
                    r.shuffle(items)
                    if r.random() < 0.3:
                        items.insert(r.randrange(len(items) + 1), ('unused-key', 7.0))
                    mech.exponential_mechanism(dict(zip(keys, q)), eps, sens, base_measure=dict(items))
                else:
                    # generalized EM: scores are its own; what is checked is that they are handed on with sensitivity 1
                    ds = [r.choice([1.0, 2.0, 3.0]) for _ in q]
                    mech.generalized_exponential_mechanism(np.array(q), np.array(ds), eps)
                    scores = M.generalized_em_scores(np.array(q), np.array(ds), 2 * np.log(len(q) / 0.5) / eps)
                    q, want_sens = list(scores), 1.0
            elif prim.startswith('mst') or prim.startswith('ada'):
                mono = prim.endswith('mono')
                modl = mst if prim.startswith('mst') else ada
                arr = np.array(q, dtype=np.float64)
                keep = arr.copy()
                if not mono and r.random() < 0.5:
                    modl.exponential_mechanism(arr, eps, sens, fake)        # the generator passed positionally (fourth parameter)
                    res.count('own primitives: prng passed positionally')
                    first = [c for c in fake.calls if c[0] == 'choice']
                    want1 = closed_form(q, eps, sens, None, False)
                    if len(first) != 1 or first[0][2] is None or len(first[0][2]) != len(want1) or any(not close(a_, b_, 1e-9, 1e-15) for a_, b_ in zip(first[0][2], want1)):
                        res.violation('failing-input', f'{prim}: exponential_mechanism(q, eps, sensitivity, prng) with the generator passed positionally does not draw from it with '
                                      f'probabilities proportional to exp(eps*q/(2*sensitivity)) (calls seen by the generator: {[c[2] for c in first][:1]}, calibrated {list(want1)[:4]})',
                                      {'request': {'prim': prim, 'q': q, 'eps': eps, 'sens': sens, 'positional_prng': True}}, key='em:positional-prng')
                        continue
                else:
                    modl.exponential_mechanism(arr, eps, sens, prng=fake, monotonic=mono)
                # a second draw from the same score vector must see the same scores
                modl.exponential_mechanism(arr, eps, sens, prng=fake, monotonic=mono)
                if not np.array_equal(arr, keep):
                    res.violation('failing-input', f'{prim}: the caller\'s quality vector was modified by the draw ({keep[:4]} -> {arr[:4]}); a repeated draw is mis-calibrated',
                                  {'request': {'prim': prim, 'q': q, 'eps': eps, 'sens': sens}}, key='em:mutates-input')
                    continue
            else:
                bounded = prim.endswith('bounded')
                # worst_approximated computes its own errors from a model; use a trivial model whose answers are 0-vectors
                k = len(q)
                dom = Domain([f'a{i}' for i in range(k)], [2] * k)
                est = GraphicalModel(dom, [(a,) for a in dom.attrs], total=0.0)
                est.potentials = CliqueVector.zeros(dom, est.cliques)
                est.total = 1e-300
                answers = {}
                for a, qi in zip(dom.attrs, q):
                    answers[(a,)] = np.array([abs(qi), 0.0])
                saved = np.random.choice
                np.random.choice = lambda a, size=None, replace=True, p=None: fake.choice(a, size, replace, p)
                # the candidate list is the caller's workload: a clique listed k times is k candidates (a workload weighted by repetition)
                cand = list(range(k))
                if k and r.random() < 0.4:
                    cand += [r.randrange(k) for _ in range(r.randint(1, 3))]
                    r.shuffle(cand)
                    res.count('mwem: candidate list with a repeated clique')
                try:
                    with np.errstate(all='ignore'):
                        mw.worst_approximated(answers, est, [(dom.attrs[i],) for i in cand], eps, penalty=False, bounded=bounded)
                finally:
                    np.random.choice = saved
                q = [abs(q[i]) for i in cand]
                want_sens = 2.0 if bounded else 1.0
        except Exception as e:
            res.violation('failing-input', f'{prim} raises {type(e).__name__}: {e}', {'request': {'prim': prim, 'q': q, 'eps': eps, 'sens': sens}}, key='em:raises')
            continue
        call = [c for c in fake.calls if c[0] == 'choice']
        canon = {'prim': prim, 'q': q, 'eps': eps, 'sens': want_sens, 'base': base}
        res.case(canon, len(set(q)) >= 2, sample=canon if len(q) <= 4 and len(set(q)) >= 2 else None)
        res.count('prim:' + prim)
        if max(abs(x) for x in q) >= 1e5:
            res.count('magnitude>=1e5')
        if not call or call[-1][2] is None:
            res.violation('failing-input', f'{prim}: sampler not called with a probability vector', {'request': canon}, key='em:nop')
            continue
        p = call[-1][2]
        want = closed_form(q, eps, want_sens, base, mono)
        bad = None
        if len(p) != len(want):
            bad = f'{len(p)} probabilities for {len(want)} candidates'
        elif not all(math.isfinite(x) and x >= 0 for x in p) or not close(sum(p), 1.0, 1e-9, 0):
            bad = f'probability vector not finite / not normalised: {p}'
        else:
            for i, (a, b) in enumerate(zip(p, want)):
                if not close(a, b, 1e-9, 1e-15):
                    bad = f'candidate {i}: probability {a}, calibrated value {b}'
                    break
        rows.append((canon, p, bad))
        dk = {'mech': 'mech', 'mech-dict': 'mech', 'mech-base': 'mech', 'gem': 'mech', 'mst': 'mst', 'mst-mono': 'mst', 'ada': 'ada', 'ada-mono': 'ada',
              'mwem': 'mwem', 'mwem-bounded': 'mwem'}[prim]
        reqs.append({'op': 'em', 'prim': dk, 'q': [enc_f(x) for x in q], 'eps': enc_f(eps), 'sens': enc_f(want_sens if dk != 'mwem' else 1.0),
                     'monotonic': mono, 'bounded': bounded, 'base': None if base is None else [enc_f(b) for b in base]})
    resps = drv.run(reqs) if drv else [None] * len(reqs)
    for (canon, p, bad), resp in zip(rows, resps):
        if bad:
            res.violation('failing-input', f'{canon["prim"]}: {bad}', {'request': canon, 'observed': p, 'expected': bad}, key='em:probability:' + canon['prim'].split('-')[0])
            continue
        if resp is None:
            continue
        if not resp['ok']:
            res.violation('correspondence', 'driver error ' + resp['err'], {'request': canon, 'stream': 'C20.em'})
            continue
        mp = [dec_f(x) for x in resp['out']['p']]
        for i, (a, b) in enumerate(zip(p, mp)):
            if not close(a, b, 1e-9, 1e-15):
                res.violation('correspondence', f'{canon["prim"]}: candidate {i}: implementation {a}, generated model {b}; the closed form agrees with the implementation',
                              {'request': canon, 'observed': p, 'model': mp, 'stream': 'C20.em'})
                break
    scales(res, drv, r, M, tier)


def scales(res, drv, r, M, tier):
    for _ in range(20 if tier == 'quick' else 200):
        bounded = r.random() < 0.5
        d1, d2 = r.choice([0.5, 1.0, 2.0, 3.0]), r.choice([0.5, 1.0, 1.414, 3.0])
        eps, delta = math.exp(r.uniform(-3, 3)), 10 ** r.uniform(-9, -2)
        fake = mechs.FakePrng()
        late = r.random() < 0.4
        if late:
            # the adjacency notion is an attribute of the object: assigned after construction (a subclass setting it after super().__init__,
            # or a caller switching it) it must govern the helpers from then on
            mech = M.Mechanism(1.0, 0.0, not bounded, prng=fake)
            mech.bounded = bounded
            res.count('scale helpers: adjacency assigned after construction')
        else:
            mech = M.Mechanism(1.0, 0.0, bounded, prng=fake)
        import autodp.privacy_calibrator as pc
        sig_ana = pc.ana_gaussian_mech(eps, delta)['sigma']
        b = mech.laplace_noise_scale(d1, eps)
        s = mech.gaussian_noise_scale(d2, eps, delta)
        mech.gaussian_noise(s, 3)
        mech.laplace_noise(b, 2)
        canon = {'bounded': bounded, 'l1': d1, 'l2': d2, 'eps': eps, 'delta': delta}
        res.case(canon, True)
        res.count('scale helpers')
        f = 2.0 if bounded else 1.0
        bad = None
        if not close(b, f * d1 / eps, 1e-12, 0):
            bad = f'laplace_noise_scale = {b}, expected {f * d1 / eps}'
        elif not close(s, f * d2 * sig_ana, 1e-12, 0):
            bad = f'gaussian_noise_scale = {s}, expected {f * d2 * sig_ana}'
        elif fake.calls[0][:3] != ('normal', 0.0, float(s)) or fake.calls[1][:3] != ('laplace', 0.0, float(b)):
            bad = f'samplers called with {fake.calls}, expected scales {s} and {b}'
        else:
            fn = mech.best_noise_distribution(d1, d2, eps, delta)
            fake.calls.clear()
            fn(4)
            kind, _, sc, _ = fake.calls[0]
            lap_std, gau_std = math.sqrt(2) * b, s
            want = ('laplace', b) if lap_std < gau_std else ('normal', s)
            if (kind, sc) != (want[0], float(want[1])):
                bad = f'best_noise_distribution picks {kind} scale {sc}; smaller std is {want}'
        if not bad:
            # a second mechanism object with the OTHER adjacency notion asks for the same scales in the same process
            mech2 = M.Mechanism(1.0, 0.0, not bounded, prng=mechs.FakePrng())
            f2 = 1.0 if bounded else 2.0
            b2, s2 = mech2.laplace_noise_scale(d1, eps), mech2.gaussian_noise_scale(d2, eps, delta)
            b3, s3 = mech.laplace_noise_scale(d1, eps), mech.gaussian_noise_scale(d2, eps, delta)
            if not close(b2, f2 * d1 / eps, 1e-12, 0) or not close(s2, f2 * d2 * sig_ana, 1e-12, 0):
                bad = (f'a second mechanism with bounded={not bounded} asking for the same scales after one with bounded={bounded}: laplace {b2} (expected {f2 * d1 / eps}), '
                       f'gaussian {s2} (expected {f2 * d2 * sig_ana})')
            elif not close(b3, b, 1e-12, 0) or not close(s3, s, 1e-12, 0):
                bad = f'the first mechanism asked again after the second one: laplace {b3} (was {b}), gaussian {s3} (was {s})'
        if bad:
            res.violation('failing-input', bad, {'request': canon, 'expected': bad}, key='scale:helpers')
            continue
        if drv:
            o = drv.run([{'op': 'scale', 'fn': 'laplace_scale', 'a': enc_f(d1), 'b': enc_f(eps), 'bounded': bounded},
                         {'op': 'scale', 'fn': 'gaussian_scale', 'a': enc_f(d2), 'b': enc_f(sig_ana), 'bounded': bounded}])
            if not close(dec_f(o[0]['out']['val']), b, 1e-12, 0) or not close(dec_f(o[1]['out']['val']), s, 1e-12, 0):
                res.violation('correspondence', f'scale helpers: generated {dec_f(o[0]["out"]["val"])}, {dec_f(o[1]["out"]["val"])} vs implementation {b}, {s}',
                              {'request': canon, 'stream': 'C20.scale'})


def search(res, tier, seed, broken):
    run(res, None, 'quick', seed + 1)


def replay(res, drv, rp):
    res.case(rp['request'])
    run(res, None, 'quick', rp.get('seed', 0))
