"""shared generators / runners for the estimation properties (C03, C08, C10, C13)."""
import contextlib, io, itertools, math
import numpy as np
from common import Fr, enc_f

NAMES = ['a', 'b', 'c', 'd', 'e']


def gen_problem(r, max_cells=200, with_zeros=None, nmeas=None):
    while True:
        n = r.randint(2, 4)
        attrs = r.sample(NAMES, n)
        dom = [[a, r.choice([2, 2, 3, 3, 4])] for a in attrs]
        if math.prod(s for _, s in dom) <= max_cells:
            break
    sizes = dict(map(tuple, dom))
    N = r.choice([10, 50, 200])
    table = {x: 0 for x in itertools.product(*[range(s) for _, s in dom])}
    cells = list(table)
    for _ in range(N):
        table[r.choice(cells[: max(2, len(cells) // 2)])] += 1
    zeros = {}
    if with_zeros is None:
        with_zeros = r.random() < 0.5
    if with_zeros:
        for _ in range(r.randint(1, 2)):
            zc = r.sample(attrs, r.randint(1, min(2, n)))
            allc = list(itertools.product(*[range(sizes[a]) for a in zc]))
            k = r.randint(1, max(1, len(allc) // 2))
            zeros[tuple(zc)] = r.sample(allc, min(k, len(allc) - 1))
        if r.random() < 0.2:
            # a zero specification built programmatically may declare NOTHING for a group: an empty list of cells is a legal value
            zc = tuple(r.sample(attrs, r.randint(1, min(2, n))))
            if zc not in zeros:
                zeros[zc] = []
        # true table respects the zeros
        for x in list(table):
            for zc, zs in zeros.items():
                idx = tuple(x[attrs.index(a)] for a in zc)
                if idx in zs:
                    table[x] = 0
        if sum(table.values()) == 0:
            ok = [x for x in table if all(tuple(x[attrs.index(a)] for a in zc) not in zs for zc, zs in zeros.items())]
            if not ok:
                zeros = {}
                ok = list(table)
            table[ok[0]] = N
    meas = []
    k = nmeas if nmeas is not None else r.choice([0, 1, 2, 3, 4])
    for _ in range(k):
        proj = r.sample(attrs, r.randint(1, min(2, n)))
        p = math.prod(sizes[a] for a in proj)
        kind = r.choice(['identity', 'identity', 'int', 'prefix', 'diag'])
        if kind == 'identity':
            Q = np.eye(p)
        elif kind == 'diag':
            # a weighted identity (what MST's compressed domains measure): diagonal, not the identity
            Q = np.diag([float(r.choice([0.5, 2.0, 3.0, 4.0])) for _ in range(p)]) if r.random() < 0.5 else float(r.choice([0.25, 2.0, 4.0])) * np.eye(p)
        elif kind == 'int':
            Q = np.array([[r.randint(-1, 2) for _ in range(p)] for _ in range(r.randint(1, p))], dtype=float)
            if not Q.any():
                Q[0, 0] = 1.0   # an all-zero query matrix is not a measurement (eigsh rejects it)
        else:
            Q = np.tril(np.ones((p, p)))
        pos = [attrs.index(a) for a in proj]
        acc = {}
        for x, v in table.items():
            kx = tuple(x[i] for i in pos)
            acc[kx] = acc.get(kx, 0) + v
        xv = np.array([acc.get(c, 0) for c in itertools.product(*[range(sizes[a]) for a in proj])], dtype=float)
        noise = r.choice([0.5, 1.0, 3.0])
        y = Q @ xv + np.array([r.gauss(0, noise) for _ in range(Q.shape[0])])
        meas.append({'Q': Q, 'y': y, 'noise': noise, 'proj': proj})
    return {'dom': dom, 'meas': meas, 'zeros': zeros, 'N': sum(table.values()), 'table': table}


def gen_tree_problem(r, kill_value=False, scatter=False):
    """pairwise identity measurements along a random tree over 4-5 shuffled attributes (the sorted clique order is then usually not a
    running-intersection order); with kill_value, structural zeros that rule out one value of a separator attribute completely"""
    k = r.choice([4, 5])
    names = ['a', 'b', 'c', 'd', 'e'][:k]
    r.shuffle(names)
    dom = [[a, r.choice([2, 2, 3])] for a in names]
    sizes = dict(map(tuple, dom))
    attrs = [a for a, _ in dom]
    nodes = attrs[:]
    r.shuffle(nodes)
    edges = []
    for i in range(1, k):
        j = r.randrange(i) if r.random() < 0.5 else i - 1
        e = [nodes[j], nodes[i]]
        if r.random() < 0.5:
            e.reverse()
        edges.append(e)
    r.shuffle(edges)
    N = r.choice([50, 200])
    table = {x: 0 for x in itertools.product(*[range(s) for _, s in dom])}
    cells = list(table)
    for _ in range(N):
        table[r.choice(cells[: max(2, len(cells) // 2)])] += 1
    zeros = {}
    if kill_value:
        deg = {a: sum(a in e for e in edges) for a in attrs}
        seps = [a for a in attrs if deg[a] >= 2]
        a = r.choice(seps)
        v = r.randrange(sizes[a])
        # the same value is ruled out on two cliques around the separator: whichever is the root of the junction tree, the other one
        # sends a message with a whole -inf slice and receives one back
        for e in r.sample([e for e in edges if a in e], 2):
            other = e[0] if e[1] == a else e[1]
            zc = (a, other) if r.random() < 0.5 else (other, a)
            zeros[zc] = [((v, w) if zc[0] == a else (w, v)) for w in range(sizes[other])]
        for x in list(table):
            if x[attrs.index(a)] == v:
                table[x] = 0
        if sum(table.values()) == 0:
            ok = [x for x in table if x[attrs.index(a)] != v]
            table[ok[0]] = N
    if scatter:
        # a few impossible cells on one or two measured pairs (any position in the tree: leaf or inner clique)
        for e in r.sample(edges, min(len(edges), r.randint(1, 2))):
            zc = tuple(e) if r.random() < 0.5 else tuple(reversed(e))
            allc = list(itertools.product(*[range(sizes[a]) for a in zc]))
            zeros[zc] = r.sample(allc, r.randint(1, max(1, len(allc) // 2)))
        for x in list(table):
            if any(tuple(x[attrs.index(a)] for a in zc) in zs for zc, zs in zeros.items()):
                table[x] = 0
        if sum(table.values()) == 0:
            ok = [x for x in table if all(tuple(x[attrs.index(a)] for a in zc) not in zs for zc, zs in zeros.items())]
            if ok:
                table[ok[0]] = N
            else:
                zeros = {}
                table[cells[0]] = N
    meas = []
    for proj in edges:
        p = math.prod(sizes[a] for a in proj)
        pos = [attrs.index(a) for a in proj]
        acc = {}
        for x, v in table.items():
            kx = tuple(x[j] for j in pos)
            acc[kx] = acc.get(kx, 0) + v
        xv = np.array([acc.get(c, 0) for c in itertools.product(*[range(sizes[a]) for a in proj])], dtype=float)
        noise = r.choice([0.5, 1.0, 3.0])
        y = xv + np.array([r.gauss(0, noise) for _ in range(p)])
        meas.append({'Q': np.eye(p), 'y': y, 'noise': noise, 'proj': proj})
    return {'dom': dom, 'meas': meas, 'zeros': zeros, 'N': sum(table.values()), 'table': table}


def gen_cycle_problem(r, k=5, noise_choices=(0.5, 1.0, 3.0)):
    """pairwise measurements around a chordless cycle of k binary/ternary attributes (k >= 5 needs a fill-in edge that itself
    triggers a further fill-in when the attribute graph is triangulated)"""
    names = ['a', 'b', 'c', 'd', 'e', 'f', 'g'][:k]
    r.shuffle(names)
    dom = [[a, 2] for a in names]
    if k <= 5:
        dom[r.randrange(k)][1] = 3
    sizes = dict(map(tuple, dom))
    attrs = [a for a, _ in dom]
    N = r.choice([50, 200])
    table = {x: 0 for x in itertools.product(*[range(s) for _, s in dom])}
    cells = list(table)
    for _ in range(N):
        table[r.choice(cells[: max(2, len(cells) // 3)])] += 1
    order = attrs[:]
    r.shuffle(order)
    meas = []
    for i in range(k):
        proj = [order[i], order[(i + 1) % k]]
        if r.random() < 0.5:
            proj.reverse()
        p = math.prod(sizes[a] for a in proj)
        Q = np.eye(p)
        pos = [attrs.index(a) for a in proj]
        acc = {}
        for x, v in table.items():
            kx = tuple(x[j] for j in pos)
            acc[kx] = acc.get(kx, 0) + v
        xv = np.array([acc.get(c, 0) for c in itertools.product(*[range(sizes[a]) for a in proj])], dtype=float)
        noise = r.choice(list(noise_choices))
        # large, cyclically inconsistent perturbations: a locally consistent but globally unrealisable fit would score better than any table
        y = Q @ xv + np.array([r.gauss(0, 0.15 * N) for _ in range(Q.shape[0])])
        meas.append({'Q': Q, 'y': y, 'noise': noise, 'proj': proj})
    return {'dom': dom, 'meas': meas, 'zeros': {}, 'N': N, 'table': table}


def to_measurements(meas):
    return [(m['Q'], m['y'], m['noise'], tuple(m['proj'])) for m in meas]


SPELLED = {}


def spell_measurements(meas):
    """the same measurements in the spellings a caller may use: dense / csr / csc / coo / dia / LinearOperator query, an omitted query for
    the identity, an integer-typed array for a query with integer entries; the choice is a function of the measurement's content, so a
    replay spells it the same way without consuming random numbers"""
    import hashlib
    from scipy import sparse
    from scipy.sparse.linalg import aslinearoperator
    out = []
    for m in meas:
        Q = np.asarray(m['Q'], dtype=float)
        h = int(hashlib.sha256(Q.tobytes() + repr((m['proj'], m['noise'], Q.shape)).encode()).hexdigest()[:8], 16)
        forms = ['dense', 'dense', 'csr', 'csc', 'coo', 'dia', 'op']
        if Q.shape[0] == Q.shape[1] and np.array_equal(Q, np.eye(Q.shape[0])):
            forms += ['none', 'none']
        if np.array_equal(Q, np.round(Q)):
            forms += ['int']
        f = forms[h % len(forms)]
        SPELLED[f] = SPELLED.get(f, 0) + 1
        Qs = {'dense': lambda: Q, 'csr': lambda: sparse.csr_matrix(Q), 'csc': lambda: sparse.csc_matrix(Q), 'coo': lambda: sparse.coo_matrix(Q),
              'dia': lambda: sparse.dia_matrix(Q), 'op': lambda: aslinearoperator(sparse.csr_matrix(Q)), 'none': lambda: None,
              'int': lambda: Q.astype(int)}[f]()
        out.append((Qs, m['y'], m['noise'], tuple(m['proj'])))
    return out


def make_engine(dom, zeros=None, iters=100, warm_start=False, **kw):
    from mbi import Domain, FactoredInference
    d = Domain([a for a, _ in dom], [s for _, s in dom])
    return FactoredInference(d, structural_zeros=dict(zeros or {}), iters=iters, warm_start=warm_start, **kw)


def estimate(eng, meas, total, engine):
    with contextlib.redirect_stdout(io.StringIO()), np.errstate(all='ignore'):
        return eng.estimate(spell_measurements(meas), total=total, engine=engine, options={})


def canon_problem(p):
    return {'dom': p['dom'], 'zeros': {','.join(k): [list(c) for c in v] for k, v in p['zeros'].items()},
            'meas': [{'Q': m['Q'].tolist(), 'y': m['y'].tolist(), 'noise': m['noise'], 'proj': m['proj']} for m in p['meas']]}


def enc_meas_f(meas):
    return [{'Q': [[enc_f(v) for v in row] for row in m['Q']], 'y': [enc_f(v) for v in m['y']], 'noise': enc_f(m['noise']), 'proj': m['proj']} for m in meas]


def enc_cv_f(cv, domain):
    return [{'clique': list(cl), 'dom': [[a, domain[a]] for a in cv[cl].domain.attrs], 'vals': [enc_f(v) for v in np.asarray(cv[cl].values).flatten()]} for cl in cv]


def declared_zero_mask(attrs_out, sizes, zeros):
    """boolean list over the cells of attrs_out: True where the cell extends a declared zero cell
    (only zero specs whose attributes are all inside attrs_out)"""
    mask = []
    for c in itertools.product(*[range(sizes[a]) for a in attrs_out]):
        hit = False
        for zc, zs in zeros.items():
            if set(zc) <= set(attrs_out):
                idx = tuple(c[attrs_out.index(a)] for a in zc)
                if idx in [tuple(z) for z in zs]:
                    hit = True
        mask.append(hit)
    return mask
