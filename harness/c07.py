"""C07 — zCDP <-> (eps, delta) conversions: translator validation + the property's clauses."""
import math
from common import enc_f, dec_f, close, rng

LEAN_MODULE = 'PGM.Properties.C07'
NEEDS_GENERATED = True
TRUSTED = ['Lean 4.33 kernel', 'axioms: propext, Classical.choice, Quot.sound',
           'tools/py2lean.py (translator; validated per run by executing the generated Float functions against mechanisms/cdp2adp.py)',
           'theorems are over the real-number reading of the program (IEEE rounding not modelled, except the bisection invariants which are arithmetic-free)',
           'Canonne-Kamath-Steinke Prop. 12 (every Renyi order alpha>1 gives a valid delta) is a hypothesis of cdp_delta_ge_exact, cited not proved; additionally tested against erfc']
ASSUMPTIONS = ['math.log1p(x) read as log(1+x) over the reals']
RULE = ('log-grids over rho in [1e-6,1e2], eps in [1e-3,1e2], delta in [1e-15,0.5] plus seeded random points; '
        'each point evaluates the generated Float function and the Python original; non-trivial = delta value strictly between 0 and 1 '
        '(the alpha search is exercised, not a saturated/degenerate branch); distinct = distinct (function, arguments)')
EXPLANATION = ('generated Lean (Float) vs Python on the grid (rel 1e-9) validates the translator; the clauses soundness, '
               'dominance over the exact Gaussian delta (erfc), optimality over an alpha grid, monotonicity and round trips are '
               'evaluated on the implementation directly')


def logspace(lo, hi, n):
    return [math.exp(math.log(lo) + (math.log(hi) - math.log(lo)) * i / (n - 1)) for i in range(n)]


def Phi(x):
    return 0.5 * math.erfc(-x / math.sqrt(2))


def exact_gauss_delta(rho, eps):
    """exact delta of the Gaussian mechanism with rho-zCDP (mu = sqrt(2 rho)) [Balle-Wang]"""
    mu = math.sqrt(2 * rho)
    a = Phi(-eps / mu + mu / 2)
    t = -eps / mu - mu / 2
    # e^eps * Phi(t) computed in log space to avoid overflow
    if t < -35:
        lb = -t * t / 2 - math.log(-t) - 0.5 * math.log(2 * math.pi) + eps
        b = math.exp(lb) if lb < 700 else math.inf
    else:
        b = math.exp(eps) * Phi(t) if eps < 700 else math.inf
    return max(0.0, a - b)


def renyi_bound(rho, eps, alpha):
    ex = (alpha - 1) * (alpha * rho - eps) + alpha * math.log1p(-1 / alpha)
    if ex > 700:
        return math.inf
    return math.exp(ex) / (alpha - 1.0)


def run(res, drv, tier, seed):
    from mechanisms import cdp2adp as C
    r = rng(seed, 'C07')
    ng = 25 if tier == 'quick' else 60
    nb = 30 if tier == 'quick' else 400
    rhos, epss = logspace(1e-6, 1e2, ng), logspace(1e-3, 1e2, ng)
    deltas = logspace(1e-15, 0.5, 12)
    pts = [(rho, eps) for rho in rhos for eps in epss]
    pts += [(math.exp(r.uniform(math.log(1e-6), math.log(1e2))), math.exp(r.uniform(math.log(1e-3), math.log(1e2)))) for _ in range(200)]
    pts += [(0.0, 1.0), (1.0, 0.0), (0.5, 0.5), (2.0, 1.0)]
    reqs, impl = [], []
    for rho, eps in pts:
        reqs.append({'op': 'cdp', 'fn': 'cdp_delta', 'a': enc_f(rho), 'b': enc_f(eps)})
        impl.append(C.cdp_delta(rho, eps))
        reqs.append({'op': 'cdp', 'fn': 'cdp_delta_standard', 'a': enc_f(rho), 'b': enc_f(eps)})
        impl.append(C.cdp_delta_standard(rho, eps))
    bis = []
    for _ in range(nb):
        eps = math.exp(r.uniform(math.log(1e-3), math.log(1e2)))
        rho = math.exp(r.uniform(math.log(1e-6), math.log(1e2)))
        delta = r.choice(deltas) if r.random() < 0.5 else math.exp(r.uniform(math.log(1e-15), math.log(0.5)))
        bis.append((rho, eps, delta))
    bis += [(1.0, 1.0, 1.0), (1.0, 1.0, 2.0), (0.0, 0.0, 1e-9)]
    for rho, eps, delta in bis:
        reqs.append({'op': 'cdp', 'fn': 'cdp_rho', 'a': enc_f(eps), 'b': enc_f(delta)})
        impl.append(C.cdp_rho(eps, delta))
        reqs.append({'op': 'cdp', 'fn': 'cdp_eps', 'a': enc_f(rho), 'b': enc_f(delta)})
        impl.append(C.cdp_eps(rho, delta))
    resps = drv.run(reqs) if drv else [None] * len(reqs)
    # A. translator validation
    for q, iv, resp in zip(reqs, impl, resps):
        a, b = dec_f(q['a']), dec_f(q['b'])
        res.case({'fn': q['fn'], 'a': a, 'b': b}, 0 < iv < 1 or q['fn'] in ('cdp_rho', 'cdp_eps'),
                 sample={'fn': q['fn'], 'args': [a, b], 'python': iv} if q['fn'] == 'cdp_rho' else None)
        res.count('fn:' + q['fn'])
        if resp is None:
            continue
        if not resp['ok']:
            res.violation('correspondence', f"driver error {resp['err']}", {'request': q, 'stream': 'C07.translator'})
            continue
        mv = dec_f(resp['out']['val'])
        if not close(mv, iv, 1e-9, 1e-300):
            res.violation('correspondence', f"{q['fn']}({a},{b}): generated Lean gives {mv}, Python gives {iv}",
                          {'request': q, 'observed': iv, 'model': mv, 'stream': 'C07.translator'})
    # B. the property's clauses on the implementation
    clauses(res, C, pts, bis, tier)
    session(res, C, r, tier)


def clauses(res, C, pts, bis, tier, stop_first=True):
    found = 0

    def fail(key, what, rp):
        nonlocal found
        found += 1
        res.violation('failing-input', what, rp, key=key)
    worst_gap = 0.0
    for rho, eps in pts:
        if rho <= 0:
            continue
        d = C.cdp_delta(rho, eps)
        res.count('clause:dominates-exact')
        ex = exact_gauss_delta(rho, eps)
        if d < ex * (1 - 1e-6) - 1e-300:
            fail('cdp_delta:below-exact', f'cdp_delta({rho},{eps})={d} is below the exact Gaussian delta {ex}',
                 {'request': {'fn': 'cdp_delta', 'args': [rho, eps]}, 'observed': d, 'expected': f'>= {ex}'})
        if not (0 <= d <= 1):
            fail('cdp_delta:range', f'cdp_delta({rho},{eps})={d} outside [0,1]', {'request': {'fn': 'cdp_delta', 'args': [rho, eps]}, 'observed': d})
        # optimum of the Renyi-order bound: no alpha on a fine grid does noticeably better
        amax = (eps + 1) / (2 * rho) + 2
        best = min(renyi_bound(rho, eps, 1.01 + (amax - 1.01) * i / 400) for i in range(401))
        best = min(best, 1.0)
        res.count('clause:optimal')
        if d > best * (1 + 1e-9) + 1e-300:
            fail('cdp_delta:not-optimal', f'cdp_delta({rho},{eps})={d} exceeds the Renyi bound at a grid alpha ({best})',
                 {'request': {'fn': 'cdp_delta', 'args': [rho, eps]}, 'observed': d, 'expected': f'<= {best}'})
        if best > 0:
            worst_gap = max(worst_gap, (best - d) / best)
        if found and stop_first:
            return
    res.extra['max_relative_gain_over_alpha_grid'] = worst_gap
    # monotonicity along grid lines
    g = sorted(set(p for p in pts if p[0] > 0))
    by_eps, by_rho = {}, {}
    for rho, eps in g:
        by_eps.setdefault(eps, []).append(rho)
        by_rho.setdefault(rho, []).append(eps)
    for eps, rs in by_eps.items():
        rs.sort()
        vals = [C.cdp_delta(x, eps) for x in rs]
        for i in range(len(rs) - 1):
            res.count('clause:monotone')
            if vals[i] > vals[i + 1] * (1 + 1e-9) + 1e-300:
                fail('cdp_delta:mono-rho', f'cdp_delta not increasing in rho at eps={eps}: {rs[i]}->{vals[i]}, {rs[i+1]}->{vals[i+1]}',
                     {'request': {'fn': 'cdp_delta', 'args': [[rs[i], eps], [rs[i + 1], eps]]}, 'observed': [vals[i], vals[i + 1]]})
                break
    for rho, es in by_rho.items():
        es.sort()
        vals = [C.cdp_delta(rho, x) for x in es]
        for i in range(len(es) - 1):
            res.count('clause:monotone')
            if vals[i + 1] > vals[i] * (1 + 1e-9) + 1e-300:
                fail('cdp_delta:mono-eps', f'cdp_delta not decreasing in eps at rho={rho}: {es[i]}->{vals[i]}, {es[i+1]}->{vals[i+1]}',
                     {'request': {'fn': 'cdp_delta', 'args': [[rho, es[i]], [rho, es[i + 1]]]}, 'observed': [vals[i], vals[i + 1]]})
                break
    if found and stop_first:
        return
    # soundness, tightness and round trips of the two bisections
    for rho, eps, delta in bis:
        if delta >= 1 or delta <= 0:
            continue
        res.count('clause:soundness+roundtrip')
        rr = C.cdp_rho(eps, delta)
        d = C.cdp_delta(rr, eps)
        if d > delta:
            fail('cdp_rho:unsound', f'cdp_rho({eps},{delta})={rr} implies delta {d} > target',
                 {'request': {'fn': 'cdp_rho', 'args': [eps, delta]}, 'observed': rr, 'expected': f'cdp_delta <= {delta}'})
        # tight: a slightly larger budget must already violate the target (unless saturated at eps+1)
        if rr < (eps + 1) * (1 - 1e-9):
            d2 = C.cdp_delta(rr * (1 + 1e-6) + 1e-300, eps)
            if d2 <= delta * (1 - 1e-3):
                fail('cdp_rho:not-tight', f'cdp_rho({eps},{delta})={rr} is not the largest sound budget (delta at 1.000001*rho is {d2})',
                     {'request': {'fn': 'cdp_rho', 'args': [eps, delta]}, 'observed': rr})
        if rho > 0:
            ee = C.cdp_eps(rho, delta)
            d3 = C.cdp_delta(rho, ee)
            if d3 > delta * (1 + 1e-9):
                fail('cdp_eps:unsound', f'cdp_eps({rho},{delta})={ee} implies delta {d3} > target',
                     {'request': {'fn': 'cdp_eps', 'args': [rho, delta]}, 'observed': ee})
            if ee > 1e-12:
                d4 = C.cdp_delta(rho, ee * (1 - 1e-6))
                if d4 < delta * (1 - 1e-3) and d4 < 1:
                    fail('cdp_eps:not-tight', f'cdp_eps({rho},{delta})={ee} is not the smallest sound eps',
                         {'request': {'fn': 'cdp_eps', 'args': [rho, delta]}, 'observed': ee})
                # inverse: cdp_rho(cdp_eps(rho, delta), delta) ~ rho
                back = C.cdp_rho(ee, delta)
                if ee + 1 > rho and not close(back, rho, 1e-6, 1e-12):
                    fail('roundtrip:rho', f'cdp_rho(cdp_eps({rho},{delta}),{delta})={back} != rho',
                         {'request': {'fn': 'roundtrip', 'args': [rho, delta]}, 'observed': back})
        if found and stop_first:
            return
    # monotonicity of the bisections on a short chain
    ch = sorted(set(b[2] for b in bis if 0 < b[2] < 1))[:6]
    vals = [C.cdp_rho(1.0, dl) for dl in ch]
    for i in range(len(ch) - 1):
        if vals[i] > vals[i + 1] * (1 + 1e-9):
            fail('cdp_rho:mono-delta', f'cdp_rho(1,.) not increasing in delta: {ch[i]}->{vals[i]}, {ch[i+1]}->{vals[i+1]}',
                 {'request': {'fn': 'cdp_rho', 'args': [[1.0, ch[i]], [1.0, ch[i + 1]]]}, 'observed': [vals[i], vals[i + 1]]})


def session(res, C, r, tier):
    """the three conversions are functions of their arguments only: one accounting session in which the same number pair goes to
    different conversions in turn (a level used as eps, then as rho) must give, call by call, the value a fresh computation gives:
    the budget for (x, d) must still satisfy cdp_delta(cdp_rho(x, d), x) <= d after cdp_eps(x, d) was asked, and vice versa"""
    levels = [0.1, 0.5, 1.0, 2.0, 7.0] + [round(math.exp(r.uniform(math.log(0.05), math.log(20))), 3) for _ in range(3 if tier == 'quick' else 20)]
    ds = [1e-9, 1e-6, 1e-3]
    for x in levels:
        for d in ds:
            order = r.sample(['eps', 'rho', 'delta'], 3)
            got = {}
            for fn in order:
                got[fn] = C.cdp_eps(x, d) if fn == 'eps' else (C.cdp_rho(x, d) if fn == 'rho' else C.cdp_delta(x, d if d > 1e-3 else x))
            res.count('session: one number pair sent to several conversions')
            res.case({'session': [x, d], 'order': order}, True)
            rho = got['rho']
            implied = C.cdp_delta(rho, x)
            if not (rho >= 0 and implied <= d * (1 + 1e-9)):
                res.violation('failing-input', f'in one session (calls in the order {order} on the pair ({x}, {d})): cdp_rho({x},{d}) = {rho} implies delta {implied} > target {d}',
                              {'request': {'session': [x, d], 'order': order}, 'observed': got}, key='cdp_rho:unsound')
                return
            e = got['eps']
            back = C.cdp_delta(x, e)
            if not (e >= 0 and back <= d * (1 + 1e-6) + 1e-300):
                res.violation('failing-input', f'in one session (calls in the order {order} on the pair ({x}, {d})): cdp_eps({x},{d}) = {e} implies delta {back} > target {d}',
                              {'request': {'session': [x, d], 'order': order}, 'observed': got}, key='cdp_eps:unsound')
                return


def search(res, tier, seed, broken):
    from mechanisms import cdp2adp as C
    r = rng(seed + 31, 'C07-search')
    rhos, epss = logspace(1e-6, 1e2, 40), logspace(1e-3, 1e2, 40)
    pts = [(a, b) for a in rhos for b in epss]
    bis = [(math.exp(r.uniform(math.log(1e-6), math.log(1e2))), math.exp(r.uniform(math.log(1e-3), math.log(1e2))),
            math.exp(r.uniform(math.log(1e-15), math.log(0.5)))) for _ in range(60)]
    clauses(res, C, pts, bis, tier)
    if not any(v['kind'] == 'failing-input' for v in res.violations):
        session(res, C, r, tier)


def replay(res, drv, rp):
    from mechanisms import cdp2adp as C
    q = rp['request']
    fn, args = q.get('fn'), q.get('args')
    res.case(q)
    if fn == 'cdp_delta' and not isinstance(args[0], list):
        clauses(res, C, [tuple(args)], [], 'quick')
    elif fn == 'cdp_delta':
        clauses(res, C, [tuple(a) for a in args], [], 'quick')
    elif fn in ('cdp_rho', 'cdp_eps', 'roundtrip'):
        if isinstance(args[0], list):
            clauses(res, C, [], [(1.0, a[0], a[1]) for a in args], 'quick')
        elif fn == 'cdp_rho':
            clauses(res, C, [], [(0.0, args[0], args[1])], 'quick')
        else:
            for eps in (0.01, 1.0, 10.0):
                clauses(res, C, [], [(args[0], eps, args[1])], 'quick')
