"""./check Cxx [--tier quick|thorough] [--replay path]

Protocol (DESIGN §4): regenerate -> build -> audit -> correspondence -> verdict.
exit 0: property held on everything explored; exit 1: VIOLATION line(s); exit 2: infrastructure.
"""
import argparse, importlib, json, os, re, subprocess, sys, time, traceback

sys.path.insert(0, os.path.dirname(os.path.abspath(__file__)))
import common
from common import VERIF, LEAN_DIR, Result, Infra


def sh(cmd, cwd=None, timeout=3600):
    p = subprocess.run(cmd, cwd=cwd, stdout=subprocess.PIPE, stderr=subprocess.STDOUT, timeout=timeout)
    return p.returncode, p.stdout.decode(errors='replace')


def strip_comments(src):
    out, i, depth, n = [], 0, 0, len(src)
    while i < n:
        if src.startswith('/-', i):
            depth += 1; i += 2; continue
        if depth > 0 and src.startswith('-/', i):
            depth -= 1; i += 2; continue
        if depth > 0:
            i += 1; continue
        if src.startswith('--', i):
            while i < n and src[i] != '\n':
                i += 1
            continue
        if src[i] == '"':
            j = i + 1
            while j < n and src[j] != '"':
                j += 2 if src[j] == '\\' else 1
            i = j + 1
            continue
        out.append(src[i]); i += 1
    return ''.join(out)


def module_path(mod):
    return os.path.join(LEAN_DIR, *mod.split('.')) + '.lean'


def import_closure(mod, seen=None):
    seen = seen if seen is not None else {}
    if mod in seen:
        return seen
    p = module_path(mod)
    if not os.path.exists(p):
        return seen
    src = open(p).read()
    seen[mod] = src
    for m in re.findall(r'^import\s+(PGM\.[\w.]+)', src, re.M):
        import_closure(m, seen)
    return seen


def theorems_of(mod):
    """fully qualified names of the theorems of a property file (nested namespaces and sections are tracked)"""
    src = strip_comments(open(module_path(mod)).read())
    stack, out = [], []
    for line in src.splitlines():
        m = re.match(r'^\s*(namespace|section)\s*([\w.]*)', line)
        if m:
            stack.append((m.group(1), m.group(2)))
            continue
        m = re.match(r'^\s*end\s*([\w.]*)\s*$', line)
        if m and stack:
            stack.pop()
            continue
        m = re.match(r'^(?:protected\s+|private\s+)?theorem\s+([\w.\']+)', line)
        if m:
            ns = '.'.join(n for kind, n in stack if kind == 'namespace' and n)
            out.append((ns + '.' if ns else '') + m.group(1))
    return out


def regenerate(res, translators=('py2lean', 'py2flow')):
    """translator step: regenerate PGM/Generated/* from the repository's working tree"""
    ok, outs = True, ''
    for t in translators:
        rc, out = sh([sys.executable, os.path.join(VERIF, 'tools', t + '.py'), '--repo', common.REPO,
                      '--out', os.path.join(LEAN_DIR, 'PGM', 'Generated')])
        ok = ok and rc == 0
        outs += out
    return ok, outs


def build(mods, exe):
    with common.LeanLock():
        rc, out = sh(['lake', 'build'] + list(mods) + [exe], cwd=LEAN_DIR, timeout=3000)
    return rc == 0, out


def audit(mods, thms):
    """forbidden tokens in the import closure + #print axioms of each property theorem"""
    problems = []
    mod = mods[0]
    closure = {}
    for m in mods:
        import_closure(m, closure)
    for m, src in closure.items():
        code = strip_comments(src)
        for tok in common.FORBIDDEN:
            if re.search(r'(?<![\w.])' + re.escape(tok.strip()) + r'(?![\w])', code):
                problems.append(f'forbidden token {tok.strip()!r} in {m}')
        if re.search(r'^\s*axiom\s', code, re.M):
            problems.append(f'axiom declared in {m}')
    adir = os.path.join(LEAN_DIR, '.audit')
    os.makedirs(adir, exist_ok=True)
    f = os.path.join(adir, 'Audit_' + mod.split('.')[-1] + '.lean')
    with open(f, 'w') as fh:
        for m in mods:
            fh.write(f'import {m}\n')
        for t in thms:
            fh.write(f'#print axioms {t}\n')
    rc, out = sh(['lake', 'env', 'lean', f], cwd=LEAN_DIR, timeout=1800)
    axioms = {}
    for m in re.finditer(r"'(\S+)' depends on axioms: \[([^\]]*)\]", out):
        axioms[m.group(1)] = [a.strip() for a in m.group(2).replace('\n', ' ').split(',') if a.strip()]
    for m in re.finditer(r"'(\S+)' does not depend on any axioms", out):
        axioms[m.group(1)] = []
    ok = []
    for t in thms:
        if t not in axioms:
            problems.append(f'no axiom report for {t}')
            continue
        bad = [a for a in axioms[t] if a not in common.ACCEPTED_AXIOMS]
        if bad:
            problems.append(f'{t} depends on non-accepted axioms {bad}')
        else:
            ok.append(t)
    if rc != 0 and not problems:
        problems.append('audit file failed to elaborate: ' + out[-500:])
    return ok, problems, axioms


def local_closure(mod, seen):
    p = os.path.join(common.LEAN_DIR, mod.replace('.', '/') + '.lean')
    if mod in seen or not os.path.exists(p):
        return seen
    seen.add(mod)
    for m in re.findall(r'^import\s+(PGM\.[\w.]+)', open(p).read(), re.M):
        local_closure(m, seen)
    return seen


def leanchecker(lean_mods):
    import time
    seen = set()
    for m in lean_mods:
        local_closure(m, seen)
    mods = sorted(seen)
    t0 = time.time()
    try:
        with common.LeanLock():
            r = subprocess.run(['lake', 'env', 'leanchecker'] + mods, cwd=common.LEAN_DIR, capture_output=True, text=True, timeout=3000)
    except FileNotFoundError:
        return {'ok': True, 'modules': len(mods), 'skipped': 'leanchecker not on PATH'}
    ok = r.returncode == 0
    return {'ok': ok, 'modules': len(mods), 'seconds': round(time.time() - t0, 1), 'detail': (r.stdout + r.stderr)[-800:] if not ok else ''}


def anchor_ties(pid):
    """(translators, property modules) tying the files named in the property's anchors to the hand models"""
    try:
        ties = json.load(open(os.path.join(VERIF, 'tools', 'ties.json')))
        files = []
        for line in open(os.path.join(VERIF, 'properties.jsonl')):
            d = json.loads(line)
            if d['id'] == pid:
                files = d['anchors']['files']
    except Exception:
        return [], []
    # the files a property's behaviour passes through: its anchors and what those compute through (ties.json: _deps)
    deps = ties.get('_deps', {})
    closure = []
    for f in files:
        for g in [f] + [x for x in deps.get(f, []) if isinstance(x, str)]:
            if g not in closure:
                closure.append(g)
    trs, mods = [], []
    for f in closure:
        for t, ms in ties.get(f, []):
            if os.path.exists(os.path.join(VERIF, 'tools', t + '.py')) and t not in trs:
                trs.append(t)
            for m in ms:
                if os.path.exists(module_path(m)) and m not in mods:
                    mods.append(m)
    return trs, mods


def _is_known(pid, v):
    kn = [k for k in common.load_known().get('known', []) if k['property'] == pid]
    return any(v.get('key') and k['key'] == v['key'] for k in kn)


def main():
    ap = argparse.ArgumentParser()
    ap.add_argument('pid')
    ap.add_argument('--tier', default=os.environ.get('VERIF_TIER', 'quick'))
    ap.add_argument('--replay', default=None)
    ap.add_argument('--no-build', action='store_true')
    args = ap.parse_args()
    pid = args.pid.upper()
    tier = args.tier if args.tier in ('quick', 'thorough') else 'quick'
    seed = int(os.environ.get('VERIF_SEED', '0') or 0)
    res = Result(pid, tier, seed)
    common.setup_repo_path()
    try:
        mod = importlib.import_module(pid.lower())
    except ModuleNotFoundError:
        print(f'no check registered for {pid}', file=sys.stderr)
        return 2
    lean_mod = mod.LEAN_MODULE
    lean_mods = [lean_mod] + list(getattr(mod, 'LEAN_EXTRA', []))     # further property files (Cxx B, C, ...) of the same property
    # translator ties of every source file the property is anchored in (tools/ties.json): their gen_* theorems are obligations too
    tie_translators, tie_mods = anchor_ties(pid)
    for m in tie_mods:
        if m not in lean_mods:
            lean_mods.append(m)
    exe_name = 'pgmgen' if getattr(mod, 'NEEDS_GENERATED', False) else 'pgmdriver'
    exe_path = common.DRIVER_GEN if exe_name == 'pgmgen' else common.DRIVER
    broken = []           # broken obligations (names / descriptions)
    thms, discharged = [], []
    try:
        # 1. regenerate
        translators = list(getattr(mod, 'TRANSLATORS', ('py2lean', 'py2flow') if getattr(mod, 'NEEDS_GENERATED', False) else ()))
        for t in tie_translators:
            if t not in translators:
                translators.append(t)
        if translators:
            ok, out = regenerate(res, translators)
            if not ok:
                broken.append({'theorem': None, 'stage': 'translate', 'detail': out[-1500:]})
        # 2. build
        if not args.no_build:
            ok, out = build(lean_mods, exe_name)
            if not ok:
                errs = re.findall(r'error: ([^\n]+)', out)
                broken.append({'theorem': None, 'stage': 'build', 'detail': '\n'.join(errs[:12]) or out[-1500:]})
        thms = [t for m in lean_mods for t in theorems_of(m)]
        # 3. audit
        if not any(b['stage'] == 'build' for b in broken):
            discharged, problems, axioms = audit(lean_mods, thms)
            res.extra['axioms'] = {t: axioms.get(t) for t in thms}
            for p in problems:
                broken.append({'theorem': p, 'stage': 'audit', 'detail': p})
        # 3b. thorough tier: the toolchain's independent re-checker replays every compiled module the property depends on
        if tier == 'thorough' and not args.replay and not any(b['stage'] == 'build' for b in broken):
            lc = leanchecker(lean_mods)
            res.extra['leanchecker'] = lc
            if not lc['ok']:
                broken.append({'theorem': None, 'stage': 'leanchecker', 'detail': lc['detail']})
        driver_ok = os.path.exists(exe_path) and not any(b['stage'] in ('build', 'translate') for b in broken)
        drv = common.Driver(exe_path) if driver_ok else None
        # 4. correspondence (or replay)
        if args.replay:
            rp = json.load(open(args.replay))
            mod.replay(res, drv, rp)
        else:
            mod.run(res, drv, tier, seed)
        # failing-input search when an obligation broke and nothing concrete (other than the listed known findings) was found yet
        if broken and not any(v['kind'] == 'failing-input' and not _is_known(pid, v) for v in res.violations):
            if hasattr(mod, 'search'):
                mod.search(res, tier, seed, broken)
    except subprocess.TimeoutExpired as e:
        print('infrastructure: timeout', e, file=sys.stderr)
        return 2
    except Infra as e:
        print('infrastructure:', e, file=sys.stderr)
        return 2
    except Exception as e:
        # an exception raised INSIDE the repository's code on an input the check generated is a failing input (the implementation does not
        # complete on a legal input), never an infrastructure error; anything raised by the harness itself is infrastructure (exit 2)
        tb = traceback.extract_tb(e.__traceback__)
        root = os.path.realpath(common.REPO) + os.sep
        inside = [f for f in tb if os.path.realpath(f.filename).startswith(root)]
        if not inside:
            traceback.print_exc()
            return 2
        last = inside[-1]
        caller = next((f for f in reversed(tb) if not os.path.realpath(f.filename).startswith(root)), None)
        where = f'{os.path.relpath(os.path.realpath(last.filename), root)}:{last.lineno} ({last.name})'
        res.violation('failing-input', f'the implementation raises {type(e).__name__}: {str(e)[:160]} at {where} on an input generated by the check '
                      f'(harness frame {os.path.basename(caller.filename)}:{caller.lineno} {caller.name})' if caller else f'the implementation raises {type(e).__name__} at {where}',
                      {'request': {'seed': seed, 'tier': tier, 'raised_at': where, 'exception': type(e).__name__, 'message': str(e)[:300],
                                   'harness_frame': f'{os.path.basename(caller.filename)}:{caller.lineno}' if caller else None,
                                   'how': f'VERIF_SEED={seed} ./check {pid} --tier {tier} re-generates the same input'}},
                      key='impl-raises:' + type(e).__name__)

    # 5. verdict
    known = common.load_known()
    kn = [k for k in known.get('known', []) if k['property'] == pid]
    exit_code = 0
    nviol = 0
    printed_known = set()
    found_failing = any(v['kind'] == 'failing-input' for v in res.violations)
    is_known = lambda v: any(v.get('key') and k['key'] == v['key'] for k in kn)
    # a concrete failing input that is not a listed finding: correspondence / obligation reports then do not claim that none was found
    new_failing = any(v['kind'] == 'failing-input' and not is_known(v) for v in res.violations)
    for v in sorted(res.violations, key=lambda v: 0 if v['kind'] == 'failing-input' else 1):
        match = next((k for k in kn if v.get('key') and k['key'] == v['key']), None)
        if match:
            if match['key'] not in printed_known:
                print(f"KNOWN-FINDING: property={pid} {match['what']}")
                printed_known.add(match['key'])
            continue
        nviol += 1
        path = common.write_replay(pid, v, seed)
        tail = '' if (v['kind'] == 'failing-input' or new_failing) else ' no-failing-input-found'
        print(f"VIOLATION property={pid} replay={path}{tail}")
        print(f"  {v['kind']}: {v['what']}")
        exit_code = 1
    # every LISTED finding of this property is named on every run (the ones this run did not exercise are marked as such)
    for k in kn:
        if k['key'] not in printed_known:
            print(f"KNOWN-FINDING: property={pid} {k['what']} [listed in known_findings.json; not exercised by this run]")
    if broken and not new_failing:
        # (a failing input that is a LISTED known finding does not explain a broken obligation: the obligation is reported)
        for b in broken:
            v = {'kind': 'obligation', 'what': f"{b['stage']}: {b['detail'][:400]}",
                 'replay': {'theorem': b['theorem'], 'stage': b['stage'], 'detail': b['detail'], 'request': None}}
            path = common.write_replay(pid, v, seed)
            print(f"VIOLATION property={pid} replay={path} no-failing-input-found")
            print(f"  obligation no longer checks ({b['stage']}): {b['detail'][:300]}")
            nviol += 1
            exit_code = 1
    elif broken:
        for b in broken:
            print(f"  note: obligation no longer checks ({b['stage']}): {b['detail'][:300]}")
    # evidence
    cov = {
        'obligations': len(thms), 'discharged': len(discharged),
        'checker_cmd': f'cd lean && lake build {" ".join(lean_mods)} && lake env lean .audit/Audit_{pid}.lean  (# print axioms of every property theorem)',
        'trusted_base': getattr(mod, 'TRUSTED', []),
        'theorems': thms,
        'evaluations': res.evaluations,
        'distinct_nontrivial': len(res.nontrivial),
        'rule': getattr(mod, 'RULE', res.rule),
        'samples': common.jsonable(res.samples) or [{'theorems': thms[:5]}],
        'counters': res.counters,
        'explanation': getattr(mod, 'EXPLANATION', ''),
        'broken_obligations': broken,
        'known_findings_seen': sorted(printed_known),
    }
    cov.update(common.jsonable(res.extra))
    ev = {'property_id': pid, 'tier': tier, 'seed': seed, 'level': 'proof', 'coverage': cov,
          'assumptions': getattr(mod, 'ASSUMPTIONS', []), 'wall_s': round(time.time() - res.t0, 2),
          'violations': nviol}
    # evidence describes runs against /repo itself; a run against another tree (VERIF_REPO, used to try seeded changes) writes elsewhere
    evdir = os.path.join(VERIF, 'evidence') if os.path.realpath(common.REPO) == '/repo' else os.path.join('/tmp', 'verif-evidence-other-tree')
    os.makedirs(evdir, exist_ok=True)
    with open(os.path.join(evdir, pid + '.json'), 'w') as f:
        json.dump(ev, f, indent=1, default=str)
    if exit_code == 0:
        print(f'OK {pid}: {len(discharged)}/{len(thms)} theorems, {res.evaluations} cases '
              f'({len(res.nontrivial)} distinct non-trivial), {ev["wall_s"]}s')
    return exit_code


if __name__ == '__main__':
    sys.exit(main())
