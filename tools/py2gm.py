#!/usr/bin/env python3
"""tools/py2gm.py --repo R --out DIR

Translates the inference core of `src/mbi/graphical_model.py` — `GraphicalModel.belief_propagation`, `datavector`, `mle`
and the module functions `variable_elimination_logspace`, `variable_elimination` — STATEMENT BY STATEMENT into Lean
definitions over the factor model (`PGM/Generated/GraphicalModelG.lean`, namespace `PGM.GMG`, `import PGM.Model.GM`).
`PGM/Properties/C01G.lean` proves every generated definition equal to the hand-written `PGM/Model/GM.lean` (the
definitions the C01/C02/C08 theorems are about), under explicitly stated scalar laws where the source does more than the
model (`0 + f`, `1 * f`, `copy`, the in-place `exp`).

The translator is a typed statement translator.  Anything outside the subset below stops it (exit 1).

Types   cvec (dict clique -> Factor, log space) | pcvec (the same in plain space) | msgs (dict (clique, clique) -> Factor) |
        factor | pfactor | scalar | pscalar | pyval (a Python number OR a Factor: the accumulator of `reduce(…, 0)` / `sum`) |
        clique | cliques | edge | order | attr | attrs | attrset (a tuple made from a set: NO specified order) | varset |
        dom | factors | idict (dict with fresh integer keys = the list of its values in insertion order) | nat | flat | pflat

Statements
  x = E                                  -> let x := E           (re-binding shadows, as in Python)
  x = {} / x = set()                     -> the empty association list / list (the type of x is declared per function)
  d[k] = E                               -> CliqueVec.set d k E / GM.dictSet d k E: an existing key keeps its position
  d[k] += E                              -> d[k] = d[k].__iadd__(E): Factor.iadd / Factor.iaddScalar.  In-place updates are only
                                            accepted on dictionaries whose factors were created inside the function
                                            (`{cl: p[cl].copy() for cl in p}`); every name bound to `d[…]` before the update is
                                            dead afterwards (reading it again stops the translator)
  s.update(t)                            -> JT.union s t         (a running set as the list of its first occurrences)
  if c: x = A  else: x = B               -> let x := if c then A else B   (both branches bind exactly the same single name)
  if <flag>: …                           -> decided by the variant being generated (logZ=True / logZ=False)
  for t in XS: BODY                      -> XS.foldl (fun state t => BODY; state) state ; the state is the tuple of the names
                                            bound before the loop and re-bound in BODY, in order of first binding; names first
                                            bound inside the loop and the loop targets are dead after the loop
  k = len(P); psi = dict(zip(range(k), P)); … psi[k] = E; k += 1     -> psi ++ [E] (the key is fresh: `k += 1` must follow at once)
  psi2 = [psi.pop(i) for i in list(psi.keys()) if C(psi[i])]         -> psi2 := psi.filter C ; psi := psi.filter (not ∘ C)
  return E
Expressions
  d[k]  -> CliqueVec.get d k / msgGet d k (the model's default `Factor.zeros []` where Python raises KeyError);  k in d -> (d.lookup k).isSome
  self.cliques[0] -> List.headD cliques []   (IndexError in Python)
  self.sep_axes[(i,j)] -> JT.inter i j : attrset.  junction_tree.py is checked to define it as `tuple(set(i)&set(j))`; the ORDER
        of that tuple is unspecified (set iteration), so an attrset is only accepted where just membership is read:
        `D.invert(·)` (`Dom.invert_congr` in PGM/Proofs/GMGen.lean) — and in `F.project(·)` inside `mle`, where the listing
        chosen is the model's (the attributes of `cl` that are in `variables`, in `cl`'s order): see the header of the output
  z in D -> (Dom.attrs D).contains z (domain.py `__contains__` is checked);  D.invert(a), D.size(), F.domain
  F + G, F - G, F - c, F + c (Factor dunder dispatch: add / sub / subScalar / addScalar), c - d (scalars), m / n (naturals -> plain
        scalars), v * c (flat vector by a plain scalar)
  F.logsumexp(a) / F.logsumexp() / F.sum(a) / F.max(a) / F.exp() / np.exp(F) (numpy calls the object's `.exp()`) / F.copy() /
  F.expand(D) / F.datavector(flatten) (flatten=True) / F.project(a) / F.log()  (plain -> log space: the parameter `logf`) /
  F.exp(out=F) -> expInto F F (factor.py's `out` branch is checked to be `np.exp(self.values, out=out.values); return out`)
  np.log(c);  reduce(lambda x,y: x+y | x*y, XS, 0 | 1) and sum(E for cl in XS): a left fold of Python's `+` / `*` FROM THE INT
        0 / 1 — `0 + f` is `Factor.__radd__` (checked to delegate to `__add__`), i.e. `Factor.addScalar 0 f`; the result is a
        pyval, used as a Factor through `PyVal.asFactor` (AttributeError in Python when it still is the number)
  CliqueVector(d) -> d ; tuple(s) ; set(cl) ; s & set(cl)
Skipped (listed in the header of the output): __init__, save, load, project (calls greedy_order, whose result the
theorems do not depend on), krondot, calculate_many_marginals, fit, synthetic_data, greedy_order.
"""
import argparse, ast, os, sys, copy as _copy


class Untranslatable(Exception):
    pass


def fail(node, why, file='graphical_model.py'):
    where = f'{file} line {getattr(node, "lineno", "?")}'
    text = (ast.unparse(node) if isinstance(node, ast.AST) else str(node)).split('\n')[0]
    raise Untranslatable(f'{where}: {why}: {text[:160]}')


CL = 'JT.Clique'
LEANTY = {'cvec': 'CliqueVec α', 'pcvec': 'CliqueVec β', 'msgs': 'GM.Msgs α', 'factor': 'Factor α', 'pfactor': 'Factor β',
          'scalar': 'α', 'pscalar': 'β', 'pyval': 'PyVal α', 'clique': CL, 'cliques': f'List {CL}', 'edge': f'{CL} × {CL}',
          'order': f'List ({CL} × {CL})', 'attr': 'Attr', 'attrs': 'List Attr', 'attrset': 'List Attr', 'varset': 'List Attr',
          'dom': 'Dom', 'factors': 'List (Factor α)', 'idict': 'List (Factor α)', 'nat': 'Nat', 'flat': 'List α', 'pflat': 'List β',
          'bool': 'Bool'}
ELEM = {'cliques': 'clique', 'order': 'edge', 'attrs': 'attr', 'factors': 'factor', 'idict': 'factor'}
KEYTY = {'cvec': 'clique', 'pcvec': 'clique', 'msgs': 'edge'}
VALTY = {'cvec': 'factor', 'pcvec': 'pfactor', 'msgs': 'factor'}
DICTS = ('cvec', 'pcvec', 'msgs')


def norm(src):
    return [ast.unparse(x) for x in ast.parse(src).body]


def is_doc(st):
    return isinstance(st, ast.Expr) and isinstance(st.value, ast.Constant) and isinstance(st.value.value, str)


def ind(text, n):
    pad = ' ' * n
    return '\n'.join(pad + l if l else l for l in text.split('\n'))


def assigned_names(stmts):
    """names (re)bound by a block, in order of first binding (subscript stores / += / .update bind the container)"""
    out = []

    def add(x):
        if x not in out:
            out.append(x)

    def tgt(t):
        if isinstance(t, ast.Name):
            add(t.id)
        elif isinstance(t, ast.Subscript) and isinstance(t.value, ast.Name):
            add(t.value.id)
        elif isinstance(t, (ast.Tuple, ast.List)):
            for e in t.elts:
                tgt(e)

    for st in stmts:
        for n in ast.walk(st):
            if isinstance(n, ast.Assign):
                for t in n.targets:
                    tgt(t)
            elif isinstance(n, ast.AugAssign):
                tgt(n.target)
            elif isinstance(n, ast.For):
                tgt(n.target)
            elif isinstance(n, ast.Call) and isinstance(n.func, ast.Attribute) and n.func.attr in ('update', 'pop', 'add', 'append') \
                    and isinstance(n.func.value, ast.Name):
                add(n.func.value.id)
    return out


class Tr:
    """translator of one block of statements"""

    def __init__(self, gen, spec, env, owned=(), alias=None, counters=None):
        self.gen, self.spec = gen, spec
        self.env = dict(env)            # python name -> (lean term, type)
        self.owned = set(owned)         # dictionaries whose factors were created inside the function
        self.alias = dict(alias or {})  # name -> dictionary it was read from
        self.counters = dict(counters or {})  # idict name -> its key counter ; '#len:k' -> list whose length k holds
        self.dead = {}                  # name -> why it may not be read any more
        self.lets = []
        self.pending_incr = None        # counter that must be incremented by the very next statement

    def sub(self):
        t = Tr(self.gen, self.spec, self.env, self.owned, self.alias, self.counters)
        t.dead = dict(self.dead)
        return t

    # ---------------------------------------------------------------- expressions
    def typed(self, n, *tys):
        t, ty = self.expr(n)
        if ty not in tys:
            fail(n, f'expected {"/".join(tys)}, got {ty}')
        return t

    def as_factor(self, n):
        """an operand / receiver that must be a Factor"""
        t, ty = self.expr(n)
        if ty == 'pyval':
            return f'(PyVal.asFactor {t})', 'factor'
        if ty in ('factor', 'pfactor'):
            return t, ty
        fail(n, f'expected a factor, got {ty}')

    def expr(self, n):
        if isinstance(n, ast.Name):
            if n.id in self.dead:
                fail(n, f'read of a dead name ({self.dead[n.id]})')
            if n.id in self.env:
                return self.env[n.id]
            fail(n, 'unknown name')
        if isinstance(n, ast.Constant) and isinstance(n.value, int) and not isinstance(n.value, bool):
            return str(n.value), 'nat'
        if isinstance(n, ast.Tuple) and len(n.elts) == 2:
            a, b = self.typed(n.elts[0], 'clique'), self.typed(n.elts[1], 'clique')
            return f'({a}, {b})', 'edge'
        if isinstance(n, ast.List) and len(n.elts) >= 1:
            return '[' + ', '.join(self.typed(e, 'attr') for e in n.elts) + ']', 'attrs'
        if isinstance(n, ast.Attribute):
            return self.attribute(n)
        if isinstance(n, ast.Subscript):
            return self.subscript(n)
        if isinstance(n, ast.Compare) and len(n.ops) == 1 and isinstance(n.ops[0], ast.In):
            (k, tk), (d, td) = self.expr(n.left), self.expr(n.comparators[0])
            if td in DICTS and tk == KEYTY[td]:
                return f'(List.lookup {k} {d}).isSome', 'bool'
            if td == 'dom' and tk == 'attr':
                self.gen.need_domain_contains(n)
                return f'((Dom.attrs {d}).contains {k})', 'bool'
            fail(n, f'unsupported membership test ({tk} in {td})')
        if isinstance(n, ast.BinOp):
            return self.binop(n)
        if isinstance(n, ast.Call):
            return self.call(n)
        if isinstance(n, ast.DictComp):
            return self.dictcomp(n)
        fail(n, 'unsupported expression')

    def attribute(self, n):
        if isinstance(n.value, ast.Name) and n.value.id == 'self' and 'self' in self.spec['fields_ok']:
            f = self.spec['fields'].get(n.attr)
            if f is None:
                fail(n, 'field of self that this definition does not declare')
            self.gen.need_field(n.attr, n)
            self.spec['used'].add(n.attr)
            return f
        base, tb = self.expr(n.value)
        if tb in ('factor', 'pfactor') and n.attr == 'domain':
            return f'(Factor.dom {base})', 'dom'
        if tb == 'pyval' and n.attr == 'domain':
            return f'(Factor.dom (PyVal.asFactor {base}))', 'dom'
        fail(n, f'unknown attribute of {tb}')

    def subscript(self, n):
        base, tb = self.expr(n.value)
        if tb in DICTS:
            k = self.typed(n.slice, KEYTY[tb])
            get = 'msgGet' if tb == 'msgs' else 'CliqueVec.get'
            return f'({get} {base} {k})', VALTY[tb]
        if tb == 'sepdict':
            if not (isinstance(n.slice, ast.Tuple) and len(n.slice.elts) == 2):
                fail(n, 'sep_axes must be indexed by a pair (i, j)')
            i, j = self.typed(n.slice.elts[0], 'clique'), self.typed(n.slice.elts[1], 'clique')
            return f'(JT.inter {i} {j})', 'attrset'
        if tb == 'cliques' and isinstance(n.slice, ast.Constant) and n.slice.value == 0:
            return f'(List.headD {base} [])', 'clique'
        fail(n, f'unsupported subscript of {tb}')

    def binop(self, n):
        op = n.op
        # variables & set(cl)
        if isinstance(op, ast.BitAnd):
            s = self.typed(n.left, 'varset')
            r = n.right
            if isinstance(r, ast.Call) and isinstance(r.func, ast.Name) and r.func.id == 'set' and len(r.args) == 1 and not r.keywords:
                c = self.typed(r.args[0], 'clique')
                return f'(JT.inter {c} {s})', 'setval'
            fail(n, 'unsupported set intersection')
        (a, ta), (b, tb) = self.expr(n.left), self.expr(n.right)
        if ta == 'pyval':
            a, ta = f'(PyVal.asFactor {a})', 'factor'
        if tb == 'pyval':
            b, tb = f'(PyVal.asFactor {b})', 'factor'
        if ta == tb == 'factor':
            if isinstance(op, ast.Add):
                return f'(Factor.add {a} {b})', 'factor'
            if isinstance(op, ast.Sub):
                return f'(Factor.sub {a} {b})', 'factor'
        if ta == 'factor' and tb == 'scalar':
            if isinstance(op, ast.Add):
                return f'(Factor.addScalar {b} {a})', 'factor'      # Factor.__add__, scalar branch: other + values
            if isinstance(op, ast.Sub):
                return f'(Factor.subScalar {a} {b})', 'factor'
        if ta == tb == 'scalar' and isinstance(op, ast.Sub):
            return f'(Scalar.sub {a} {b})', 'scalar'
        if ta == tb == 'nat' and isinstance(op, ast.Div):
            return f'(Scalar.div (Scalar.ofNat {a}) (Scalar.ofNat {b}) : β)', 'pscalar'   # true division of two ints: a float
        if ta == 'flat' and tb == 'pscalar' and isinstance(op, ast.Mult):
            return f'(({a}.map plain).map (fun v => Scalar.mul v {b}))', 'pflat'
        if ta == 'pflat' and tb == 'pscalar' and isinstance(op, ast.Mult):
            return f'({a}.map (fun v => Scalar.mul v {b}))', 'pflat'
        fail(n, f'unsupported operator on {ta} and {tb}')

    def fold_py(self, node, lam_op, xs, init):
        """left fold of Python's + / * from the int `init` over a list of factors"""
        want = {'add': 0, 'mul': 1}[lam_op]
        if not (isinstance(init, ast.Constant) and type(init.value) is int and init.value == want):
            fail(node, f'the fold must start from the int {want}')
        c = 'Scalar.zero' if want == 0 else 'Scalar.one'
        self.gen.need_rdunder(lam_op, node)
        return f'({xs}.foldl (fun x y => PyVal.{lam_op} x (PyVal.fac y)) (PyVal.num {c}))', 'pyval'

    def call(self, n):
        f, args, kws = n.func, n.args, {k.arg: k.value for k in n.keywords}
        if isinstance(f, ast.Name):
            if f.id == 'tuple' and len(args) == 1 and not kws:
                t, ty = self.expr(args[0])
                if ty == 'setval':
                    return t, 'attrset'
                fail(n, f'tuple of {ty}')
            if f.id == 'CliqueVector' and len(args) == 1 and not kws:
                self.gen.need_cv_ctor(n)
                t, ty = self.expr(args[0])
                if ty in ('cvec', 'pcvec'):
                    return t, ty
                fail(n, f'CliqueVector of {ty}')
            if f.id == 'len' and len(args) == 1 and not kws and isinstance(args[0], ast.Name):
                t, ty = self.expr(args[0])
                if ty == 'factors':
                    return f'#len:{args[0].id}', 'lenof'
                fail(n, f'len of {ty}')
            if f.id == 'dict' and len(args) == 1 and not kws:
                z = args[0]
                ok = isinstance(z, ast.Call) and isinstance(z.func, ast.Name) and z.func.id == 'zip' and len(z.args) == 2 and not z.keywords
                if ok:
                    r, p = z.args
                    ok = isinstance(r, ast.Call) and isinstance(r.func, ast.Name) and r.func.id == 'range' and len(r.args) == 1 \
                        and isinstance(r.args[0], ast.Name) and isinstance(p, ast.Name)
                if ok:
                    k = r.args[0].id
                    if self.env.get(k) != (f'#len:{p.id}', 'lenof'):
                        fail(n, f'`{k}` is not known to be len({p.id})')
                    return self.typed(p, 'factors'), f'idict:{k}'
                fail(n, 'only dict(zip(range(k), P)) with k = len(P) is supported')
            if f.id == 'reduce' and len(args) == 3 and not kws:
                lam, xs, init = args
                if not (isinstance(lam, ast.Lambda) and [a.arg for a in lam.args.args] == ['x', 'y'] and isinstance(lam.body, ast.BinOp)
                        and ast.unparse(lam.body.left) == 'x' and ast.unparse(lam.body.right) == 'y'
                        and isinstance(lam.body.op, (ast.Add, ast.Mult))):
                    fail(n, 'reduce: the function must be `lambda x,y: x+y` or `lambda x,y: x*y`')
                self.gen.need_reduce(n)
                xt, xty = self.expr(xs)
                if xty not in ('factors', 'idict'):
                    fail(n, f'reduce over {xty}')
                return self.fold_py(n, 'add' if isinstance(lam.body.op, ast.Add) else 'mul', xt, init)
            if f.id == 'sum' and len(args) == 1 and not kws and isinstance(args[0], ast.GeneratorExp):
                g = args[0]
                if len(g.generators) != 1 or g.generators[0].ifs or not isinstance(g.generators[0].target, ast.Name):
                    fail(n, 'unsupported generator')
                xs, tx = self.expr(g.generators[0].iter)
                if tx not in ELEM:
                    fail(n, f'generator over {tx}')
                v = g.generators[0].target.id
                inner = self.sub()
                inner.env[v] = (v, ELEM[tx])
                inner.dead.pop(v, None)
                et = inner.typed(g.elt, 'factor')
                return self.fold_py(n, 'add', f'({xs}.map (fun {v} => {et}))', ast.Constant(0))      # sum(xs) = reduce(+, xs, 0)
            fail(n, 'unsupported function')
        if isinstance(f, ast.Attribute) and isinstance(f.value, ast.Name) and f.value.id == 'np':
            if f.attr == 'log' and len(args) == 1 and not kws:
                return f'(Scalar.log {self.typed(args[0], "scalar")})', 'scalar'
            if f.attr == 'exp' and len(args) == 1 and not kws:
                t, ty = self.as_factor(args[0])
                if ty == 'factor':
                    self.gen.need_factor_method('exp', n)
                    return f'(Factor.exp {t})', 'factor'        # numpy applies a ufunc to an object by calling its method `.exp()`
            fail(n, 'unsupported numpy function')
        if isinstance(f, ast.Attribute):
            m = f.attr
            # idict views
            if isinstance(f.value, ast.Name) and self.env.get(f.value.id, (None, ''))[1].startswith('idict') and m == 'values' and not args and not kws:
                return self.expr(f.value)[0], 'idict'
            base, tb = self.expr(f.value)
            if tb == 'dom':
                if m == 'invert' and len(args) == 1 and not kws:
                    return f'(Dom.invert {base} {self.typed(args[0], "attrs", "attrset")})', 'attrs'   # reads membership only
                if m == 'size' and not args and not kws:
                    return f'(Dom.size {base})', 'nat'
                fail(n, 'unsupported Domain method')
            if tb == 'pyval':
                base, tb = f'(PyVal.asFactor {base})', 'factor'
            if tb == 'factor':
                if m in ('logsumexp', 'sum', 'max'):
                    self.gen.need_factor_method(m, n)
                    if not args and not kws:
                        return f'(Factor.{m}All {base})', 'scalar'
                    if len(args) == 1 and not kws:
                        return f'(Factor.{m} {base} {self.typed(args[0], "attrs")})', 'factor'
                if m == 'exp' and not args:
                    self.gen.need_factor_method('exp', n)
                    if not kws:
                        return f'(Factor.exp {base})', 'factor'
                    if set(kws) == {'out'} and ast.unparse(kws['out']) == ast.unparse(f.value):
                        self.gen.need_exp_out(n)
                        self.inplace_guard(f.value, n)
                        return f'(expInto {base} {base})', 'factor'
                if m == 'copy' and not args and not kws:
                    self.gen.need_factor_method('copy', n)
                    return f'(Factor.copy {base})', 'newfactor'
                if m == 'expand' and len(args) == 1 and not kws:
                    self.gen.need_factor_method('expand', n)
                    return f'(Factor.expand {base} {self.typed(args[0], "dom")})', 'factor'
                if m == 'datavector' and len(args) <= 1 and not kws:
                    if len(args) == 1 and self.spec['consts'].get(ast.unparse(args[0])) is not True:
                        fail(n, 'datavector: only the flatten=True variant is translated')
                    if not args:
                        self.gen.need_default('datavector', 'flatten', True, n)
                    return f'(Factor.datavector {base})', 'flat'
            if tb == 'pfactor':
                if m == 'log' and not args and not kws:
                    self.gen.need_factor_method('log', n)
                    return f'(logf {base})', 'factor'
                if m == 'project' and len(args) == 1 and not kws:
                    self.gen.need_default('project', 'agg', 'sum', n)
                    return f'(Factor.projectSum {base} {self.typed(args[0], "attrs", "attrset")})', 'pfactor'
            fail(n, f'unsupported method `{m}` of {tb}')
        fail(n, 'unsupported call')

    def dictcomp(self, n):
        """{cl: E for cl in d}: iterating a dict lists its keys (distinct), in order"""
        if len(n.generators) != 1 or n.generators[0].ifs or not isinstance(n.generators[0].target, ast.Name):
            fail(n, 'unsupported comprehension')
        g = n.generators[0]
        d, td = self.expr(g.iter)
        v = g.target.id
        if td not in ('cvec',) or not (isinstance(n.key, ast.Name) and n.key.id == v):
            fail(n, 'only {k: E for k in <dict>} with the key itself is supported')
        inner = self.sub()
        inner.env[v] = (v, 'clique')
        inner.dead.pop(v, None)
        et, ety = inner.expr(n.value)
        if ety == 'newfactor':
            return f'(({d}.map Prod.fst).map (fun {v} => ({v}, {et})))', 'cvec!'      # every value is a fresh object
        if ety == 'factor':
            return f'(({d}.map Prod.fst).map (fun {v} => ({v}, {et})))', 'cvec'
        fail(n, f'unsupported value type {ety}')

    def inplace_guard(self, target, node):
        """`target` (d[k]) is updated in place: d must own its factors, and every alias of d's entries dies"""
        if not (isinstance(target, ast.Subscript) and isinstance(target.value, ast.Name)):
            fail(node, 'in-place update of something that is not a dictionary entry')
        d = target.value.id
        if d not in self.owned:
            fail(node, f'in-place update of an entry of `{d}`, whose factors may be shared with an argument of the function (no .copy())')
        for name, src in list(self.alias.items()):
            if src == d:
                self.dead[name] = f'it may be the object `{d}[…]` updated in place at line {node.lineno}'
                del self.alias[name]

    # ---------------------------------------------------------------- statements
    def bind(self, name, term, ty, st, annotate=False):
        self.spec['consts'].pop(name, None)
        if ty == 'newfactor':
            ty = 'factor'
        if ty == 'cvec!':
            ty = 'cvec'
            self.owned.add(name)
        elif name in self.owned:
            self.owned.discard(name)
        if ty == 'lenof' or ty.startswith('idict:'):
            self.env[name] = (term, ty)
            if ty.startswith('idict:'):
                self.counters[name] = ty.split(':')[1]
                self.lets.append(f'let {name} : {LEANTY["idict"]} := {term}')
                self.env[name] = (name, ty)
            self.dead.pop(name, None)
            return
        if ty == 'setval':
            fail(st, 'a set value can only be turned into a tuple at once')
        if ty not in LEANTY:
            fail(st, f'cannot bind a value of type {ty}')
        ann = f' : {LEANTY[ty]}' if annotate else ''
        self.lets.append(f'let {name}{ann} := {term}')
        self.env[name] = (name, ty)
        self.dead.pop(name, None)
        self.alias.pop(name, None)

    def alias_source(self, v):
        """the dictionary `v` reads an entry of without creating a new object, if any"""
        if isinstance(v, ast.Subscript) and isinstance(v.value, ast.Name) and self.env.get(v.value.id, (None, None))[1] in DICTS:
            return v.value.id
        return None

    def run(self, stmts):
        """-> (term, type) of the returned value, or None when the block falls through"""
        for idx, st in enumerate(stmts):
            if is_doc(st):
                continue
            if self.pending_incr is not None:
                k = self.pending_incr
                if not (isinstance(st, ast.AugAssign) and isinstance(st.target, ast.Name) and st.target.id == k and isinstance(st.op, ast.Add)
                        and isinstance(st.value, ast.Constant) and st.value.value == 1):
                    fail(st, f'`{k} += 1` must follow the insertion under the key `{k}` at once (fresh keys)')
                self.pending_incr = None
                continue
            if isinstance(st, ast.Assign) and len(st.targets) == 1:
                self.assign(st.targets[0], st.value, st)
                continue
            if isinstance(st, ast.AugAssign):
                self.augassign(st)
                continue
            if isinstance(st, ast.Expr) and isinstance(st.value, ast.Call) and isinstance(st.value.func, ast.Attribute) \
                    and st.value.func.attr == 'update' and isinstance(st.value.func.value, ast.Name) and len(st.value.args) == 1 and not st.value.keywords:
                s = st.value.func.value.id
                cur = self.typed(st.value.func.value, 'varset')
                c = self.typed(st.value.args[0], 'clique')
                self.bind(s, f'(JT.union {cur} {c})', 'varset', st)
                continue
            if isinstance(st, ast.If):
                r = self.if_(st)
                if r is not None:
                    return r
                continue
            if isinstance(st, ast.For):
                self.for_(st)
                continue
            if isinstance(st, ast.Return) and st.value is not None:
                t, ty = self.expr(st.value)
                return t, ty
            fail(st, 'unsupported statement')
        if self.pending_incr is not None:
            fail(stmts[-1], f'`{self.pending_incr} += 1` must follow the insertion at once')
        return None

    def assign(self, tg, v, st):
        if isinstance(tg, ast.Name):
            x = tg.id
            if isinstance(v, ast.Dict) and not v.keys:
                ty = self.spec['locals'].get(x) or fail(st, f'no declared type for the empty dictionary `{x}`')
                if ty not in DICTS:
                    fail(st, f'`{x}` is declared {ty}, not a dictionary')
                self.bind(x, '[]', ty, st, annotate=True)
                self.owned.add(x)
                return
            if isinstance(v, ast.Call) and isinstance(v.func, ast.Name) and v.func.id == 'set' and not v.args and not v.keywords:
                if self.spec['locals'].get(x) != 'varset':
                    fail(st, f'no declared type for the empty set `{x}`')
                self.bind(x, '[]', 'varset', st, annotate=True)
                return
            if isinstance(v, ast.ListComp):
                self.pop_comprehension(x, v, st)
                return
            t, ty = self.expr(v)
            src = self.alias_source(v)
            self.bind(x, t, ty, st, annotate=(ty in ('cvec!',)))
            if src is not None:
                self.alias[x] = src
            return
        if isinstance(tg, ast.Subscript) and isinstance(tg.value, ast.Name):
            d = tg.value.id
            base, tb = self.expr(tg.value)
            if tb in DICTS:
                k = self.typed(tg.slice, KEYTY[tb])
                t, ty = self.expr(v)
                if ty == 'newfactor':
                    ty = 'factor'
                if ty != VALTY[tb]:
                    fail(st, f'stores a {ty} in a {tb}')
                setter = 'GM.dictSet' if tb == 'msgs' else 'CliqueVec.set'
                was_owned = d in self.owned
                src = self.alias_source(v)
                self.bind(d, f'({setter} {base} {k} {t})', tb, st)
                if was_owned and (src is None or src == d):
                    self.owned.add(d)
                return
            if tb.startswith('idict:'):
                k = tb.split(':')[1]
                if not (isinstance(tg.slice, ast.Name) and tg.slice.id == k):
                    fail(st, f'insertion into `{d}` under a key other than its fresh counter `{k}`')
                t = self.typed(v, 'factor')
                self.lets.append(f'let {d} := ({base} ++ [{t}])')
                self.pending_incr = k
                return
        fail(st, 'unsupported assignment')

    def augassign(self, st):
        tg = st.target
        if isinstance(tg, ast.Subscript) and isinstance(tg.value, ast.Name) and isinstance(st.op, ast.Add):
            d = tg.value.id
            base, tb = self.expr(tg.value)
            if tb == 'cvec':
                k = self.typed(tg.slice, 'clique')
                t, ty = self.expr(st.value)          # evaluated before the update
                self.inplace_guard(tg, st)
                cur = f'(CliqueVec.get {base} {k})'
                self.gen.need_iadd(st)
                if ty == 'factor':
                    new = f'(Factor.iadd {cur} {t})'
                elif ty == 'scalar':
                    new = f'(Factor.iaddScalar {cur} {t})'
                else:
                    fail(st, f'+= with a {ty}')
                # d[k] += e  is  d[k] = d[k].__iadd__(e): the (same) object is stored back under k
                self.bind(d, f'(CliqueVec.set {base} {k} {new})', 'cvec', st)
                self.owned.add(d)
                return
        fail(st, 'unsupported augmented assignment')

    def pop_comprehension(self, x, v, st):
        """psi2 = [psi.pop(i) for i in list(psi.keys()) if C]"""
        g = v.generators[0] if len(v.generators) == 1 else fail(st, 'unsupported comprehension')
        e = v.elt
        ok = isinstance(g.target, ast.Name) and len(g.ifs) == 1 and isinstance(e, ast.Call) and isinstance(e.func, ast.Attribute) \
            and e.func.attr == 'pop' and isinstance(e.func.value, ast.Name) and len(e.args) == 1 and not e.keywords \
            and isinstance(e.args[0], ast.Name) and e.args[0].id == g.target.id
        if not ok:
            fail(st, 'only [d.pop(i) for i in list(d.keys()) if C] is supported')
        d, i = e.func.value.id, g.target.id
        if ast.unparse(g.iter) != f'list({d}.keys())':
            fail(st, f'the keys must be snapshotted: list({d}.keys())')
        base, tb = self.expr(e.func.value)
        if not tb.startswith('idict:'):
            fail(st, f'pop on {tb}')
        # the condition may read d[i] only
        cond = _copy.deepcopy(g.ifs[0])

        class R(ast.NodeTransformer):
            def visit_Subscript(s, node):
                if ast.unparse(node) == f'{d}[{i}]':
                    return ast.copy_location(ast.Name(id='__f', ctx=ast.Load()), node)
                return s.generic_visit(node)
        cond = R().visit(cond)
        for nm in ast.walk(cond):
            if isinstance(nm, ast.Name) and nm.id in (d, i):
                fail(st, f'the filter may read `{d}[{i}]` only')
        inner = self.sub()
        inner.env['__f'] = ('f', 'factor')
        c = inner.typed(cond, 'bool')
        self.lets.append(f'let {x} : {LEANTY["factors"]} := {base}.filter (fun f => {c})')
        self.env[x] = (x, 'factors')
        self.dead.pop(x, None)
        self.lets.append(f'let {d} := {base}.filter (fun f => !{c})')

    def if_(self, st):
        s = self.spec['consts'].get(ast.unparse(st.test)) if isinstance(st.test, ast.Name) else None
        if isinstance(s, bool):
            blk = st.body if s else st.orelse
            return self.run(blk) if blk else None
        c = self.typed(st.test, 'bool')

        def single(blk):
            blk = [b for b in blk if not is_doc(b)]
            if len(blk) == 1 and isinstance(blk[0], ast.Assign) and len(blk[0].targets) == 1 and isinstance(blk[0].targets[0], ast.Name):
                return blk[0].targets[0].id, blk[0].value
            fail(st, 'each branch must be one assignment to a name')
        (x, a), (y, b) = single(st.body), single(st.orelse)
        if x != y:
            fail(st, 'the branches bind different names')
        (ta, tya), (tb_, tyb) = self.expr(a), self.expr(b)
        tya, tyb = ('factor' if t == 'newfactor' else t for t in (tya, tyb))
        if tya != tyb:
            fail(st, f'the branches have different types ({tya} / {tyb})')
        srcs = {self.alias_source(a), self.alias_source(b)} - {None}
        self.bind(x, f'if {c} then {ta} else {tb_}', tya, st)
        if srcs:
            if len(srcs) > 1:
                fail(st, 'aliases of two dictionaries')
            self.alias[x] = srcs.pop()
        return None

    def for_(self, st):
        if st.orelse:
            fail(st, 'for … else')
        xs, tx = self.expr(st.iter)
        if tx not in ELEM or tx == 'idict':
            fail(st, f'loop over {tx}')
        et = ELEM[tx]
        inner = self.sub()
        inner.lets = []
        # loop targets
        if isinstance(st.target, ast.Name):
            tnames, pat, var = [st.target.id], None, st.target.id
            inner.env[var] = (var, et)
        elif isinstance(st.target, ast.Tuple) and et == 'edge' and len(st.target.elts) == 2 and all(isinstance(e, ast.Name) for e in st.target.elts):
            tnames = [e.id for e in st.target.elts]
            var = ''.join(tnames)
            pat = f'let ({tnames[0]}, {tnames[1]}) := {var}'
            for t in tnames:
                inner.env[t] = (t, 'clique')
        else:
            fail(st, 'unsupported loop target')
        for t in tnames:
            inner.dead.pop(t, None)
        bound = assigned_names(st.body)
        state = [x for x in self.env if x in bound and x not in tnames and not self.env[x][1] == 'lenof']
        state = [x for x in state if not (x in self.counters.values())]      # the key counter of an idict is not a value
        if not state:
            fail(st, 'a loop that updates nothing')
        tys = []
        for x in state:
            ty = self.env[x][1]
            tys.append(LEANTY['idict'] if ty.startswith('idict:') else LEANTY[ty])
        r = inner.run(st.body)
        if r is not None:
            fail(st, 'return inside a loop')
        for x in state:
            if inner.env[x][1] != self.env[x][1]:
                fail(st, f'`{x}` changes its type inside the loop')
            if x in inner.dead:
                fail(st, f'`{x}` is dead at the end of the loop body')
        tup = state[0] if len(state) == 1 else '(' + ', '.join(state) + ')'
        sty = tys[0] if len(state) == 1 else ' × '.join(tys)
        svar = state[0] if len(state) == 1 else 'st'
        lines = [f'{xs}.foldl (fun ({svar} : {sty}) ({var} : {LEANTY[et]}) =>']
        if len(state) > 1:
            lines.append(f'  let {tup} := st')
        if pat:
            lines.append('  ' + pat)
        lines += [ind(l, 2) for l in inner.lets]
        lines.append(f'  {tup}) {tup}')
        self.lets.append(f'let {tup} := ' + '\n  '.join(lines))
        # what survives the loop
        self.owned = {x for x in self.owned if x not in state} | {x for x in state if x in inner.owned}
        for x in bound:
            if x not in state and x not in self.counters.values():
                self.dead[x] = 'bound inside a loop (or a loop target): its value after the loop is not modelled'
                self.env.pop(x, None)
        for x in list(self.alias):
            if self.alias[x] in state:
                self.dead[x] = 'alias of a dictionary updated by a loop'


# ---------------------------------------------------------------------------- the definitions to generate
ORDER_T, CLIQUES_T = ('message_order', 'order'), ('cliques', 'cliques')
SPECS = [
    dict(py='belief_propagation', lean='bpLoop', cls=True, upto_first_for=True,
         params=[('message_order', 'order', 'self'), ('potentials', 'cvec', 'arg')], consts={},
         locals={'messages': 'msgs'}, ret='state',
         doc='the state `(beliefs, messages)` after the message loop'),
    dict(py='belief_propagation', lean='logZ', cls=True, after='bpLoop',
         params=[('cliques', 'cliques', 'self'), ('message_order', 'order', 'self'), ('potentials', 'cvec', 'arg')], consts={'logZ': True},
         locals={'messages': 'msgs'}, ret='scalar', doc='variant logZ=True'),
    dict(py='belief_propagation', lean='beliefPropagation', cls=True, after='bpLoop',
         params=[('cliques', 'cliques', 'self'), ('message_order', 'order', 'self'), ('potentials', 'cvec', 'arg'), ('total', 'scalar', 'self')],
         consts={'logZ': False}, locals={'messages': 'msgs'}, ret='cvec', doc='variant logZ=False'),
    dict(py='variable_elimination_logspace', lean='veLogspace', cls=False,
         params=[('potentials', 'factors', 'arg'), ('elim', 'attrs', 'arg'), ('total', 'scalar', 'arg')], consts={}, locals={}, ret='factor', doc=''),
    dict(py='variable_elimination', lean='variableElimination', cls=False,
         params=[('factors', 'factors', 'arg'), ('elim', 'attrs', 'arg')], consts={}, locals={}, ret='pyval', doc=''),
    dict(py='datavector', lean='datavector', cls=True, two=True, extra='(plain : α → β)',
         params=[('domain', 'dom', 'self'), ('cliques', 'cliques', 'self'), ('potentials', 'cvec', 'self'), ('total', 'pscalar', 'self')],
         consts={'flatten': True}, locals={}, ret='pflat',
         doc='variant flatten=True; `plain` re-reads an exponentiated log-space cell as a plain number (the identity for floats), '
             'applied where the flat vector meets plain arithmetic'),
    dict(py='mle', lean='mle', cls=True, two=True, extra='(logf : Factor β → Factor α)',
         params=[('cliques', 'cliques', 'self'), ('marginals', 'pcvec', 'arg')], consts={}, locals={'potentials': 'cvec', 'variables': 'varset'},
         ret='cvec', doc='`logf` is `Factor.log` from plain space into log space (as in the hand model)'),
]
PYARGS = {'belief_propagation': (['self', 'potentials', 'logZ'], {'logZ': False}), 'variable_elimination_logspace': (['potentials', 'elim', 'total'], {}),
          'variable_elimination': (['factors', 'elim'], {}), 'datavector': (['self', 'flatten'], {'flatten': True}), 'mle': (['self', 'marginals'], {})}
SKIPPED = ['__init__', 'save', 'load', 'project', 'krondot', 'calculate_many_marginals', 'fit', 'synthetic_data', 'greedy_order']
# self.<field> = tree.<method>() in __init__: what the model takes as an input of the same name
INIT_FIELDS = {'cliques': 'self.cliques = tree.maximal_cliques()', 'message_order': 'self.message_order = tree.mp_order()',
               'sep_axes': 'self.sep_axes = tree.separator_axes()', 'total': 'self.total = total', 'domain': 'self.domain = domain'}


class Generator:
    def __init__(self, srcs):
        self.srcs = srcs
        tree = ast.parse(srcs['graphical_model.py'])
        self.cls = next((n for n in tree.body if isinstance(n, ast.ClassDef) and n.name == 'GraphicalModel'), None) \
            or fail('module', 'class GraphicalModel not found')
        self.methods = {n.name: n for n in self.cls.body if isinstance(n, ast.FunctionDef)}
        self.funcs = {n.name: n for n in tree.body if isinstance(n, ast.FunctionDef)}
        self.imports = [ast.unparse(n) for n in tree.body if isinstance(n, (ast.Import, ast.ImportFrom))]
        known = set(SKIPPED) | {s['py'] for s in SPECS}
        for name in list(self.methods) + list(self.funcs):
            if name not in known:
                fail(self.methods.get(name) or self.funcs.get(name), 'a function this translator neither translates nor lists as skipped')
        self.out = []
        self.state = {}
        self._cache = {}

    # ---- facts about the other modules the translation relies on: each is re-read from the source
    def _cls(self, file, cname):
        key = (file, cname)
        if key not in self._cache:
            src = self.srcs.get(file)
            if src is None:
                fail(cname, 'source file missing', file)
            c = next((n for n in ast.parse(src).body if isinstance(n, ast.ClassDef) and n.name == cname), None) or fail(cname, 'class not found', file)
            self._cache[key] = {f.name: f for f in c.body if isinstance(f, ast.FunctionDef)}
        return self._cache[key]

    def _body(self, file, cname, meth, node):
        fn = self._cls(file, cname).get(meth) or fail(node, f'{cname}.{meth} not found', file)
        return fn, [ast.unparse(s) for s in fn.body if not is_doc(s)]

    def need_field(self, field, node):
        init = self.methods.get('__init__') or fail(node, '__init__ not found')
        want = INIT_FIELDS.get(field)
        if want is not None:
            if want not in [ast.unparse(s) for s in init.body]:
                fail(node, f'__init__ no longer says `{want}`')
            if 'tree = JunctionTree(domain, cliques, elimination_order)' not in [ast.unparse(s) for s in init.body]:
                fail(node, '__init__ no longer builds `tree = JunctionTree(domain, cliques, elimination_order)`')
        if field == 'sep_axes':
            fn, body = self._body('junction_tree.py', 'JunctionTree', 'separator_axes', node)
            if body != norm('return {(i, j): tuple(set(i) & set(j)) for i, j in self.mp_order()}'):
                fail(fn, 'JunctionTree.separator_axes is not `{(i,j): tuple(set(i)&set(j)) for i,j in self.mp_order()}`', 'junction_tree.py')

    def need_domain_contains(self, node):
        fn, body = self._body('domain.py', 'Domain', '__contains__', node)
        if body != norm('return attr in self.attrs'):
            fail(fn, 'Domain.__contains__ is not `return attr in self.attrs`', 'domain.py')

    def need_rdunder(self, op, node):
        for d in (f'__r{op}__',):
            fn, body = self._body('factor.py', 'Factor', d, node)
            if body != norm(f'return self.__{op}__(other)'):
                fail(fn, f'Factor.{d} no longer delegates to __{op}__', 'factor.py')

    def need_iadd(self, node):
        self._body('factor.py', 'Factor', '__iadd__', node)

    def need_factor_method(self, m, node):
        self._body('factor.py', 'Factor', m, node)

    def need_exp_out(self, node):
        fn, body = self._body('factor.py', 'Factor', 'exp', node)
        if [a.arg for a in fn.args.args] != ['self', 'out'] or body != norm(
                'if out is None:\n    return Factor(self.domain, np.exp(self.values))\nnp.exp(self.values, out=out.values)\nreturn out'):
            fail(fn, 'Factor.exp: the `out` branch is not `np.exp(self.values, out=out.values); return out`', 'factor.py')

    def need_default(self, meth, param, value, node):
        fn, _ = self._body('factor.py', 'Factor', meth, node)
        names = [a.arg for a in fn.args.args]
        ds = dict(zip(names[len(names) - len(fn.args.defaults):], fn.args.defaults))
        d = ds.get(param)
        if not (isinstance(d, ast.Constant) and d.value == value and type(d.value) is type(value)):
            fail(fn, f'Factor.{meth}: the default of `{param}` is no longer {value!r}', 'factor.py')

    def need_cv_ctor(self, node):
        fn, body = self._body('clique_vector.py', 'CliqueVector', '__init__', node)
        if body != norm('self.dictionary = dictionary\ndict.__init__(self, dictionary)'):
            fail(fn, 'CliqueVector.__init__ is not the plain dict constructor', 'clique_vector.py')

    def need_reduce(self, node):
        if 'from functools import reduce' not in self.imports:
            fail(node, '`reduce` is not functools.reduce')

    # ---- one definition
    def one(self, spec):
        spec = dict(spec)
        spec['consts'] = dict(spec['consts'])
        py = spec['py']
        fn = (self.methods if spec['cls'] else self.funcs).get(py) or fail('module', f'{py} not found')
        names, defaults = PYARGS[py]
        a = fn.args
        if [x.arg for x in a.args] != names or a.vararg or a.kwarg or a.kwonlyargs or a.posonlyargs or fn.decorator_list:
            fail(fn, f'signature changed: {[x.arg for x in a.args]}')
        ds = dict(zip(names[len(names) - len(a.defaults):], a.defaults))
        if set(ds) != set(defaults) or any(not (isinstance(ds[k], ast.Constant) and ds[k].value is v) for k, v in defaults.items()):
            fail(fn, 'defaults changed')
        spec['fields'] = {'sep_axes': ('sep_axes', 'sepdict')}
        spec['fields_ok'] = {'self'} if spec['cls'] else set()
        spec['used'] = set()
        env = {}
        for p, t, kind in spec['params']:
            if kind == 'self':
                spec['fields'][p] = (p, t)
            else:
                if p not in names:
                    fail(fn, f'parameter `{p}` not found')
                env[p] = (p, t)
        for p in names:
            if p != 'self' and p not in env and p not in spec['consts'] and not spec.get('upto_first_for'):   # (a prefix reading it would stop at `unknown name`)
                fail(fn, f'parameter `{p}` is neither translated nor fixed by the variant')
        body = [s for s in fn.body if not is_doc(s)]
        fors = [i for i, s in enumerate(body) if isinstance(s, ast.For)]
        tr = Tr(self, spec, env)
        if spec.get('upto_first_for'):
            if not fors:
                fail(fn, 'no loop')
            r = tr.run(body[:fors[0] + 1])
            if r is not None:
                fail(fn, 'return before the end of the loop')
            st = body[fors[0]]
            state = [x for x in tr.env if x in assigned_names(st.body) and x not in tr.dead]
            if len(state) < 2:
                fail(st, 'the message loop must carry at least two state variables')
            tys = [tr.env[x][1] for x in state]
            self.state[spec['lean']] = (state, tys, set(tr.owned), fors[0] + 1, [p for p, _, _ in spec['params']], set(spec['used']))
            term, rty = '(' + ', '.join(state) + ')', ' × '.join(LEANTY[t] for t in tys)
        else:
            if spec.get('after'):
                state, tys, owned, cut, pparams, pused = self.state.get(spec['after']) or fail(fn, f'{spec["after"]} was not generated')
                spec['used'] |= pused
                tup = '(' + ', '.join(state) + ')'
                tr.lets.append(f'let {tup} := {spec["after"]} ' + ' '.join(pparams))
                for x, t in zip(state, tys):
                    tr.env[x] = (x, t)
                tr.owned |= owned
                body = body[cut:]
            r = tr.run(body)
            if r is None:
                fail(fn, 'no return value on this path')
            term, ty = r
            if ty != spec['ret']:
                fail(fn, f'`{spec["lean"]}` returns {ty}, expected {spec["ret"]}')
            rty = LEANTY[ty]
        declared = {p for p, _, k in spec['params'] if k == 'self'}
        if spec['used'] - declared - {'sep_axes'}:
            fail(fn, f'uses undeclared fields {spec["used"] - declared}')
        if declared - spec['used']:
            fail(fn, f'no longer reads self.{sorted(declared - spec["used"])[0]}')
        ps = ' '.join(f'({p} : {LEANTY[t]})' for p, t, _ in spec['params'])
        two = '{β : Type} [Scalar β] ' if spec.get('two') else ''
        extra = spec.get('extra', '') + ' ' if spec.get('extra') else ''
        where = f'`{"GraphicalModel." if spec["cls"] else ""}{py}` (graphical_model.py:{fn.lineno})'
        doc = f'{where}' + (f' — {spec["doc"]}' if spec['doc'] else '')
        text = '\n  '.join(ind(l, 0).replace('\n', '\n  ') for l in tr.lets + [term])
        self.out.append(f'/-- {doc} -/\ndef {spec["lean"]} {two}{extra}{ps} : {rty} :=\n  {text}\n')

    def run(self):
        for spec in SPECS:
            self.one(spec)
        return self.out


HEADER = '''/- GENERATED by tools/py2gm.py from src/mbi/graphical_model.py — do not edit
   Statement-level translation of `GraphicalModel.belief_propagation` (`bpLoop` = the body up to the end of the message loop, emitted
   once; `logZ` and `beliefPropagation` = the two exits, both starting from it), `variable_elimination_logspace`,
   `variable_elimination`, `GraphicalModel.datavector` (flatten=True) and `GraphicalModel.mle`.
   Python dictionaries are association lists in insertion order; `d[k] = v` keeps the position of an existing key.
   NOT translated here: __init__ (translated by tools/py2gminit.py -> GraphicalModelInitG.lean, composed in Properties/C01E.lean; here its fields `cliques`, `message_order`, `total`, `domain` are inputs; `sep_axes[(i,j)]` is read as
   `JT.inter i j`, which junction_tree.py is checked to define up to the order of the tuple), save, load, project (calls
   greedy_order, whose result the theorems do not depend on), krondot, calculate_many_marginals, fit, synthetic_data, greedy_order.
   Unordered values: `sep_axes[(i,j)] = tuple(set(i)&set(j))` has no specified order; it is only passed to `Domain.invert`, which reads
   membership only (`Dom.invert_congr`).  `new = tuple(variables & set(cl))` in `mle` has no specified order either; it is listed as
   the attributes of `cl` that are in `variables`, in `cl`'s order (the hand model's choice) — `Factor.project(new)` depends on it,
   the difference `log m - log (m.project new)` (which expands the second operand onto the first one's domain) is what is used. -/
import PGM.Model.GM
set_option linter.unusedVariables false
namespace PGM.GMG
open PGM

/-! ## fixed prelude: Python values that are not (yet) factors, dictionary reads, the in-place `exp` -/

/-- the accumulator of `reduce(f, xs, 0)` / `sum(xs)`: a Python number or a Factor -/
inductive PyVal (α : Type) where
  | num (c : α)
  | fac (f : Factor α)

variable {α : Type} [Scalar α]

/-- `x + y` by Python's dispatch: `number + factor` is `int.__add__` -> NotImplemented -> `Factor.__radd__` -> `Factor.__add__`
(scalar branch, `Factor(domain, other + values)`); `factor + number` is the same branch; `factor + factor` is `Factor.add` -/
def PyVal.add : PyVal α → PyVal α → PyVal α
  | .num a, .num b => .num (Scalar.add a b)
  | .num c, .fac f => .fac (Factor.addScalar c f)
  | .fac f, .num c => .fac (Factor.addScalar c f)
  | .fac f, .fac g => .fac (Factor.add f g)

/-- `x * y` likewise: `number * factor` is `Factor.__rmul__` -> `Factor.__mul__` (scalar branch, with its `nan_to_num`) -/
def PyVal.mul : PyVal α → PyVal α → PyVal α
  | .num a, .num b => .num (Scalar.mul a b)
  | .num c, .fac f => .fac (Factor.mulScalar c f)
  | .fac f, .num c => .fac (Factor.mulScalar c f)
  | .fac f, .fac g => .fac (Factor.mul f g)

/-- a value used as a Factor (method call / Factor operand).  On a number Python raises AttributeError ('int' object has no
attribute …); the definitions are total with the model's default, the theorems exclude the case -/
def PyVal.asFactor : PyVal α → Factor α
  | .fac f => f
  | .num _ => Factor.zeros []

/-- `messages[k]` (KeyError in Python when absent: the model's default) -/
def msgGet (m : GM.Msgs α) (k : JT.Clique × JT.Clique) : Factor α := (List.lookup k m).getD (Factor.zeros [])

/-- `self.exp(out=out)` (factor.py, the `out` branch): `np.exp(self.values, out=out.values); return out` — `out` keeps its domain
and the shape of its array, the cells are `exp` of `self`'s (called with `out` = `self` only) -/
def expInto (self out : Factor α) : Factor α := Factor.mk (Factor.dom out) (NdArr.mk (NdArr.shape (Factor.vals out)) ((NdArr.data (Factor.vals self)).map Scalar.exp))

/-! ## the translated definitions -/

'''


def main():
    ap = argparse.ArgumentParser()
    ap.add_argument('--repo', default='/repo')
    ap.add_argument('--out', required=True)
    a = ap.parse_args()
    try:
        srcs = {}
        for f in ('graphical_model.py', 'factor.py', 'domain.py', 'junction_tree.py', 'clique_vector.py'):
            p = os.path.join(a.repo, 'src', 'mbi', f)
            if os.path.exists(p):
                srcs[f] = open(p).read()
        if 'graphical_model.py' not in srcs:
            raise OSError('src/mbi/graphical_model.py not found')
        defs = Generator(srcs).run()
    except Untranslatable as e:
        print('py2gm: source outside the translatable subset:', e)
        return 1
    except (OSError, SyntaxError) as e:
        print('py2gm: source outside the translatable subset:', f'cannot read/parse the source: {e}')
        return 1
    os.makedirs(a.out, exist_ok=True)
    with open(os.path.join(a.out, 'GraphicalModelG.lean'), 'w') as f:
        f.write(HEADER + '\n'.join(defs) + '\nend PGM.GMG\n')
    print(f'py2gm: {len(defs)} definitions')
    return 0


if __name__ == '__main__':
    sys.exit(main())
