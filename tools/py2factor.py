#!/usr/bin/env python3
"""tools/py2factor.py --repo R --out DIR

Translates `src/mbi/factor.py` (class Factor, numpy code) into Lean definitions over the numpy contracts of
`PGM/Model/NdArr.lean` (`PGM/Generated/FactorG.lean`, namespace `PGM.FG`).  `PGM/Properties/C14F.lean` proves every
generated definition equal to the hand-written model `PGM/Model/Factor.lean`, so the factor algebra of C14 is
re-checked against what the source says now.

It is an expression translator, recursive over the AST, with a small type discipline:
  arr (NdArr α) | nats (shape / axes list) | attrs | dom | nat | tsub (a difference of naturals, only usable as a
  repeat count) | scalar | factor | bool | ev (evidence dict = List (Attr × Nat)) | slices | list (flat values)
Anything outside the subset makes the translator fail loudly (exit 1) — a broken obligation, never a guess.

Expressions
  F.domain, F.values, D.shape, D.attrs, D.size(), V.shape, V.ndim, V.size        views
  len(D) (= len(D.attrs): checked in domain.py), len(list), range(n), tuple(e), list(e)
  xs + ys (lists) -> ++ ; [c]*n -> List.replicate n c ; m - n (naturals, only as a repeat count)
  D.axes(a) / D.merge(E) / D.marginalize(a) / D.project(a) / D.contains(E)        -> Dom.*
  V.reshape(S), np.moveaxis(V,s,d), np.broadcast_to(V,S), np.zeros(S), np.ones(S), V.copy(), V.flatten()
  np.sum/np.max/logsumexp(V, axis=A) -> NdArr.reduceAxes ; without axis / V.max() -> NdArr.reduceAll
  V*W, V+W (arrays) -> NdArr.zipWith ; c*V, V/c, V-c, c+V, V+1e-100 -> NdArr.map ; -V
  np.nan_to_num, np.exp, np.log -> NdArr.map ; np.logaddexp(V,W) -> NdArr.zipWith Scalar.logaddexp
  np.where(V == -np.inf, c, -V)  -> NdArr.map (fun x => if … then … else …) V      (cell-wise reading over ONE array)
  vals = np.divide(A, B, where=B>c); vals[B<=c] = k   -> NdArr.zipWith (fun x t => if gt0 t then div x t else if
       le0 t then k else default) A B   (the two masks must be `B > c` and `B <= c` on the same array: they are disjoint,
       so the later masked store never overwrites a quotient; the cells under neither mask (nan) stay uninitialised = default)
  [ev[a] if a in ev else slice(None) for a in D] -> map over D.attrs (Domain.__iter__: checked) ; V[tuple(slices)] -> NdArr.take
  ev.keys() ; set(a) == set(b) ; ==, or, and on naturals / shapes
  Factor(D, V) -> mkG ; F.expand(D), F.transpose(a), F.sum(a), F.__add__(x), F + G, … -> the generated definitions
Statements: asserts (-> a Bool `pre…G`), local assignments (-> let), `self.domain = / self.values =` in __init__,
  `self.values += E` / `*= E` followed by `return self` (-> a new factor value with the same domain), `return`, and `if`
  whose test is decided by the variant being generated (`attrs is None`, `out is None`, `np.isscalar(other)`,
  `agg == 'sum'`, `flatten`): each variant is its own definition.
Left out: `random` (no random source in the model), `uniform`, `active` (fancy-index store); the `out=` branches of
copy/exp/log and the `flatten=False` branch of datavector.
"""
import argparse, ast, os, sys


class Untranslatable(Exception):
    pass


def fail(node, why):
    where = f'factor.py line {getattr(node, "lineno", "?")}'
    text = (ast.unparse(node) if isinstance(node, ast.AST) else str(node)).split('\n')[0]
    raise Untranslatable(f'{where}: {why}: {text[:160]}')


LEANTY = {'dom': 'Dom', 'arr': 'NdArr α', 'attrs': 'List Attr', 'nats': 'List Nat', 'nat': 'Nat', 'scalar': 'α',
          'factor': 'Factor α', 'bool': 'Bool', 'ev': 'List (Attr × Nat)', 'list': 'List α', 'slices': 'List (Option Nat)'}
OPN = {ast.Add: 'add', ast.Sub: 'sub', ast.Mult: 'mul', ast.Div: 'div'}
DUNDER = {ast.Add: '__add__', ast.Sub: '__sub__', ast.Mult: '__mul__', ast.Div: '__truediv__'}
REDUCERS = {'sum': 'Scalar.sum', 'max': 'Scalar.maxL', 'logsumexp': 'Scalar.lse'}
NOTNONE = object()      # a parameter that is present (its type is in the environment)
KEYWORDS = {'at', 'from', 'fun', 'end', 'open', 'in', 'let', 'do', 'then', 'else', 'if', 'match', 'with', 'where', 'have', 'show', 'by', 'def', 'instance', 'export', 'local'}


def lname(x):
    return f'«{x}»' if x in KEYWORDS else x


def scalar_const(n):
    if isinstance(n, ast.Constant) and isinstance(n.value, (int, float)) and not isinstance(n.value, bool):
        if n.value == 0:
            return 'Scalar.zero'
        if n.value == 1:
            return 'Scalar.one'
        if n.value == 1e-100:
            return 'Scalar.tiny'
    fail(n, 'unsupported numeric constant (only 0, 1, 1e-100)')


def npfun(f):
    """`np.X` -> 'X'"""
    if isinstance(f, ast.Attribute) and isinstance(f.value, ast.Name) and f.value.id == 'np':
        return f.attr
    return None


class Tr:
    """translator of one method body under one variant"""

    def __init__(self, gen, env, consts):
        self.gen = gen              # the Generator (knows which definitions exist already)
        self.env = dict(env)        # python name -> (lean term, type)
        self.consts = dict(consts)  # python parameter -> the python constant this variant fixes it to
        self.lets = []
        self.pres = []
        self.fields = {}            # __init__: self.domain / self.values
        self.mut = None             # term of self.values after an in-place update
        self.pending = {}           # name -> partially initialised array (np.divide(..., where=…))

    # ---- helpers
    def typed(self, n, *tys):
        t, ty = self.expr(n)
        if ty not in tys:
            fail(n, f'expected {"/".join(tys)}, got {ty}')
        return t

    def as_scalar(self, n):
        if isinstance(n, ast.Constant):
            return scalar_const(n)
        return self.typed(n, 'scalar')

    def arith(self, op, L, R, node):
        """cell-wise arithmetic on (term, type) pairs"""
        (a, ta), (b, tb) = L, R
        o = OPN.get(type(op)) or fail(node, 'unsupported operator')
        if ta == tb == 'arr':
            return f'(NdArr.zipWith Scalar.{o} {a} {b})', 'arr'
        if ta == 'scalar' and tb == 'arr':
            return f'(NdArr.map (fun x => Scalar.{o} {a} x) {b})', 'arr'
        if ta == 'arr' and tb == 'scalar':
            return f'(NdArr.map (fun x => Scalar.{o} x {b}) {a})', 'arr'
        fail(node, f'unsupported arithmetic on {ta} and {tb}')

    def static(self, t):
        """decide a test from the variant's constants; None when it is not static"""
        if isinstance(t, ast.Compare) and len(t.ops) == 1 and isinstance(t.left, ast.Name):
            x, op, r = t.left.id, t.ops[0], t.comparators[0]
            if isinstance(op, (ast.Is, ast.Eq)) and isinstance(r, ast.Constant) and r.value is None:
                if x in self.consts:
                    return self.consts[x] is None
                if x in self.env:
                    return False
            if isinstance(op, ast.Eq) and isinstance(r, ast.Constant) and isinstance(r.value, str) and isinstance(self.consts.get(x), str):
                return self.consts[x] == r.value
            if isinstance(op, ast.In) and isinstance(r, ast.List) and all(isinstance(e, ast.Constant) for e in r.elts) and isinstance(self.consts.get(x), str):
                return self.consts[x] in [e.value for e in r.elts]
        if isinstance(t, ast.Call) and npfun(t.func) == 'isscalar' and len(t.args) == 1 and isinstance(t.args[0], ast.Name) and not t.keywords:
            ty = self.env.get(t.args[0].id, (None, None))[1]
            if ty == 'scalar':
                return True
            if ty == 'factor':
                return False
        if isinstance(t, ast.Name) and isinstance(self.consts.get(t.id), bool):
            return self.consts[t.id]
        return None

    def pointwise(self, n, base_src, var):
        """`n` read as a function of ONE cell `var` of the array whose source text is `base_src`"""
        if ast.unparse(n) == base_src:
            return var, 'scalar'
        if isinstance(n, ast.Constant):
            return scalar_const(n), 'scalar'
        if isinstance(n, ast.UnaryOp) and isinstance(n.op, ast.USub):
            t, ty = self.pointwise(n.operand, base_src, var)
            if ty == 'scalar':
                return f'Scalar.neg {t}', 'scalar'
        if isinstance(n, ast.Compare) and len(n.ops) == 1:
            t, ty = self.pointwise(n.left, base_src, var)
            rhs = ast.unparse(n.comparators[0])
            if ty == 'scalar' and t == var:
                if isinstance(n.ops[0], ast.Eq) and rhs == '-np.inf':
                    return f'Scalar.isNegInf {t}', 'bool'
                if isinstance(n.ops[0], ast.Gt) and rhs in ('0', '0.0'):
                    return f'Scalar.gt0 {t}', 'bool'
                if isinstance(n.ops[0], ast.LtE) and rhs in ('0', '0.0'):
                    return f'Scalar.le0 {t}', 'bool'
        fail(n, f'not a supported cell-wise expression over {base_src}')

    # ---- expressions
    def expr(self, n):
        if isinstance(n, ast.Name):
            if n.id in self.pending:
                fail(n, 'use of a partially initialised array (np.divide(..., where=…) without the masked store)')
            if n.id in self.env:
                return self.env[n.id]
            fail(n, 'unknown name (or a parameter this variant fixes to a constant)')
        if isinstance(n, ast.Constant) and isinstance(n.value, int) and not isinstance(n.value, bool):
            return str(n.value), 'nat'
        if isinstance(n, ast.Attribute):
            return self.attribute(n)
        if isinstance(n, ast.Call):
            return self.call(n)
        if isinstance(n, ast.BinOp):
            return self.binop(n)
        if isinstance(n, ast.UnaryOp) and isinstance(n.op, ast.USub):
            return f'(NdArr.map (fun x => Scalar.neg x) {self.typed(n.operand, "arr")})', 'arr'
        if isinstance(n, ast.BoolOp):
            ts = [self.typed(v, 'bool') for v in n.values]
            return '(' + (' || ' if isinstance(n.op, ast.Or) else ' && ').join(ts) + ')', 'bool'
        if isinstance(n, ast.Compare) and len(n.ops) == 1:
            return self.compare(n)
        if isinstance(n, ast.IfExp):
            c = self.typed(n.test, 'bool')
            (a, ta), (b, tb) = self.expr(n.body), self.expr(n.orelse)
            if ta == 'nat' and tb == 'slicenone':
                return f'(if {c} then some {a} else none)', 'slice'
            fail(n, f'unsupported conditional expression ({ta} / {tb})')
        if isinstance(n, ast.ListComp):
            return self.comp(n)
        if isinstance(n, ast.Subscript):
            base, tb = self.expr(n.value)
            if tb == 'ev':
                return f'((List.lookup {self.typed(n.slice, "attr")} {base}).getD 0)', 'nat'
            if tb == 'arr':
                return f'(NdArr.take {base} {self.typed(n.slice, "slices")})', 'arr'
            fail(n, f'unsupported subscript of {tb}')
        fail(n, 'unsupported expression')

    def attribute(self, n):
        base, tb = self.expr(n.value)
        a = n.attr
        if tb == 'factor' and a == 'domain':
            return f'(Factor.dom {base})', 'dom'
        if tb == 'factor' and a == 'values':
            if base == 'self' and self.mut is not None:
                return self.mut, 'arr'
            return f'(Factor.vals {base})', 'arr'
        if tb == 'dom' and a == 'shape':
            return f'(Dom.shape {base})', 'nats'
        if tb == 'dom' and a == 'attrs':
            return f'(Dom.attrs {base})', 'attrs'
        if tb == 'arr' and a == 'shape':
            return f'(NdArr.shape {base})', 'nats'
        if tb == 'arr' and a == 'ndim':
            return f'(NdArr.ndim {base})', 'nat'
        if tb == 'arr' and a == 'size':
            return f'(NdArr.data {base}).size', 'nat'      # the number of cells
        fail(n, f'unknown attribute of {tb}')

    def binop(self, n):
        op = n.op
        # [c] * n
        if isinstance(op, ast.Mult) and isinstance(n.left, ast.List) and len(n.left.elts) == 1:
            c = self.typed(n.left.elts[0], 'nat')
            k = self.typed(n.right, 'nat', 'tsub')     # [c]*k is [] for k <= 0: truncated subtraction is exact here
            return f'(List.replicate {k} {c})', 'nats'
        # a numeric literal next to an array is a scalar constant
        if isinstance(n.left, ast.Constant) and not isinstance(n.right, ast.Constant):
            R = self.expr(n.right)
            L = (scalar_const(n.left), 'scalar') if R[1] == 'arr' else self.expr(n.left)
        else:
            L = self.expr(n.left)
            R = (scalar_const(n.right), 'scalar') if isinstance(n.right, ast.Constant) and L[1] == 'arr' else self.expr(n.right)
        if isinstance(op, ast.Add) and L[1] == R[1] and L[1] in ('nats', 'attrs'):
            return f'({L[0]} ++ {R[0]})', L[1]
        if isinstance(op, ast.Sub) and L[1] == R[1] == 'nat':
            return f'({L[0]} - {R[0]})', 'tsub'
        if L[1] == 'factor':
            return self.method(n, L[0], DUNDER.get(type(op)) or fail(n, 'unsupported operator'), [R])
        return self.arith(op, L, R, n)

    def compare(self, n):
        op, l, r = n.ops[0], n.left, n.comparators[0]
        isset = lambda x: isinstance(x, ast.Call) and isinstance(x.func, ast.Name) and x.func.id == 'set' and len(x.args) == 1 and not x.keywords
        if isinstance(op, ast.Eq) and isset(l) and isset(r):
            a, b = self.typed(l.args[0], 'attrs'), self.typed(r.args[0], 'attrs')
            return f'({a}.all (fun x => {b}.contains x) && {b}.all (fun x => {a}.contains x))', 'bool'
        if isinstance(op, ast.Eq):
            (a, ta), (b, tb) = self.expr(l), self.expr(r)
            if ta == tb and ta in ('nat', 'nats', 'attrs'):
                return f'({a} == {b})', 'bool'
            fail(n, f'unsupported == between {ta} and {tb}')
        if isinstance(op, ast.In):
            a, (e, te) = self.typed(l, 'attr'), self.expr(r)
            if te == 'ev':
                return f'(List.lookup {a} {e}).isSome', 'bool'
            if te == 'attrs':
                return f'({e}.contains {a})', 'bool'
        fail(n, 'unsupported comparison')

    def comp(self, n):
        if len(n.generators) != 1 or n.generators[0].ifs or n.generators[0].is_async or not isinstance(n.generators[0].target, ast.Name):
            fail(n, 'unsupported comprehension')
        g = n.generators[0]
        xs, tx = self.expr(g.iter)
        if tx == 'dom':
            self.gen.need_domain_protocol('__iter__', n)
            xs, tx = f'(Dom.attrs {xs})', 'attrs'
        if tx != 'attrs':
            fail(n, 'comprehension must range over attributes')
        v = g.target.id
        inner = Tr(self.gen, self.env, self.consts)
        inner.env[v] = (lname(v), 'attr')
        et, ety = inner.expr(n.elt)
        if ety == 'slice':
            return f'({xs}.map (fun {lname(v)} => {et}))', 'slices'
        fail(n, f'unsupported element type {ety}')

    def reduction(self, n, red, args):
        v = self.typed(args[0], 'arr')
        kws = {k.arg: k.value for k in n.keywords}
        if len(args) == 1 and not kws:
            return f'(NdArr.reduceAll {red} {v})', 'scalar'
        if len(args) == 1 and set(kws) == {'axis'}:
            return f'(NdArr.reduceAxes {red} {v} {self.typed(kws["axis"], "nats")})', 'arr'
        fail(n, 'unsupported reduction call')

    def call(self, n):
        f, args = n.func, n.args
        np_ = npfun(f)
        nokw = not n.keywords
        if isinstance(f, ast.Name):
            if f.id in ('tuple', 'list') and len(args) == 1 and nokw:
                t, ty = self.expr(args[0])
                if ty in ('nats', 'attrs', 'slices'):
                    return t, ty
                fail(n, f'tuple/list of {ty}')
            if f.id == 'len' and len(args) == 1 and nokw:
                t, ty = self.expr(args[0])
                if ty == 'dom':
                    self.gen.need_domain_protocol('__len__', n)
                    return f'(Dom.attrs {t}).length', 'nat'
                if ty in ('nats', 'attrs'):
                    return f'{t}.length', 'nat'
                fail(n, f'len of {ty}')
            if f.id == 'range' and len(args) == 1 and nokw:
                return f'(List.range {self.typed(args[0], "nat")})', 'nats'
            if f.id == 'slice' and len(args) == 1 and nokw and isinstance(args[0], ast.Constant) and args[0].value is None:
                return 'none', 'slicenone'
            if f.id == 'Factor' and len(args) == 2 and nokw:
                self.gen.require('mkG', n)
                return f'(mkG {self.typed(args[0], "dom")} {self.typed(args[1], "arr")})', 'factor'
            if f.id == 'logsumexp':
                return self.reduction(n, REDUCERS['logsumexp'], args)
            fail(n, 'unsupported function')
        if np_ is not None:
            if np_ in ('zeros', 'ones') and len(args) == 1 and nokw:
                return f'(NdArr.const {self.typed(args[0], "nats")} Scalar.{np_[:-1]})', 'arr'
            if np_ == 'moveaxis' and len(args) == 3 and nokw:
                return f'(NdArr.moveaxis {self.typed(args[0], "arr")} {self.typed(args[1], "nats")} {self.typed(args[2], "nats")})', 'arr'
            if np_ == 'broadcast_to' and len(args) == 2 and nokw:
                return f'(NdArr.broadcastTo {self.typed(args[0], "arr")} {self.typed(args[1], "nats")})', 'arr'
            if np_ in ('sum', 'max') and args:
                return self.reduction(n, REDUCERS[np_], args)
            if np_ == 'logaddexp' and len(args) == 2 and nokw:
                return f'(NdArr.zipWith Scalar.logaddexp {self.typed(args[0], "arr")} {self.typed(args[1], "arr")})', 'arr'
            if np_ in ('nan_to_num', 'exp', 'log') and len(args) == 1 and nokw:
                fn = {'nan_to_num': 'nanToNum', 'exp': 'exp', 'log': 'log'}[np_]
                return f'(NdArr.map Scalar.{fn} {self.typed(args[0], "arr")})', 'arr'
            if np_ == 'where' and len(args) == 3 and nokw:
                c = args[0]
                if not (isinstance(c, ast.Compare) and len(c.ops) == 1):
                    fail(n, 'np.where: the condition must compare one array with a constant')
                base = self.typed(c.left, 'arr')
                src = ast.unparse(c.left)
                ct, cty = self.pointwise(c, src, 'x')
                at, aty = self.pointwise(args[1], src, 'x')
                bt, bty = self.pointwise(args[2], src, 'x')
                if (cty, aty, bty) != ('bool', 'scalar', 'scalar'):
                    fail(n, 'np.where: ill-typed')
                return f'(NdArr.map (fun x => if {ct} then {at} else {bt}) {base})', 'arr'
            if np_ == 'divide' and len(args) == 2 and [k.arg for k in n.keywords] == ['where']:
                a, b = self.typed(args[0], 'arr'), self.typed(args[1], 'arr')
                m = n.keywords[0].value
                ct, cty = self.pointwise(m, ast.unparse(args[1]), 't')
                if not (cty == 'bool' and isinstance(m, ast.Compare) and isinstance(m.ops[0], ast.Gt)):
                    fail(n, 'np.divide(where=…): the mask must be `<divisor> > 0`')
                return (a, b, ast.unparse(args[1]), ct, ast.unparse(m.comparators[0])), 'parr'
            fail(n, 'unsupported numpy function')
        if isinstance(f, ast.Attribute):
            base, tb = self.expr(f.value)
            m = f.attr
            if tb == 'arr' and nokw:
                if m == 'reshape' and len(args) == 1:
                    return f'(NdArr.reshape {base} {self.typed(args[0], "nats")})', 'arr'
                if m == 'max' and not args:
                    return f'(NdArr.reduceAll {REDUCERS["max"]} {base})', 'scalar'
                if m == 'copy' and not args:
                    return f'(NdArr.mk (NdArr.shape {base}) (NdArr.data {base}))', 'arr'     # a fresh array, same shape and cells
                if m == 'flatten' and not args:
                    return f'(NdArr.data {base}).toList', 'list'
            if tb == 'dom' and nokw:
                if m == 'size' and not args:
                    return f'(Dom.size {base})', 'nat'
                if m in ('axes', 'marginalize', 'project') and len(args) == 1:
                    return f'(Dom.{m} {base} {self.typed(args[0], "attrs")})', ('nats' if m == 'axes' else 'dom')
                if m in ('merge', 'contains') and len(args) == 1:
                    return f'(Dom.{m} {base} {self.typed(args[0], "dom")})', ('dom' if m == 'merge' else 'bool')
            if tb == 'ev' and m == 'keys' and not args and nokw:
                return f'({base}.map Prod.fst)', 'attrs'
            if tb == 'factor' and nokw:
                return self.method(n, base, m, [self.expr(a) for a in args])
            fail(n, f'unsupported method of {tb}')
        fail(n, 'unsupported call')

    def method(self, node, self_t, pyname, args):
        """a call of a Factor method -> the generated definition of the matching variant"""
        tys = [ty for _, ty in args]
        cands = [s for s in SPECS if s[0] == pyname and [t for p, t in s[2] if p != 'self' and isinstance(t, str)] == tys]
        # a variant that fixes parameters is reached by a positional call only when they are the declared defaults
        cands = [s for s in cands if all(isinstance(t, str) or self.gen.default_is(s[0], p, t) for p, t in s[2])]
        if len(cands) != 1:
            fail(node, f'no unique generated variant of Factor.{pyname} for arguments {tys}')
        spec = cands[0]
        self.gen.require(spec[1], node)
        it = iter(args)
        out = []
        for p, t in spec[2]:
            if p == 'self':
                out.append(self_t)
            elif isinstance(t, str):
                out.append(next(it)[0])
        return f'({spec[1]} {" ".join(out)})', spec[3]

    # ---- statements
    def run(self, stmts, fn):
        """-> (lean term, type) of the returned value, or None when the block falls through"""
        for i, st in enumerate(stmts):
            if isinstance(st, ast.Expr) and isinstance(st.value, ast.Constant) and isinstance(st.value.value, str):
                continue
            if isinstance(st, ast.Assert):
                s = self.static(st.test)
                if s is True:
                    continue
                if s is False:
                    fail(st, 'assertion is false in this variant')
                self.pres.append('\n  '.join(self.lets + [self.typed(st.test, 'bool')]))
                continue
            if isinstance(st, ast.If):
                s = self.static(st.test)
                if s is None:
                    fail(st, 'the test is not decided by the variant')
                r = self.run(st.body if s else st.orelse, fn)
                if r is not None:
                    return r
                continue
            if isinstance(st, ast.Assign) and len(st.targets) == 1:
                tg = st.targets[0]
                if isinstance(tg, ast.Name):
                    t, ty = self.expr(st.value)
                    self.pending.pop(tg.id, None)
                    if ty == 'parr':
                        self.pending[tg.id] = t
                        self.env.pop(tg.id, None)
                        continue
                    if ty not in LEANTY and ty != 'tsub':
                        fail(st, f'cannot bind a value of type {ty}')
                    self.lets.append(f'let {lname(tg.id)} := {t}')
                    self.env[tg.id] = (lname(tg.id), ty)
                    continue
                if isinstance(tg, ast.Attribute) and isinstance(tg.value, ast.Name) and tg.value.id == 'self' and fn.name == '__init__' \
                        and tg.attr in ('domain', 'values') and tg.attr not in self.fields:
                    self.fields[tg.attr] = self.typed(st.value, 'dom' if tg.attr == 'domain' else 'arr')
                    continue
                if isinstance(tg, ast.Subscript) and isinstance(tg.value, ast.Name) and tg.value.id in self.pending:
                    a, b, bsrc, ct, c0 = self.pending.pop(tg.value.id)
                    m = tg.slice
                    mt, mty = self.pointwise(m, bsrc, 't')
                    if not (mty == 'bool' and isinstance(m, ast.Compare) and isinstance(m.ops[0], ast.LtE) and ast.unparse(m.comparators[0]) == c0):
                        fail(st, 'masked store: the mask must be the complement `<divisor> <= 0` of the where-mask')
                    k = scalar_const(st.value)
                    name = lname(tg.value.id)
                    self.lets.append(f'let {name} := (NdArr.zipWith (fun x t => if {ct} then Scalar.div x t else if {mt} then {k} else default) {a} {b})')
                    self.env[tg.value.id] = (name, 'arr')
                    continue
                fail(st, 'unsupported assignment')
            if isinstance(st, ast.AugAssign) and ast.unparse(st.target) == 'self.values' and isinstance(st.op, (ast.Add, ast.Mult)) \
                    and self.env.get('self', (None, None))[1] == 'factor':
                cur = self.attribute(st.target)
                R = (scalar_const(st.value), 'scalar') if isinstance(st.value, ast.Constant) else self.expr(st.value)
                self.mut = self.arith(st.op, cur, R, st)[0]
                continue
            if isinstance(st, ast.Return) and st.value is not None:
                if self.pending:
                    fail(st, 'a partially initialised array is still pending')
                if isinstance(st.value, ast.Name) and st.value.id == 'self' and self.mut is not None:
                    return '\n  '.join(self.lets + [f'Factor.mk (Factor.dom self) {self.mut}']), 'factor'
                if self.mut is not None:
                    fail(st, 'in-place update must be followed by `return self`')
                t, ty = self.expr(st.value)
                return '\n  '.join(self.lets + [t]), ty
            fail(st, 'unsupported statement')
        return None


# (python method, lean name, parameters in LEAN order: (python name, type | fixed constant), result type)
SELF = ('self', 'factor')
SPECS = [
    ('__init__', 'mkG', [('domain', 'dom'), ('values', 'arr')], 'factor'),
    ('zeros', 'zeros', [('domain', 'dom')], 'factor'),
    ('ones', 'ones', [('domain', 'dom')], 'factor'),
    ('expand', 'expand', [SELF, ('domain', 'dom')], 'factor'),
    ('transpose', 'transpose', [SELF, ('attrs', 'attrs')], 'factor'),
    ('sum', 'sumAll', [SELF, ('attrs', None)], 'scalar'),
    ('sum', 'sum', [SELF, ('attrs', 'attrs')], 'factor'),
    ('logsumexp', 'logsumexpAll', [SELF, ('attrs', None)], 'scalar'),
    ('logsumexp', 'logsumexp', [SELF, ('attrs', 'attrs')], 'factor'),
    ('max', 'maxAll', [SELF, ('attrs', None)], 'scalar'),
    ('max', 'max', [SELF, ('attrs', 'attrs')], 'factor'),
    ('project', 'projectSum', [SELF, ('attrs', 'attrs'), ('agg', ('sum',))], 'factor'),
    ('project', 'projectLse', [SELF, ('attrs', 'attrs'), ('agg', ('logsumexp',))], 'factor'),
    ('logaddexp', 'logaddexp', [SELF, ('other', 'factor')], 'factor'),
    ('condition', 'condition', [SELF, ('evidence', 'ev')], 'factor'),
    ('copy', 'copy', [SELF, ('out', None)], 'factor'),
    ('__mul__', 'mulScalar', [('other', 'scalar'), SELF], 'factor'),
    ('__mul__', 'mul', [SELF, ('other', 'factor')], 'factor'),
    ('__add__', 'addScalar', [('other', 'scalar'), SELF], 'factor'),
    ('__add__', 'add', [SELF, ('other', 'factor')], 'factor'),
    ('__iadd__', 'iaddScalar', [SELF, ('other', 'scalar')], 'factor'),
    ('__iadd__', 'iadd', [SELF, ('other', 'factor')], 'factor'),
    ('__imul__', 'imulScalar', [SELF, ('other', 'scalar')], 'factor'),
    ('__imul__', 'imul', [SELF, ('other', 'factor')], 'factor'),
    ('__radd__', 'raddScalar', [('other', 'scalar'), SELF], 'factor'),
    ('__radd__', 'radd', [SELF, ('other', 'factor')], 'factor'),
    ('__rmul__', 'rmulScalar', [('other', 'scalar'), SELF], 'factor'),
    ('__rmul__', 'rmul', [SELF, ('other', 'factor')], 'factor'),
    ('__sub__', 'subScalar', [SELF, ('other', 'scalar')], 'factor'),
    ('__sub__', 'sub', [SELF, ('other', 'factor')], 'factor'),
    ('__truediv__', 'truedivScalar', [SELF, ('other', 'scalar')], 'factor'),
    ('__truediv__', 'truediv', [SELF, ('other', 'factor')], 'factor'),
    ('exp', 'exp', [SELF, ('out', None)], 'factor'),
    ('log', 'log', [SELF, ('out', None)], 'factor'),
    ('datavector', 'datavector', [SELF, ('flatten', True)], 'list'),
]
# fixed constants written as 1-tuples are explicit arguments (agg='logsumexp'); bare constants must be the declared default
PYARGS = {'__init__': ['self', 'domain', 'values'], 'zeros': ['domain'], 'ones': ['domain'], 'expand': ['self', 'domain'],
          'transpose': ['self', 'attrs'], 'sum': ['self', 'attrs'], 'logsumexp': ['self', 'attrs'], 'max': ['self', 'attrs'],
          'project': ['self', 'attrs', 'agg'], 'logaddexp': ['self', 'other'], 'condition': ['self', 'evidence'], 'copy': ['self', 'out'],
          'exp': ['self', 'out'], 'log': ['self', 'out'], 'datavector': ['self', 'flatten']}
for _d in ('mul', 'add', 'iadd', 'imul', 'radd', 'rmul', 'sub', 'truediv'):
    PYARGS[f'__{_d}__'] = ['self', 'other']


class Generator:
    def __init__(self, src, domsrc):
        tree = ast.parse(src)
        self.cls = next((n for n in tree.body if isinstance(n, ast.ClassDef) and n.name == 'Factor'), None) or fail('module', 'class Factor not found')
        self.fns = {n.name: n for n in self.cls.body if isinstance(n, ast.FunctionDef)}
        self.domsrc = domsrc
        self.defined = set()
        self.out = []

    def require(self, lean, node):
        if lean not in self.defined:
            fail(node, f'uses the definition `{lean}`, which is not generated before this point')

    def need_domain_protocol(self, meth, node):
        """`len(D)` / `for a in D` go through Domain.__len__ / __iter__: both must read `self.attrs`"""
        want = {'__len__': 'return len(self.attrs)', '__iter__': 'return self.attrs.__iter__()'}[meth]
        dcls = next((n for n in ast.parse(self.domsrc).body if isinstance(n, ast.ClassDef) and n.name == 'Domain'), None)
        fn = next((f for f in (dcls.body if dcls else []) if isinstance(f, ast.FunctionDef) and f.name == meth), None)
        body = [s for s in (fn.body if fn else []) if not (isinstance(s, ast.Expr) and isinstance(s.value, ast.Constant))]
        if [ast.unparse(s) for s in body] != [want]:
            fail(node, f'domain.py: Domain.{meth} is not `{want}`')

    def default_of(self, pyname, param):
        fn = self.fns.get(pyname)
        if fn is None:
            return NOTNONE
        names = [a.arg for a in fn.args.args]
        ds = dict(zip(names[len(names) - len(fn.args.defaults):], fn.args.defaults))
        d = ds.get(param)
        return d.value if isinstance(d, ast.Constant) else NOTNONE

    def default_is(self, pyname, param, c):
        c = c[0] if isinstance(c, tuple) else c
        d = self.default_of(pyname, param)
        return d is c or (type(d) is type(c) and d == c)

    def one(self, spec):
        pyname, lean, params, ret = spec
        fn = self.fns.get(pyname) or fail('class Factor', f'method {pyname} not found')
        a = fn.args
        if [x.arg for x in a.args] != PYARGS[pyname] or a.vararg or a.kwarg or a.kwonlyargs or a.posonlyargs:
            fail(fn, f'signature changed: {[x.arg for x in a.args]}')
        static = any(isinstance(d, ast.Name) and d.id == 'staticmethod' for d in fn.decorator_list)
        if static != ('self' not in PYARGS[pyname]) or len(fn.decorator_list) > int(static):
            fail(fn, 'unexpected decorators')
        env, consts, lparams = {}, {}, []
        for p, t in params:
            if isinstance(t, str):
                if pyname == '__init__' and p == 'self':
                    continue
                env[p] = (lname(p), t)
                lparams.append((lname(p), t))
            else:
                if not isinstance(t, tuple) and not self.default_is(pyname, p, t):
                    fail(fn, f'the default of `{p}` is no longer {t!r}')
                if self.default_of(pyname, p) is NOTNONE:
                    fail(fn, f'`{p}` has no constant default')
                consts[p] = t[0] if isinstance(t, tuple) else t
        tr = Tr(self, env, consts)
        r = tr.run(fn.body, fn)
        if pyname == '__init__':
            if r is not None or set(tr.fields) != {'domain', 'values'}:
                fail(fn, '__init__ must store exactly self.domain and self.values')
            r = '\n  '.join(tr.lets + [f'Factor.mk {tr.fields["domain"]} {tr.fields["values"]}']), 'factor'
        if r is None:
            fail(fn, 'no return value on this path')
        if r[1] != ret:
            fail(fn, f'`{lean}` returns {r[1]}, expected {ret}')
        ps = ' '.join(f'({p} : {LEANTY[t]})' for p, t in lparams)
        fixed = ', '.join(f'{p}={c!r}' for p, c in consts.items())
        doc = f'`Factor.{pyname}` (factor.py:{fn.lineno})' + (f', variant {fixed}' if fixed else '') \
              + (f', `other` a {dict(params).get("other")}' if 'other' in dict(params) and pyname.startswith('__') else '')
        if tr.pres:
            pname = 'pre' + (lean[0].upper() + lean[1:]).removesuffix('G') + 'G'
            self.out.append(f'/-- the assertions of {doc} -/\ndef {pname} {ps} : Bool :=\n  ' + ' &&\n  '.join(f'({p})' for p in tr.pres) + '\n')
        self.out.append(f'/-- {doc} -/\ndef {lean} {ps} : {LEANTY[ret]} :=\n  {r[0]}\n')
        self.defined.add(lean)

    def run(self):
        for spec in SPECS:
            self.one(spec)
        return self.out


HEADER = '''/- GENERATED by tools/py2factor.py from src/mbi/factor.py — do not edit
   One definition per method / branch of `class Factor`; not translated: `random`, `uniform`, `active`,
   the `out=` branches of copy/exp/log and the `flatten=False` branch of datavector. -/
import PGM.Model.Factor
set_option linter.unusedVariables false
namespace PGM.FG
open PGM
variable {α : Type} [Scalar α]

'''


def main():
    ap = argparse.ArgumentParser()
    ap.add_argument('--repo', default='/repo')
    ap.add_argument('--out', required=True)
    a = ap.parse_args()
    try:
        src = open(os.path.join(a.repo, 'src', 'mbi', 'factor.py')).read()
        dpath = os.path.join(a.repo, 'src', 'mbi', 'domain.py')
        domsrc = open(dpath).read() if os.path.exists(dpath) else ''
        defs = Generator(src, domsrc).run()
    except Untranslatable as e:
        print('py2factor: source outside the translatable subset:', e)
        return 1
    except (OSError, SyntaxError) as e:
        print('py2factor: source outside the translatable subset:', f'cannot read/parse the source: {e}')
        return 1
    os.makedirs(a.out, exist_ok=True)
    with open(os.path.join(a.out, 'FactorG.lean'), 'w') as f:
        f.write(HEADER + '\n'.join(defs) + '\nend PGM.FG\n')
    print(f'py2factor: {len(defs)} definitions')
    return 0


if __name__ == '__main__':
    sys.exit(main())
