#!/bin/bash
# run every claimed check (quick tier by default) on the current tree; prints one line per check
cd "$(dirname "$0")/.."
TIER="${1:-quick}"
ids=$(python3 -c "import json; print(' '.join(c['property_id'] for c in json.load(open('MANIFEST.json'))['checks']))")
fail=0
for id in $ids; do
  out=$(./check $id --tier $TIER 2>&1); rc=$?
  echo "[$id rc=$rc] $(echo "$out" | tail -1)"
  [ $rc -ne 0 ] && { echo "$out" | grep -E "VIOLATION|KNOWN|infrastructure" | head -5; fail=1; }
done
exit $fail
