#!/usr/bin/env python3
"""tools/py2cv.py --repo R --out DIR

Translates the arithmetic of `src/mbi/clique_vector.py` (class CliqueVector) into Lean definitions over
`PGM.CliqueVec α` (`PGM/Generated/CliqueVecG.lean`, namespace `PGM.CVG`); `PGM/Properties/C14G.lean` proves
each one equal to the hand-written model (`PGM/Model/Solvers.lean`, namespace `CliqueVec`) that the C14B
theorems are about.

Recognised shapes (anything else fails loudly — a broken obligation):
  { cl : E for cl in self }                         -> self.map (fun p => (p.1, E))        (dict order = list order)
     with  self[cl] -> p.2 ,  other[cl] -> other.get p.1 ,  c*F / F*c -> mulScalar ,  F + c -> addScalar ,  F + G -> add
  CliqueVector(ans)                                 -> ans
  if np.isscalar(other): … else: …                  -> two definitions (…Scalar / …Vec)
  return self + -1*other                            -> add of the scalar multiple (through the generated __add__/__mul__)
  return sum((self[cl]*other[cl]).sum() for cl in self)   -> Scalar.sum of the per-clique sums of products
  for cl in other: for cl2 in self: if set(cl) <= set(cl2): self[cl2] += other[cl]; break
                                                    -> fold over `other`, first key of the accumulator containing cl, in-place add
  { cl : Factor.zeros(domain.project(cl)) for cl in cliques }
"""
import argparse, ast, os, sys


class Untranslatable(Exception):
    pass


def fail(node, why):
    raise Untranslatable(f'clique_vector.py line {getattr(node, "lineno", "?")}: {why}: {ast.unparse(node) if isinstance(node, ast.AST) else node}')


def body(fn):
    return [s for s in fn.body if not (isinstance(s, ast.Expr) and isinstance(s.value, ast.Constant))
            and not isinstance(s, (ast.ImportFrom, ast.Import))
            and not (isinstance(s, ast.Expr) and isinstance(s.value, ast.Constant))]


def strip_comments(stmts):
    return [s for s in stmts if not (isinstance(s, ast.Expr) and isinstance(s.value, ast.Constant))]


def factor_expr(n, scalar_names):
    """an expression denoting a Factor inside `{cl: E for cl in self}` -> lean term over p (the current entry)"""
    if isinstance(n, ast.Subscript) and isinstance(n.value, ast.Name) and isinstance(n.slice, ast.Name) and n.slice.id == 'cl':
        if n.value.id == 'self':
            return 'p.2'
        if n.value.id == 'other':
            return '(CliqueVec.get other p.1)'
        fail(n, 'unknown vector')
    if isinstance(n, ast.BinOp) and isinstance(n.op, ast.Mult):
        l, r = n.left, n.right
        if isinstance(l, ast.Name) and l.id in scalar_names:
            return f'(Factor.mulScalar {l.id} {factor_expr(r, scalar_names)})'
        if isinstance(r, ast.Name) and r.id in scalar_names:
            return f'(Factor.mulScalar {r.id} {factor_expr(l, scalar_names)})'
        return f'(Factor.mul {factor_expr(l, scalar_names)} {factor_expr(r, scalar_names)})'
    if isinstance(n, ast.BinOp) and isinstance(n.op, ast.Add):
        l, r = n.left, n.right
        if isinstance(r, ast.Name) and r.id in scalar_names:
            return f'(Factor.addScalar {r.id} {factor_expr(l, scalar_names)})'
        return f'(Factor.add {factor_expr(l, scalar_names)} {factor_expr(r, scalar_names)})'
    if isinstance(n, ast.Call) and isinstance(n.func, ast.Attribute) and not n.args:
        if n.func.attr in ('exp', 'log'):
            return f'(Factor.{n.func.attr} {factor_expr(n.func.value, scalar_names)})'
    fail(n, 'unsupported factor expression')


def dict_over_self(stmts, scalar_names, node):
    """ans = { cl : E for cl in self } ; return CliqueVector(ans)"""
    stmts = strip_comments(stmts)
    if not (len(stmts) == 2 and isinstance(stmts[0], ast.Assign) and isinstance(stmts[0].value, ast.DictComp) and isinstance(stmts[1], ast.Return)):
        fail(node, 'expected `ans = {cl: … for cl in self}; return CliqueVector(ans)`')
    dc = stmts[0].value
    g = dc.generators[0]
    if not (len(dc.generators) == 1 and not g.ifs and ast.unparse(g.target) == 'cl' and ast.unparse(g.iter) == 'self' and ast.unparse(dc.key) == 'cl'):
        fail(dc, 'comprehension must be `{cl: … for cl in self}`')
    if ast.unparse(stmts[1].value) != f'CliqueVector({ast.unparse(stmts[0].targets[0])})':
        fail(stmts[1], 'must return CliqueVector(ans)')
    return f'self.map (fun p => (p.1, {factor_expr(dc.value, scalar_names)}))'


def translate(src):
    tree = ast.parse(src)
    cls = next((n for n in tree.body if isinstance(n, ast.ClassDef) and n.name == 'CliqueVector'), None) or fail(tree, 'class CliqueVector not found')
    fns = {n.name: n for n in cls.body if isinstance(n, ast.FunctionDef)}
    out = []

    def need(name, args):
        fn = fns.get(name) or fail(cls, f'method {name} not found')
        if [a.arg for a in fn.args.args] != args:
            fail(fn, f'signature changed: {[a.arg for a in fn.args.args]}')
        return fn

    # __mul__(self, const)
    fn = need('__mul__', ['self', 'const'])
    out.append('/-- `CliqueVector.__mul__` (`const * v`, `v * const`) -/\ndef mul (const : α) (self : CliqueVec α) : CliqueVec α :=\n  '
               + dict_over_self(body(fn), {'const'}, fn) + '\n')
    fn = need('__rmul__', ['self', 'const'])
    if ast.unparse(strip_comments(body(fn))[0]) != 'return self.__mul__(const)':
        fail(fn, '__rmul__ must delegate to __mul__')
    # __add__(self, other): scalar / vector
    fn = need('__add__', ['self', 'other'])
    b = strip_comments(body(fn))
    if not (len(b) == 2 and isinstance(b[0], ast.If) and ast.unparse(b[0].test) == 'np.isscalar(other)' and isinstance(b[1], ast.Return)):
        fail(fn, '__add__: expected `if np.isscalar(other): ans = … else: ans = …; return CliqueVector(ans)`')
    out.append('/-- `CliqueVector.__add__` with a scalar -/\ndef addScalar (self : CliqueVec α) (other : α) : CliqueVec α :=\n  '
               + dict_over_self(b[0].body + [b[1]], {'other'}, fn) + '\n')
    out.append('/-- `CliqueVector.__add__` with another vector -/\ndef add (self other : CliqueVec α) : CliqueVec α :=\n  '
               + dict_over_self(b[0].orelse + [b[1]], set(), fn) + '\n')
    # __sub__: return self + -1*other
    fn = need('__sub__', ['self', 'other'])
    if ast.unparse(strip_comments(body(fn))[0]) != 'return self + -1 * other':
        fail(fn, '__sub__ must be `self + -1*other`')
    out.append('/-- `CliqueVector.__sub__`: `self + -1*other` (through `__rmul__`, `__add__`) -/\ndef sub (self other : CliqueVec α) : CliqueVec α :=\n'
               '  add self (mul (Scalar.neg Scalar.one) other)\n')
    # dot
    fn = need('dot', ['self', 'other'])
    if ast.unparse(strip_comments(body(fn))[0]) != 'return sum(((self[cl] * other[cl]).sum() for cl in self))':
        fail(fn, 'dot must be `sum((self[cl]*other[cl]).sum() for cl in self)`')
    out.append('/-- `CliqueVector.dot` (Python\'s `sum` starts from 0 and adds left to right) -/\ndef dot (self other : CliqueVec α) : α :=\n'
               '  Scalar.sum (self.map (fun p => Factor.sumAll (Factor.mul p.2 (CliqueVec.get other p.1))))\n')
    # exp / log
    for name in ('exp', 'log'):
        fn = need(name, ['self'])
        out.append(f'/-- `CliqueVector.{name}` -/\ndef {name}V (self : CliqueVec α) : CliqueVec α :=\n  ' + dict_over_self(body(fn), set(), fn) + '\n')
    # combine
    fn = need('combine', ['self', 'other'])
    b = strip_comments(body(fn))
    ok = (len(b) == 1 and isinstance(b[0], ast.For) and ast.unparse(b[0].target) == 'cl' and ast.unparse(b[0].iter) == 'other' and not b[0].orelse)
    if ok:
        inner = strip_comments(b[0].body)
        ok = (len(inner) == 1 and isinstance(inner[0], ast.For) and ast.unparse(inner[0].target) == 'cl2' and ast.unparse(inner[0].iter) == 'self' and not inner[0].orelse)
    if ok:
        cond = strip_comments(inner[0].body)
        ok = (len(cond) == 1 and isinstance(cond[0], ast.If) and ast.unparse(cond[0].test) == 'set(cl) <= set(cl2)' and not cond[0].orelse
              and [ast.unparse(x) for x in strip_comments(cond[0].body)] == ['self[cl2] += other[cl]', 'break'])
    if not ok:
        fail(fn, 'combine: expected the double loop with `if set(cl) <= set(cl2): self[cl2] += other[cl]; break`')
    out.append('/-- `CliqueVector.combine`: for every factor of `other` (in order), the first key of `self` containing its clique receives it in place -/\n'
               'def combine (self other : CliqueVec α) : CliqueVec α :=\n'
               '  other.foldl (fun acc (o : JT.Clique × Factor α) =>\n'
               '    match acc.find? (fun p => JT.subset o.1 p.1) with\n'
               '    | some p => CliqueVec.set acc p.1 (Factor.iadd p.2 o.2)\n'
               '    | none => acc) self\n')
    # zeros (static)
    fn = need('zeros', ['domain', 'cliques'])
    b = strip_comments(body(fn))
    if ast.unparse(b[-1]) != 'return CliqueVector({cl: Factor.zeros(domain.project(cl)) for cl in cliques})':
        fail(fn, 'zeros: expected `{cl: Factor.zeros(domain.project(cl)) for cl in cliques}`')
    out.append('/-- `CliqueVector.zeros` -/\ndef zeros (domain : Dom) (cliques : List JT.Clique) : CliqueVec α :=\n'
               '  cliques.map (fun cl => (cl, Factor.zeros (Dom.project domain cl)))\n')
    return out


HEADER = '''/- GENERATED by tools/py2cv.py from src/mbi/clique_vector.py — do not edit -/
import PGM.Model.Solvers
set_option linter.unusedVariables false
namespace PGM.CVG
open PGM
variable {α : Type} [Scalar α]

'''


def main():
    ap = argparse.ArgumentParser()
    ap.add_argument('--repo', default='/repo')
    ap.add_argument('--out', required=True)
    a = ap.parse_args()
    src = open(os.path.join(a.repo, 'src', 'mbi', 'clique_vector.py')).read()
    try:
        defs = translate(src)
    except Untranslatable as e:
        print('py2cv: source outside the translatable subset:', e)
        return 1
    os.makedirs(a.out, exist_ok=True)
    with open(os.path.join(a.out, 'CliqueVecG.lean'), 'w') as f:
        f.write(HEADER + '\n'.join(defs) + '\nend PGM.CVG\n')
    print(f'py2cv: {len(defs)} definitions')
    return 0


if __name__ == '__main__':
    sys.exit(main())
