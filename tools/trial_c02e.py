"""re-run of a selection of the trial edits of tools/trial_py2gmq.py, tools/trial_py2gmq_mm.py, tools/trials_py2gminit.py against
PGM.Properties.C02E (the end-to-end composition) and everything it imports.
usage: trial_c02e.py [EDIT-PREFIX …]
uses: <this tree>/lean (Generated/ is overwritten during the run and restored from /repo at the end), <this tree>_repo (scratch source)."""
import subprocess, sys, re, os, shutil
ROOT = os.path.dirname(os.path.dirname(os.path.abspath(__file__)))
REPO = ROOT + '_repo'
LEAN = ROOT + '/lean'
OUT = LEAN + '/PGM/Generated'
TGT = REPO + '/src/mbi/graphical_model.py'
ORIG = open('/repo/src/mbi/graphical_model.py').read()
TRANSLATORS = ('py2jt', 'py2gm', 'py2gminit', 'py2gmq')
MODS = ['PGM.Properties.C02E']
EDITS = [
 ('P1 project: subset test swapped', "if set(attrs) <= set(cl):", "if set(cl) <= set(attrs):"),
 ('P2 project cached: drop .project(attrs)', "return self.marginals[cl].project(attrs)", "return self.marginals[cl]"),
 ('P5 project: drop final .project(attrs)', "        return ans.project(attrs)", "        return ans"),
 ('K2 krondot: * exp(logZ)', "* self.total / np.exp(logZ)", "* self.total * np.exp(logZ)"),
 ('M17 many: marginals = potentials', "self.marginals = self.belief_propagation(self.potentials)", "self.marginals = self.potentials"),
 ('M02 many: Z.project(Sij) dropped', "conditional[(Cj,Ci)] = Z / Z.project(Sij)", "conditional[(Cj,Ci)] = Z"),
 ('M11 many: fallback removed', "            if proj not in answers:\n                # just use variable elimination\n                answers[proj] = self.project(proj) \n", ""),
 ('E1 init: message_order reversed', 'self.message_order = tree.mp_order()', 'self.message_order = tree.mp_order()[::-1]'),
 ('E2 init: cliques = the input list', 'self.cliques = tree.maximal_cliques() # maximal cliques', 'self.cliques = cliques'),
 ('E9 init: self.total = 1.0', 'self.total = total', 'self.total = 1.0'),
 ('E10 init: neighbors = tree.separator_axes()', 'self.neighbors = tree.neighbors()', 'self.neighbors = tree.separator_axes()'),
 ('B1 bp: message to i instead of j', "beliefs[j] += messages[(i,j)]", "beliefs[i] += messages[(i,j)]"),
 ('D1 datavector: weight dropped', "return ans.expand(self.domain).datavector(flatten) * wgt * self.total", "return ans.expand(self.domain).datavector(flatten) * self.total"),
 ('H1 harmless: rename local elim_order -> eo', None, None),
 ('H3 harmless: total stored before domain', '        self.domain = domain\n        self.total = total\n', '        self.total = total\n        self.domain = domain\n'),
]

def apply(name, old, new):
    s = ORIG
    if name.startswith('H1'):
        return s.replace('elim_order', 'eo')
    assert s.count(old) == 1, (name, s.count(old))
    return s.replace(old, new)

def translate(repo):
    for t in TRANSLATORS:
        r = subprocess.run(['/venv/bin/python', f'{ROOT}/tools/{t}.py', '--repo', repo, '--out', OUT], capture_output=True, text=True)
        if r.returncode != 0:
            return t, (r.stdout + r.stderr).strip()[-230:]
    return None

if not os.path.isdir(REPO):
    os.makedirs(REPO)
    shutil.copytree('/repo/src', REPO + '/src')
    shutil.copytree('/repo/mechanisms', REPO + '/mechanisms')
only = sys.argv[1:]
for name, old, new in EDITS:
    if only and not any(name.startswith(o + ' ') for o in only):
        continue
    open(TGT, 'w').write(apply(name, old, new))
    stop = translate(REPO)
    if stop:
        print(f'{name}: TRANSLATOR STOP ({stop[0]}): {stop[1]}', flush=True)
        continue
    r = subprocess.run(['lake', 'build'] + MODS, cwd=LEAN, capture_output=True, text=True)
    if r.returncode == 0:
        print(f'{name}: PASSED (C02E and its imports build)', flush=True)
        continue
    out = r.stdout + r.stderr
    broken = []
    for file, ln in re.findall(r'error: (PGM/\S+?\.lean):(\d+)', out):
        lines = open(os.path.join(LEAN, file)).read().split('\n')
        i = int(ln) - 1
        while i >= 0 and not re.match(r'\s*(private )?(theorem|example|def|instance|structure|abbrev)\b', lines[i]):
            i -= 1
        m = re.match(r'\s*(?:private )?(?:theorem|def|instance|structure|abbrev)\s+(\S+)', lines[i]) if i >= 0 else None
        nm = os.path.basename(file)[:-5] + '.' + (m.group(1) if m else f'example@{i + 1}')
        if nm not in broken:
            broken.append(nm)
    print(f'{name}: BREAKS {broken[:7]}{" ..." if len(broken) > 7 else ""}', flush=True)
open(TGT, 'w').write(ORIG)
translate('/repo')
subprocess.run(['lake', 'build'] + MODS, cwd=LEAN, capture_output=True)
