#!/usr/bin/env python3
"""tools/py2gmq.py --repo R --out DIR

Translates the QUERY and SAMPLING paths of `src/mbi/graphical_model.py` — `GraphicalModel.project`, `krondot`,
`synthetic_data` with its inner `synthetic_col`, `calculate_many_marginals` — STATEMENT BY STATEMENT into Lean definitions
(`PGM/Generated/GraphicalModelQG.lean`, namespace `PGM.GMQ`).  The inference core of the same file is translated by
`tools/py2gm.py` (imported here as a library: its source-fact checks are reused, and the generated file imports
`GraphicalModelG.lean`, so calls of `variable_elimination_logspace`, `variable_elimination`, `belief_propagation(…, logZ=True)`
are calls of the definitions generated there).  `PGM/Properties/C02G.lean` / `C11G.lean` identify the generated definitions
with `PGM/Model/GM.lean` / `PGM/Model/Synth*.lean`.

Typed statement translator; anything outside the subset below stops it (exit 1, message with file:line and the construct).

Statements
  x = E ; a, b = np.modf(E)             -> let …                          (re-binding shadows, as in Python)
  x *= E (float array by a float)       -> let x := x.map (· * E)         (only on an array no other live name reads: see `counts`)
  a[idx] += 1 (int array, index array)  -> NpZ.incrAt a idx               (numpy's buffered fancy-index increment: every listed
                                                                           position +1 ONCE, duplicates included)
  s.add(x)                              -> JT.union s [x]                 (a set as the list of its first occurrences)
  df.loc[:, c] = E ; df[c] = E          -> DF.setCol df c E               (pandas contract, fixed prelude)
  df.loc[I, c] = E                      -> DF.setAt df I c E
  if C: BODY [else: BODY']              -> let (names) := if C then … else …   names = the live names re-bound in a branch (and the
                                           random generator state when a branch draws); names first bound in a branch are dead after
  if type(x) is list: x = tuple(x)      -> as above with the flag parameter `x_is_list` (lists and tuples are both `List`)
  if hasattr(self, 'f'): BODY           -> match f with | some f => … | none => …   (`f` declared an optional field)
  if C: … return E … (may fall through) -> match (… : Option _) with | some r => r | none => REST ; the body may be lets followed by
                                           `for x in XS: if C': return E` (= `(XS.find? C').map E`: the first hit returns)
  if not isinstance(k, tuple): k = (k,) -> nothing: group keys are tuples (`List Nat`) in the group-by contract
  for x in XS / for a, b in zip(..)/groupby: BODY   -> XS.foldl (fun state x => …) state   state = live names re-bound in BODY (+ generator)
  np.random.shuffle(v)                  -> let (v, g) := shuffle g v       (contract parameter; `g` = generator state, threaded)
  assert E                              -> the separate definition `<name>Pre`
  def f(..) (nested)                    -> its own definition; free variables must be declared closure parameters
  return E
  -- calculate_many_marginals (one method, four definitions: a SEGMENT of the body each; a segment starts/ends at the first top-level
     statement binding a given name, the value of an earlier segment is the call of its definition) --
  self.marginals = E (first statement)  -> its own definition (`manyCalibrate`); later reads of `self.marginals` are the parameter `marginals`
  d = {} (d declared a dictionary)      -> let d : T := []                 (association list in insertion order)
  d[k] = E                              -> GM.dictSet d k E                (an existing key keeps its position)
  t1 = t2 = E                           -> let v := E ; t1 = v ; t2 = v    (E evaluated once, targets assigned left to right)
  pred, dist = nx.floyd_warshall_predecessor_and_distance(self.junction_tree.tree, weight=False)
                                        -> the contract parameters `pred`, `dist` (hop-count shortest paths of the junction tree)
  for x in XS: if C: BODY; break        -> match XS.find? C with | some x => BODY | none => (state unchanged)   (first hit only)
  for k in d (d a dictionary)           -> loop over `d.map Prod.fst` (insertion order)
Expressions (by type)
  self.<field>, X[0], X[1:], X[::-1], len(X), X + [y], X + (y,), tuple(X), list(X), [x], {x}
  set(a) <= set(b) -> JT.subset; [cl for cl in XS if x in cl] -> filter; set.union(*XS) -> foldl JT.union [] ; s.intersection(t) -> JT.inter
  tuple(<set>) -> `set_order <set>`: the ORDER of a tuple made from a set is unspecified — contract parameter (a permutation)
  D.invert(a), D.attrs, D.shape, Domain(attrs, shape) -> List.zip ; '%s-answer' % a -> a ++ "-answer"
  greedy_order(D, cliques, elim) -> contract parameter (its result is a permutation of `elim`: hypothesis of the theorems)
  variable_elimination_logspace / variable_elimination / self.belief_propagation(p, logZ=True) -> GMG.veLogspace / GMG.variableElimination / GMG.logZ
  F.project(a) (default agg checked), F.exp(), F.transpose(a), F.datavector(flatten=False) -> F.vals (factor.py checked), Factor(d, Q) -> Factor.mk'
  self.project(a) inside synthetic_data -> the parameter `project` (a method of the same object; instantiated in C11G)
  A[idx] (basic indexing by a tuple of ints, all but the last axis) -> NpQ.row ; A * c / d, A / c, A.sum(), A.size, A.shape, A.astype(int)
  np.modf, np.arange, np.repeat, np.zeros((r, c), dtype=int) + pd.DataFrame(data, columns=cols) -> DF.zeros
  np.random.choice(n, size, True|False, p) -> choice_replace / choice_noreplace g n size p   (contract parameters, generator threaded)
  df.groupby(list(by)) -> groupby df by (contract parameter: the list of (key, index) pairs); group.index, group.shape[0], df.shape[0]
  int(x) (x ≥ 0: floor), A if C else B, x is None, ==, >, >=, not, in
  -- calculate_many_marginals --
  d[k] (dictionary read; KeyError when absent: the model's default) -> dictGet d k / nbGet d k ; k in d / k not in d -> dictHas
  (a, b) of two tuples -> a pair of cliques ; X[0], X[1] of a pair -> X.1, X.2 ; a == b on tuples
  sep[(i, j)] with sep = self.sep_axes -> JT.inter i j (junction_tree.py checked; the order of `tuple(set(i) & set(j))` is unspecified: the
      model's listing, as tools/py2gm.py does — only used as `Z / Z.project(S)`, which expands the divisor onto Z's domain)
  set(a) - set(b) -> a.filter (not in b) (listed in a's order; only passed to Factor.sum, which reads membership)
  X * Y, X / Y (factors) -> Factor.mul / Factor.divF ; F.sum(S) -> Factor.sum ; D.canonical(a) -> Dom.canonical (domain.py checked)
  sorted(XS, key=lambda X: E) -> Dom.sortBy (stable insertion sort = Python's stable `sorted`) ; itertools.combinations(XS, 2) -> GM.combos2
  pred[a][b], dist[a][b] -> pred a b, dist a b ; {K: V for k in d} -> foldl GM.dictSet [] over the keys (colliding keys: the later value, the
      first position) ; self.belief_propagation(p) (logZ defaulted False) -> GMG.beliefPropagation ; self.project(a) -> the parameter `fallback`
Not translated (listed in the header of the output): __init__, save, load (pickle: contract), fit, greedy_order
(set iteration order and the tie-breaking of `min` are unspecified: its result enters as the contract parameter `greedy_order`).
"""
import argparse, ast, os, sys
sys.path.insert(0, os.path.dirname(os.path.abspath(__file__)))
import py2gm
from py2gm import Untranslatable, fail, norm, is_doc, ind

CL = 'JT.Clique'
LT = {'attr': 'Attr', 'attrs': 'List Attr', 'aset': 'List Attr', 'clique': CL, 'cliques': f'List {CL}', 'dom': 'Dom',
      'cvec': 'CliqueVec α', 'pcvec': 'CliqueVec β', 'factor': 'Factor α', 'pfactor': 'Factor β', 'scalar': 'α', 'pscalar': 'β',
      'factors': 'List (Factor α)', 'pfactors': 'List (Factor β)', 'bool': 'Bool', 'nat': 'Nat', 'int': 'Int', 'rat': 'Rat',
      'qfactor': 'Factor Rat', 'ndq': 'NdArr Rat', 'ql': 'List Rat', 'zl': 'List Int', 'nl': 'List Nat', 'df': 'DF', 'str': 'String',
      'optnat': 'Option Nat', 'groups': 'List (List Nat × List Nat)', 'key': 'List Nat', 'group': 'List Nat', 'order': f'List ({CL} × {CL})',
      'pyvalp': 'GMG.PyVal β', 'ndp': 'NdArr β', 'mats': 'List (NdArr β)', 'shape': 'List Nat', 'rng': 'G', 'dataset': 'Dataset Rat',
      'attrmats': 'List (Attr × NdArr β)',
      'nbdict': f'List ({CL} × List {CL})', 'pairdict': f'List (({CL} × {CL}) × Factor β)', 'attrdict': 'List (List Attr × Factor β)',
      'cpair': f'{CL} × {CL}', 'cpairs': f'List ({CL} × {CL})', 'attrslist': 'List (List Attr)'}
ELEM = {'cliques': 'clique', 'attrs': 'attr', 'groups': ('key', 'group'), 'attrmats': ('attr', 'ndp'), 'cpairs': ('clique', 'clique'),
        'attrslist': 'attrs'}
# dictionaries: key type, value type, the read `d[k]` (KeyError in Python when absent: the model's default)
DICT = {'nbdict': ('clique', 'cliques', 'nbGet'), 'pairdict': ('cpair', 'pfactor', 'dictGet'), 'attrdict': ('attrs', 'pfactor', 'dictGet')}
PSEUDO = ('sepdict', 'predfn', 'distfn', 'predrow', 'distrow')      # names bound without a `let`
LISTY = ('attrs', 'clique')         # tuples / lists of attribute names

# contract parameters: python callee -> (lean name, lean type)
CONTRACTS = {
    'greedy_order': ('greedy_order', f'Dom → List {CL} → List Attr → List Attr'),
    'set_order': ('set_order', 'List Attr → List Attr'),
    'groupby': ('groupby', 'DF → List Attr → List (List Nat × List Nat)'),
    'choice_replace': ('choice_replace', 'G → Nat → Nat → List Rat → List Nat × G'),
    'choice_noreplace': ('choice_noreplace', 'G → Nat → Nat → List Rat → List Nat × G'),
    'shuffle': ('shuffle', 'G → List Nat → List Nat × G'),
    'project': ('project', 'List Attr → Factor Rat'),
    'toPlain': ('toPlain', 'Factor α → Factor β'),
    'plainS': ('plainS', 'α → β'),
    'pred': ('pred', f'{CL} → {CL} → {CL}'),
    'dist': ('dist', f'{CL} → {CL} → Nat'),
    'fallback': ('fallback', 'List Attr → Factor β'),
}
RNG_CONTRACTS = ('choice_replace', 'choice_noreplace', 'shuffle')


def base_name(t):
    while isinstance(t, (ast.Subscript, ast.Attribute)):
        t = t.value
    return t.id if isinstance(t, ast.Name) else None


def assigned(stmts):
    """names (re)bound by a block, in order of first binding"""
    out = []

    def add(x):
        if x is not None and x not in out:
            out.append(x)

    def tgt(t):
        if isinstance(t, (ast.Tuple, ast.List)):
            for e in t.elts:
                tgt(e)
        else:
            add(base_name(t))
    for st in stmts:
        for n in ast.walk(st):
            if isinstance(n, ast.Assign):
                for t in n.targets:
                    tgt(t)
            elif isinstance(n, ast.AugAssign):
                tgt(n.target)
            elif isinstance(n, ast.For):
                tgt(n.target)
            elif isinstance(n, ast.Call) and isinstance(n.func, ast.Attribute) and n.func.attr in ('add', 'append', 'update') \
                    and isinstance(n.func.value, ast.Name):
                add(n.func.value.id)
            elif isinstance(n, ast.Call) and ast.unparse(n.func) == 'np.random.shuffle' and n.args:
                add(base_name(n.args[0]))
    return out


def has_return(stmts):
    return any(isinstance(n, ast.Return) for st in stmts for n in ast.walk(st))


class Q:
    """translator of one function body"""

    def __init__(self, gen, spec, env):
        self.gen, self.spec = gen, spec
        self.env = dict(env)        # python name -> (lean term, type)
        self.dead = {}
        self.used_fields, self.used_contracts = set(), []
        self.tmp = 0

    def child(self):
        q = Q(self.gen, self.spec, self.env)
        q.dead = dict(self.dead)
        q.used_fields, q.used_contracts = self.used_fields, self.used_contracts
        return q

    # ------------------------------------------------------------------ helpers
    def contract(self, name, node):
        if name not in self.spec['contracts']:
            fail(node, f'needs the contract `{name}`, which this definition does not declare')
        if name not in self.used_contracts:
            self.used_contracts.append(name)
        return CONTRACTS[name][0]

    def is_effect(self, n):
        """a call that draws from the random generator"""
        if not isinstance(n, ast.Call):
            return False
        f = ast.unparse(n.func)
        return f in ('np.random.choice', 'np.random.shuffle') or f in self.spec.get('effect_funcs', {})

    def effects_in(self, stmts):
        return any(self.is_effect(n) for st in stmts for n in ast.walk(st))

    def typed(self, n, *tys):
        t, ty = self.expr(n)
        if ty not in tys:
            fail(n, f'expected {"/".join(tys)}, got {ty}')
        return t

    def attrlist(self, n):
        t, ty = self.expr(n)
        if ty not in ('attrs', 'clique'):
            fail(n, f'expected a tuple/list of attributes, got {ty}')
        return t

    def const(self, n):
        return isinstance(n, ast.Constant)

    def iterable(self, n):
        """-> (lean list, element type): a list, or a dictionary iterated (its keys, in insertion order)"""
        xs, tx = self.expr(n)
        if tx in DICT:
            return f'({xs}.map Prod.fst)', DICT[tx][0]
        if tx not in ELEM:
            fail(n, f'loop over {tx}')
        return xs, ELEM[tx]

    # ------------------------------------------------------------------ expressions
    def expr(self, n):
        if isinstance(n, ast.Name):
            if n.id in self.dead:
                fail(n, f'read of a dead name ({self.dead[n.id]})')
            if n.id in self.env:
                self.gen.read_names.add(n.id)
                return self.env[n.id]
            fail(n, 'unknown name')
        if isinstance(n, ast.Constant):
            if type(n.value) is int:
                return str(n.value), 'nat'
            if type(n.value) is str:
                return '"' + n.value.replace('\\', '\\\\').replace('"', '\\"') + '"', 'str'
            fail(n, 'unsupported constant')
        if isinstance(n, ast.IfExp):
            t = n.test
            if isinstance(t, ast.Compare) and len(t.ops) == 1 and isinstance(t.ops[0], ast.Is) and isinstance(t.left, ast.Name) \
                    and isinstance(t.comparators[0], ast.Constant) and t.comparators[0].value is None and self.env.get(t.left.id, ('', ''))[1] == 'optnat':
                x = t.left.id
                a, ta = self.expr(n.body)
                q = self.child()
                q.env[x] = (x, 'nat')            # `x` is not None in the else branch
                b, tb = q.expr(n.orelse)
                if ta != tb:
                    fail(n, f'the branches of the conditional expression have different types ({ta} / {tb})')
                return f'(match {self.env[x][0]} with | none => {a} | some {x} => {b})', ta
            c = self.typed(n.test, 'bool')
            (a, ta), (b, tb) = self.expr(n.body), self.expr(n.orelse)
            if ta != tb:
                fail(n, f'the branches of the conditional expression have different types ({ta} / {tb})')
            return f'(if {c} then {a} else {b})', ta
        if isinstance(n, ast.Attribute):
            return self.attribute(n)
        if isinstance(n, ast.Subscript):
            return self.subscript(n)
        if isinstance(n, ast.Compare) and len(n.ops) == 1:
            return self.compare(n)
        if isinstance(n, ast.UnaryOp) and isinstance(n.op, ast.Not):
            return f'(!{self.typed(n.operand, "bool")})', 'bool'
        if isinstance(n, ast.BinOp):
            return self.binop(n)
        if isinstance(n, ast.Call):
            if self.is_effect(n):
                fail(n, 'a draw from the random generator in a position the translator does not hoist')
            return self.call(n)
        if isinstance(n, (ast.List, ast.Tuple)) and len(n.elts) >= 1:
            ts = [self.expr(e) for e in n.elts]
            if all(ty == 'attr' for _, ty in ts):
                return '[' + ', '.join(t for t, _ in ts) + ']', 'attrs'
            if all(ty in ('attrs', 'clique') for _, ty in ts) and isinstance(n, ast.List):
                return '[' + ', '.join(t for t, _ in ts) + ']', 'cliques'
            if all(ty in ('attrs', 'clique') for _, ty in ts) and isinstance(n, ast.Tuple) and len(ts) == 2:
                return f'({ts[0][0]}, {ts[1][0]})', 'cpair'          # a pair of tuples: a dictionary key
            fail(n, 'unsupported list/tuple display')
        if isinstance(n, ast.Set) and len(n.elts) == 1:
            return f'[{self.typed(n.elts[0], "attr")}]', 'aset'
        if isinstance(n, ast.ListComp):
            return self.listcomp(n)
        if isinstance(n, ast.DictComp):
            return self.dictcomp(n)
        fail(n, 'unsupported expression')

    def attribute(self, n):
        if isinstance(n.value, ast.Name) and n.value.id == 'self':
            f = self.spec['fields'].get(n.attr)
            if f is None:
                fail(n, 'field of self that this definition does not declare')
            if n.attr in self.spec.get('optional', {}) and n.attr not in self.env.get('#open', ((), ''))[0]:
                fail(n, f'self.{n.attr} read outside `if hasattr(self, {n.attr!r})`')
            self.gen.need_field(n.attr, n)
            self.used_fields.add(n.attr)
            return f
        base, tb = self.expr(n.value)
        a = n.attr
        if tb == 'dom' and a == 'attrs':
            self.gen.need_domain_init(n)
            return f'(Dom.attrs {base})', 'attrs'
        if tb == 'dom' and a == 'shape':
            self.gen.need_domain_init(n)
            return f'(Dom.shape {base})', 'shape'
        if tb in ('ql', 'zl') and a == 'size':
            return f'{base}.length', 'nat'
        if tb == 'ndp' and a == 'shape':
            return f'(NdArr.shape {base})', 'shape'
        if tb == 'group' and a == 'index':
            return base, 'nl'                   # the row labels of a group: the second component of the group-by contract
        fail(n, f'unknown attribute `{a}` of {tb}')

    def subscript(self, n):
        s = n.slice
        # df.shape[0], group.shape[0]
        if isinstance(n.value, ast.Attribute) and n.value.attr == 'shape' and isinstance(s, ast.Constant) and s.value == 0:
            base, tb = self.expr(n.value.value)
            if tb == 'df':
                return f'{base}.rows.length', 'nat'
            if tb == 'group':
                return f'{base}.length', 'nat'
        base, tb = self.expr(n.value)
        if isinstance(s, ast.Slice):
            lo, hi, stp = s.lower, s.upper, s.step
            if tb in ('attrs',) and lo is None and hi is None and isinstance(stp, ast.UnaryOp) and isinstance(stp.op, ast.USub) \
                    and isinstance(stp.operand, ast.Constant) and stp.operand.value == 1:
                return f'{base}.reverse', tb
            if tb in ('attrs',) and isinstance(lo, ast.Constant) and type(lo.value) is int and lo.value >= 0 and hi is None and stp is None:
                return f'({base}.drop {lo.value})', tb
            fail(n, 'unsupported slice')
        if tb == 'attrs' and isinstance(s, ast.Constant) and type(s.value) is int and s.value >= 0:
            return f'({base}.getD {s.value} "")', 'attr'          # IndexError in Python when absent
        if tb == 'cvec' or tb == 'pcvec':
            k = self.attrlist(s)
            return f'(CliqueVec.get {base} {k})', {'cvec': 'factor', 'pcvec': 'pfactor'}[tb]
        if tb == 'ndq':
            k = self.typed(s, 'key')
            return f'(NpQ.row {base} {k})', 'ql'
        if tb == 'pfactors' and isinstance(s, ast.Constant) and s.value == 0:
            return f'({base}.headD (Factor.zeros []))', 'pfactor'
        if tb in DICT:
            kt, vt, get = DICT[tb]
            k = self.attrlist(s) if kt in LISTY else self.typed(s, kt)
            return f'({get} {base} {k})', vt
        if tb == 'sepdict':
            # sep_axes[(i, j)] = tuple(set(i) & set(j)) (checked in junction_tree.py by need_field): listed as the model lists it
            if not (isinstance(s, ast.Tuple) and len(s.elts) == 2):
                fail(n, 'sep_axes is indexed by a pair of cliques')
            return f'(JT.inter {self.typed(s.elts[0], "clique")} {self.typed(s.elts[1], "clique")})', 'attrs'
        if tb == 'cpair' and isinstance(s, ast.Constant) and s.value in (0, 1) and type(s.value) is int:
            return f'{base}.{s.value + 1}', 'clique'
        if tb in ('predfn', 'distfn'):
            return f'{base} {self.typed(s, "clique")}', {'predfn': 'predrow', 'distfn': 'distrow'}[tb]
        if tb in ('predrow', 'distrow'):
            return f'({base} {self.typed(s, "clique")})', {'predrow': 'clique', 'distrow': 'nat'}[tb]
        fail(n, f'unsupported subscript of {tb}')

    def compare(self, n):
        op, l, r = n.ops[0], n.left, n.comparators[0]
        if isinstance(op, ast.Is):
            # type(x) is list
            if isinstance(l, ast.Call) and isinstance(l.func, ast.Name) and l.func.id == 'type' and len(l.args) == 1 \
                    and isinstance(l.args[0], ast.Name) and isinstance(r, ast.Name) and r.id == 'list':
                x = l.args[0].id
                self.typed(l.args[0], 'attrs')
                flag = f'{x}_is_list'
                if flag not in self.spec['flags']:
                    fail(n, f'needs the flag parameter `{flag}`')
                self.spec['used_flags'].add(flag)
                return flag, 'bool'
            if isinstance(r, ast.Constant) and r.value is None:
                t, ty = self.expr(l)
                if ty == 'optnat':
                    return f'{t}.isNone', 'bool'
            fail(n, 'unsupported `is` test')
        if isinstance(op, ast.LtE) and all(isinstance(x, ast.Call) and isinstance(x.func, ast.Name) and x.func.id == 'set'
                                           and len(x.args) == 1 and not x.keywords for x in (l, r)):
            return f'(JT.subset {self.attrlist(l.args[0])} {self.attrlist(r.args[0])})', 'bool'
        (a, ta), (b, tb) = self.expr(l), self.expr(r)
        if isinstance(op, ast.In) and ta == 'attr' and tb in ('aset', 'clique', 'attrs'):
            return f'({b}.contains {a})', 'bool'
        if isinstance(op, ast.Eq) and ta == tb == 'str':
            return f'({a} == {b})', 'bool'
        if isinstance(op, ast.Eq) and ta == tb == 'nat':
            return f'({a} == {b})', 'bool'
        if isinstance(op, ast.Eq) and ta in LISTY and tb in LISTY:
            return f'({a} == {b})', 'bool'                      # tuples of strings: equal iff the same sequence
        if isinstance(op, (ast.In, ast.NotIn)) and tb in DICT and (ta == DICT[tb][0] or (ta in LISTY and DICT[tb][0] in LISTY)):
            return (f'(dictHas {b} {a})' if isinstance(op, ast.In) else f'(!(dictHas {b} {a}))'), 'bool'
        num = {('int', 'nat'): lambda x, y: (x, f'({y} : Int)'), ('nat', 'nat'): lambda x, y: (x, y), ('int', 'int'): lambda x, y: (x, y)}
        if (ta, tb) in num and isinstance(op, (ast.Gt, ast.GtE)):
            x, y = num[(ta, tb)](a, b)
            return f'(decide ({x} {">" if isinstance(op, ast.Gt) else "≥"} {y}))', 'bool'
        fail(n, f'unsupported comparison of {ta} and {tb}')

    def binop(self, n):
        op = n.op
        if isinstance(op, ast.Mod) and isinstance(n.left, ast.Constant) and isinstance(n.left.value, str):
            fmt = n.left.value
            if fmt.count('%') != 1 or not fmt.startswith('%s'):
                fail(n, 'only the format "%s<suffix>" is supported')
            a = self.typed(n.right, 'attr')
            return f'({a} ++ "{fmt[2:]}")', 'attr'
        (a, ta), (b, tb) = self.expr(n.left), self.expr(n.right)
        if isinstance(op, ast.Add):
            if ta == 'cliques' and tb == 'cliques':
                return f'({a} ++ {b})', 'cliques'
            if ta in LISTY and tb in LISTY:
                return f'({a} ++ {b})', 'attrs'
        if isinstance(op, ast.Sub) and ta == 'nat' and tb == 'int':
            return f'(({a} : Int) - {b})', 'int'
        if isinstance(op, ast.Sub) and ta == 'nat' and tb == 'nat':
            return f'(({a} : Int) - ({b} : Int))', 'int'
        if isinstance(op, ast.Div):
            if ta == 'nat' and tb == 'rat':
                return f'(({a} : Rat) / {b})', 'rat'
            if ta == 'ql' and tb == 'rat':
                return f'({a}.map (fun v => v / {b}))', 'ql'
            if ta == 'ndp' and tb == 'pscalar':
                return f'(NdArr.map (fun v => Scalar.div v {b}) {a})', 'ndp'
        if isinstance(op, ast.Mult):
            if ta == 'ndp' and tb == 'pscalar':
                return f'(NdArr.map (fun v => Scalar.mul v {b}) {a})', 'ndp'
            if ta == tb == 'pfactor':
                self.gen.need_factor_binop('__mul__', n)
                return f'(Factor.mul {a} {b})', 'pfactor'
        if isinstance(op, ast.Div) and ta == tb == 'pfactor':
            self.gen.need_factor_binop('__truediv__', n)
            return f'(Factor.divF {a} {b})', 'pfactor'
        if isinstance(op, ast.Sub) and ta == tb == 'aset':
            return f'({a}.filter (fun ξ => !({b}.contains ξ)))', 'aset'      # set difference, listed in the order of the left operand
        fail(n, f'unsupported operator on {ta} and {tb}')

    def listcomp(self, n):
        if len(n.generators) != 1 or not isinstance(n.generators[0].target, ast.Name):
            fail(n, 'unsupported comprehension')
        g = n.generators[0]
        xs, tx = self.expr(g.iter)
        if tx not in ('cliques', 'attrs'):
            fail(n, f'comprehension over {tx}')
        v = g.target.id
        q = self.child()
        q.env[v] = (v, ELEM[tx])
        q.dead.pop(v, None)
        out = xs
        if g.ifs:
            if len(g.ifs) != 1:
                fail(n, 'unsupported comprehension')
            out = f'({out}.filter (fun {v} => {q.typed(g.ifs[0], "bool")}))'
        if isinstance(n.elt, ast.Name) and n.elt.id == v:
            return out, tx
        et, ety = q.expr(n.elt)
        res = {'clique': 'cliques', 'attr': 'attrs', 'pfactor': 'pfactors', 'aset': 'cliques'}.get(ety) or fail(n, f'list of {ety}')
        if ety == 'aset' and ast.unparse(n.elt) == f'set({v})':
            return out, 'cliques'            # [set(cl) for cl in XS]: the same tuples, read as sets
        return f'({out}.map (fun {v} => {et}))', res

    def dictcomp(self, n):
        """{K: V for k in d}: entries are stored in iteration order; a key that occurs again overwrites the value and keeps the position"""
        if len(n.generators) != 1 or not isinstance(n.generators[0].target, ast.Name) or n.generators[0].ifs or n.generators[0].is_async:
            fail(n, 'unsupported comprehension')
        g = n.generators[0]
        xs, et = self.iterable(g.iter)
        if not isinstance(et, str):
            fail(n, 'unsupported comprehension')
        v = g.target.id
        q = self.child()
        q.env[v] = (v, et)
        q.dead.pop(v, None)
        (k, tk), (val, tv) = q.expr(n.key), q.expr(n.value)
        res = next((d for d, (kt, vt, _) in DICT.items() if vt == tv and (kt == tk or (kt in LISTY and tk in LISTY))), None) \
            or fail(n, f'dictionary from {tk} to {tv}')
        return f'({xs}.foldl (fun (δ : {LT[res]}) ({v} : {LT[et]}) => GM.dictSet δ {k} {val}) [])', res

    def call(self, n):
        f, args, kws = n.func, n.args, {k.arg: k.value for k in n.keywords}
        fn = ast.unparse(f)
        if isinstance(f, ast.Name):
            if fn in ('tuple', 'list') and len(args) == 1 and not kws:
                t, ty = self.expr(args[0])
                if ty in ('attrs', 'clique'):
                    return t, 'attrs'
                if ty == 'aset' and fn == 'tuple':
                    return f'({self.contract("set_order", n)} {t})', 'attrs'
                if ty == 'factors' and fn == 'list':
                    return t, ty
                fail(n, f'{fn} of {ty}')
            if fn == 'set' and len(args) == 1 and not kws:
                return self.attrlist(args[0]), 'aset'
            if fn == 'len' and len(args) == 1 and not kws:
                t, ty = self.expr(args[0])
                if ty in ('attrs', 'clique', 'cliques', 'nl'):
                    return f'{t}.length', 'nat'
                fail(n, f'len of {ty}')
            if fn == 'int' and len(args) == 1 and not kws:
                return f'(Rat.floor {self.typed(args[0], "rat")}).toNat', 'nat'
            if fn == 'zip' and len(args) == 2 and not kws:
                (a, ta), (b, tb) = self.expr(args[0]), self.expr(args[1])
                if ta == 'attrs' and tb == 'mats':
                    return f'(List.zip {a} {b})', 'attrmats'
                fail(n, f'zip of {ta} and {tb}')
            if fn == 'greedy_order' and len(args) == 3 and not kws:
                self.gen.need_module_func('greedy_order', ['domain', 'cliques', 'elim'], n)
                d, c, e = self.typed(args[0], 'dom'), self.typed(args[1], 'cliques'), self.typed(args[2], 'attrs')
                return f'({self.contract("greedy_order", n)} {d} {c} {e})', 'attrs'
            if fn == 'variable_elimination_logspace' and len(args) == 3 and not kws:
                self.gen.need_gmg('veLogspace', n)
                return f'(GMG.veLogspace {self.typed(args[0], "factors")} {self.typed(args[1], "attrs")} {self.typed(args[2], "scalar")})', 'factor'
            if fn == 'variable_elimination' and len(args) == 2 and not kws:
                self.gen.need_gmg('variableElimination', n)
                return f'(GMG.variableElimination {self.typed(args[0], "pfactors")} {self.typed(args[1], "attrs")})', 'pyvalp'
            if fn == 'Domain' and len(args) == 2 and not kws:
                self.gen.need_domain_init(n)
                return f'(List.zip {self.typed(args[0], "attrs")} {self.typed(args[1], "shape")})', 'dom'
            if fn == 'Dataset' and len(args) == 2 and not kws:
                self.gen.need_dataset_init(n)
                return f'(DsG.init (DF.toTable {self.typed(args[0], "df")}) {self.typed(args[1], "dom")} none)', 'dataset'
            if fn in self.env and self.env[fn][1] == 'factorclass' and len(args) == 2 and not kws:
                self.gen.need_factor_init(n)
                return f'(Factor.mk\' {self.typed(args[0], "dom")} {self.typed(args[1], "ndp")})', 'pfactor'
            if fn == 'sorted' and len(args) == 1 and set(kws) == {'key'} and isinstance(kws['key'], ast.Lambda):
                xs, tx = self.expr(args[0])
                lam = kws['key']
                la = lam.args
                if tx != 'cpairs' or len(la.args) != 1 or la.vararg or la.kwarg or la.kwonlyargs or la.defaults or la.posonlyargs:
                    fail(n, 'only sorted(<pairs of cliques>, key=lambda X: <int>) is supported')
                v = la.args[0].arg
                q = self.child()
                q.env[v] = (v, 'cpair')
                q.dead.pop(v, None)
                # Python's sorted is stable; Dom.sortBy is the stable insertion sort of the hand model
                return f'(Dom.sortBy (fun {v} => {q.typed(lam.body, "nat")}) {xs})', 'cpairs'
            if fn == 'type' and len(args) == 1 and not kws:
                t, ty = self.expr(args[0])
                if ty == 'pfactor':
                    return 'Factor', 'factorclass'
            fail(n, 'unsupported function')
        if fn == 'np.exp' and len(args) == 1 and not kws:
            return f'({self.contract("plainS", n)} (Scalar.exp {self.typed(args[0], "scalar")}))', 'pscalar'
        if fn == 'np.modf' and len(args) == 1 and not kws:
            a = self.typed(args[0], 'ql')
            return f'(NpQ.modf {a})', 'ql×ql'
        if fn == 'np.arange' and len(args) == 1 and not kws:
            return f'(List.range {self.typed(args[0], "nat")})', 'nl'
        if fn == 'np.repeat' and len(args) == 2 and not kws:
            return f'(NpZ.repeat {self.typed(args[0], "nl")} {self.typed(args[1], "zl")})', 'nl'
        if fn == 'pd.DataFrame' and len(args) == 1 and set(kws) == {'columns'}:
            z = args[0]
            if isinstance(z, ast.Name) and z.id in self.env and self.env[z.id][1].startswith('zeros:'):
                cols = self.typed(kws['columns'], 'attrs')
                _, r, c = self.env[z.id][1].split(':', 2)
                if c != f'{cols}.length':
                    fail(n, 'the zero matrix does not have one column per label')
                return f'(DF.zeros {r} {cols})', 'df'
            fail(n, 'only pd.DataFrame(<zero int matrix>, columns=cols) is supported')
        if fn == 'np.zeros' and len(args) == 1 and set(kws) == {'dtype'} and ast.unparse(kws['dtype']) == 'int' \
                and isinstance(args[0], ast.Tuple) and len(args[0].elts) == 2:
            r, c = self.typed(args[0].elts[0], 'nat'), self.typed(args[0].elts[1], 'nat')
            return '#zeros', f'zeros:{r}:{c}'
        if fn == 'itertools.combinations' and len(args) == 2 and not kws and self.const(args[1]) and args[1].value == 2 and type(args[1].value) is int:
            self.gen.need_import('import itertools', n)
            return f'(GM.combos2 {self.typed(args[0], "cliques")})', 'cpairs'
        if fn == 'set.union' and len(args) == 1 and isinstance(args[0], ast.Starred) and not kws:
            xs = self.typed(args[0].value, 'cliques')
            return f'({xs}.foldl JT.union [])', 'aset'        # TypeError in Python when the list is empty
        if isinstance(f, ast.Attribute):
            m = f.attr
            if isinstance(f.value, ast.Name) and f.value.id == 'self':
                if m == 'project' and len(args) == 1 and not kws and 'project' in self.spec['contracts']:
                    self.gen.need_method('project', ['self', 'attrs'], n)
                    return f'({self.contract("project", n)} {self.attrlist(args[0])})', 'qfactor'
                if m == 'project' and len(args) == 1 and not kws and 'fallback' in self.spec['contracts']:
                    self.gen.need_method('project', ['self', 'attrs'], n)
                    return f'({self.contract("fallback", n)} {self.attrlist(args[0])})', 'pfactor'
                if m == 'belief_propagation' and len(args) == 1 and not kws:
                    self.gen.need_bp_default(n)
                    self.gen.need_gmg('beliefPropagation', n)
                    for fld in ('cliques', 'message_order', 'total'):
                        self.used_fields.add(fld)
                        if fld not in self.spec['fields']:
                            fail(n, f'needs the field `{fld}`')
                        self.gen.need_field(fld, n)
                    if self.spec['fields']['total'][1] != 'scalar':
                        fail(n, 'belief_propagation needs `total` in log space')
                    return f'(GMG.beliefPropagation cliques message_order {self.typed(args[0], "cvec")} total)', 'cvec'
                if m == 'belief_propagation' and len(args) == 1 and set(kws) == {'logZ'} and self.const(kws['logZ']) and kws['logZ'].value is True:
                    self.gen.need_gmg('logZ', n)
                    for fld in ('cliques', 'message_order'):
                        self.used_fields.add(fld)
                        if fld not in self.spec['fields']:
                            fail(n, f'needs the field `{fld}`')
                    return f'(GMG.logZ cliques message_order {self.typed(args[0], "cvec")})', 'scalar'
                fail(n, 'unsupported method of self')
            base, tb = self.expr(f.value)
            if tb == 'dom' and m == 'canonical' and len(args) == 1 and not kws:
                self.gen.need_domain_canonical(n)
                return f'(Dom.canonical {base} {self.attrlist(args[0])})', 'attrs'
            if tb == 'pfactor' and m == 'sum' and len(args) == 1 and not kws:
                self.gen.need_factor_sum(n)
                t, ty = self.expr(args[0])
                if ty not in ('aset', 'attrs', 'clique'):
                    fail(n, f'sum over {ty}')
                return f'(Factor.sum {base} {t})', 'pfactor'
            if tb == 'dom' and m == 'invert' and len(args) == 1 and not kws:
                self.gen.g.need_domain_contains(n)
                return f'(Dom.invert {base} {self.attrlist(args[0])})', 'attrs'
            if tb == 'cvec' and m == 'values' and not args and not kws:
                return f'({base}.map Prod.snd)', 'factors'
            if tb in ('factor', 'pfactor') and m == 'project' and len(args) == 1 and not kws:
                self.gen.g.need_default('project', 'agg', 'sum', n)
                return f'(Factor.projectSum {base} {self.attrlist(args[0])})', tb
            if tb == 'factor' and m == 'exp' and not args and not kws:
                self.gen.g.need_factor_method('exp', n)
                return f'({self.contract("toPlain", n)} (Factor.exp {base}))', 'pfactor'
            if tb == 'pyvalp' and m == 'transpose' and len(args) == 1 and not kws:
                self.gen.g.need_factor_method('transpose', n)
                return f'(Factor.transpose (GMG.PyVal.asFactor {base}) {self.typed(args[0], "attrs")})', 'pfactor'
            if tb in ('qfactor', 'pfactor') and m == 'datavector' and not args and set(kws) == {'flatten'} and self.const(kws['flatten']) \
                    and kws['flatten'].value is False:
                self.gen.need_datavector(n)
                return f'(Factor.vals {base})', {'qfactor': 'ndq', 'pfactor': 'ndp'}[tb]
            if tb == 'ql' and m == 'sum' and not args and not kws:
                return f'(NpQ.sum {base})', 'rat'
            if tb == 'zl' and m == 'sum' and not args and not kws:
                return f'(NpZ.sum {base})', 'int'
            if tb == 'ql' and m == 'astype' and len(args) == 1 and not kws and ast.unparse(args[0]) == 'int':
                return f'(NpQ.astypeInt {base})', 'zl'
            if tb == 'aset' and m == 'intersection' and len(args) == 1 and not kws:
                return f'(JT.inter {base} {self.typed(args[0], "aset")})', 'aset'
            if tb == 'df' and m == 'groupby' and len(args) == 1 and not kws:
                return f'({self.contract("groupby", n)} {base} {self.attrlist(args[0])})', 'groups'
            fail(n, f'unsupported method `{m}` of {tb}')
        fail(n, 'unsupported call')

    # ------------------------------------------------------------------ effects (draws from the generator)
    def effect(self, n):
        """-> (lean term of type (T × G), T)"""
        fn = ast.unparse(n.func)
        args, kws = n.args, n.keywords
        g = self.env['#g'][0]
        if fn == 'np.random.choice' and len(args) == 4 and not kws:
            if not (self.const(args[2]) and type(args[2].value) is bool):
                fail(n, 'np.random.choice: `replace` must be the literal True or False')
            c = self.contract('choice_replace' if args[2].value else 'choice_noreplace', n)
            size = self.expr(args[1])
            st = size[0] if size[1] == 'nat' else f'{size[0]}.toNat' if size[1] == 'int' else fail(n, f'size of type {size[1]}')
            return f'{c} {g} {self.typed(args[0], "nat")} {st} {self.typed(args[3], "ql")}', 'nl'
        if fn in self.spec.get('effect_funcs', {}):
            lean, argtys, closure = self.spec['effect_funcs'][fn]
            if len(args) != len(argtys) or kws:
                fail(n, f'call of {fn} with an unexpected number of arguments')
            ts = []
            for a, ty in zip(args, argtys):
                t, got = self.expr(a)
                if ty == 'ql' and got == 'ndq':
                    t, got = f'(NpQ.row {t} [])', 'ql'       # a one-dimensional array passed whole: `A[()]`
                if got != ty:
                    fail(a, f'expected {ty}, got {got}')
                ts.append(t)
            cl = [self.typed(ast.Name(id=c, ctx=ast.Load()), ty) for c, ty in closure]
            cs = [CONTRACTS[c][0] for c in RNG_CONTRACTS]
            for c in RNG_CONTRACTS:
                self.contract(c, n)
            return f'{lean} {" ".join(cs)} {" ".join(cl)} {" ".join(ts)} {g}', 'nl'
        fail(n, 'unsupported draw')

    def hoist(self, value, lines):
        """if `value` is a draw: emit `let (r, g) := …` and return the name holding its result"""
        if self.is_effect(value):
            if '#g' not in self.env:
                fail(value, 'a draw from the random generator in a definition without generator state')
            t, ty = self.effect(value)
            self.tmp += 1
            r = f'r{self.tmp}'
            lines.append(f'let ({r}, g) := {t}')
            return r, ty
        return self.expr(value)

    # ------------------------------------------------------------------ statements
    def bind(self, name, term, ty, lines, st):
        if ty.startswith('zeros:'):
            self.env[name] = (term, ty)
            self.dead.pop(name, None)
            return
        if ty == 'factorclass' or ty in PSEUDO:
            self.env[name] = (term, ty)
            self.dead.pop(name, None)
            return
        if ty not in LT:
            fail(st, f'cannot bind a value of type {ty}')
        lines.append(f'let {name} := {term}')
        self.env[name] = (name, ty)
        self.dead.pop(name, None)

    def state_names(self, stmts, extra_live=()):
        names = [x for x in assigned(stmts) if x in self.env and x not in self.dead and self.env[x][1] in LT]
        if self.effects_in(stmts):
            names.append('#g')
        return names

    def tup(self, names):
        ns = ['g' if x == '#g' else x for x in names]
        return ns[0] if len(ns) == 1 else '(' + ', '.join(ns) + ')'

    def tup_ty(self, names):
        tys = [LT[self.env[x][1]] for x in names]
        return tys[0] if len(tys) == 1 else ' × '.join(tys)

    def kill_new(self, stmts, before, why):
        for x in assigned(stmts):
            if x not in before:
                self.dead[x] = why
                self.env.pop(x, None)

    def block(self, stmts, tail):
        """-> lean term (multi-line).  `tail`: None = the block must return; else a function () -> term used at fall-through"""
        lines = []
        stmts = [s for s in stmts if not is_doc(s)]
        for i, st in enumerate(stmts):
            rest = stmts[i + 1:]
            if isinstance(st, ast.Return):
                if st.value is None:
                    fail(st, 'return without a value')
                t, ty = self.hoist(st.value, lines)
                return '\n'.join(lines + [self.ret(t, ty, st)])
            if isinstance(st, ast.If) and has_return(st.body + st.orelse):
                return '\n'.join(lines + [self.if_return(st, rest, tail)])
            self.stmt(st, lines)
        if tail is None:
            fail(stmts[-1] if stmts else 'block', 'no return value on this path')
        return '\n'.join(lines + [tail()])

    def ret(self, t, ty, st):
        want = self.spec['ret']
        if ty == 'factor' and want == 'pfactor':
            t, ty = f'({self.contract("toPlain", st)} {t})', 'pfactor'
        if ty == 'cvec' and want == 'pcvec':
            # the tables `belief_propagation` returns are exponentiated (plain numbers): every entry re-read as a plain table
            t, ty = f'({t}.map (fun p => (p.1, {self.contract("toPlain", st)} p.2)))', 'pcvec'
        if ty != want:
            fail(st, f'returns {ty}, expected {want}')
        if '#g' in self.env:
            return f'({t}, g)'
        return t

    def if_return(self, st, rest, tail):
        body = [s for s in st.body if not is_doc(s)]
        always = isinstance(body[-1], ast.Return) and not has_return(body[:-1])
        hasattr_f = self.hasattr_field(st.test)
        if always and hasattr_f is None:
            c = self.typed(st.test, 'bool')
            a = self.child().block(body, None)
            if st.orelse:
                b = self.child().block(st.orelse + rest, tail)
            else:
                b = self.child().block(rest, tail) if (rest or tail) else fail(st, 'no return value on this path')
            return f'if {c} then\n{ind(a, 2)}\nelse\n{b}'
        if st.orelse:
            fail(st, 'a conditional return that may fall through cannot have an else branch')
        q = self.child()
        if hasattr_f is not None:
            opened = q.env.get('#open', ((), ''))[0] + (hasattr_f,)
            q.env['#open'] = (opened, '')
            o = q.optblock(body)
            opt = f'match {hasattr_f} with\n| some {hasattr_f} =>\n{ind(o, 2)}\n| none => none'
        else:
            c = self.typed(st.test, 'bool')
            opt = f'if {c} then\n{ind(q.optblock(body), 2)}\nelse none'
        b = self.child().block(rest, tail)
        return f'match ({opt}) with\n| some r => r\n| none =>\n{b}'

    def hasattr_field(self, test):
        if isinstance(test, ast.Call) and isinstance(test.func, ast.Name) and test.func.id == 'hasattr' and len(test.args) == 2 \
                and ast.unparse(test.args[0]) == 'self' and isinstance(test.args[1], ast.Constant) and isinstance(test.args[1].value, str):
            f = test.args[1].value
            if f not in self.spec.get('optional', {}):
                fail(test, f'`{f}` is not declared an optional field')
            self.used_fields.add(f)
            return f
        return None

    def optblock(self, stmts):
        """a block that returns or falls through, as a term of type Option _"""
        lines = []
        stmts = [s for s in stmts if not is_doc(s)]
        for i, st in enumerate(stmts):
            last = i == len(stmts) - 1
            if isinstance(st, ast.For) and last:
                b = [s for s in st.body if not is_doc(s)]
                if not (len(b) == 1 and isinstance(b[0], ast.If) and not b[0].orelse and len(b[0].body) == 1
                        and isinstance(b[0].body[0], ast.Return) and b[0].body[0].value is not None and isinstance(st.target, ast.Name) and not st.orelse):
                    fail(st, 'a loop containing `return` must be `for x in XS: if C: return E`')
                xs, tx = self.expr(st.iter)
                if tx not in ('cliques', 'attrs'):
                    fail(st, f'loop over {tx}')
                v = st.target.id
                q = self.child()
                q.env[v] = (v, ELEM[tx])
                c = q.typed(b[0].test, 'bool')
                t, ty = q.expr(b[0].body[0].value)
                t = q.ret(t, ty, b[0].body[0])
                return '\n'.join(lines + [f'({xs}.find? (fun {v} => {c})).map (fun {v} => {t})'])
            if isinstance(st, ast.If) and last and not st.orelse and len(st.body) == 1 and isinstance(st.body[0], ast.Return):
                c = self.typed(st.test, 'bool')
                t, ty = self.expr(st.body[0].value)
                return '\n'.join(lines + [f'if {c} then some {self.ret(t, ty, st)} else none'])
            if has_return([st]):
                fail(st, 'unsupported position of `return`')
            self.stmt(st, lines)
        return '\n'.join(lines + ['none'])

    def stmt(self, st, lines):
        if isinstance(st, ast.Assign) and len(st.targets) == 1:
            return self.assign(st.targets[0], st.value, st, lines)
        if isinstance(st, ast.Assign):
            # t1 = t2 = E: E is evaluated once, then the targets are assigned from left to right
            t, ty = self.hoist(st.value, lines)
            if ty not in LT:
                fail(st, f'cannot bind a value of type {ty}')
            self.tmp += 1
            v = f'v{self.tmp}'
            lines.append(f'let {v} := {t}')
            self.env[f'#{v}'] = (v, ty)
            for tg in st.targets:
                self.assign(tg, ast.Name(id=f'#{v}', ctx=ast.Load()), st, lines)
            return
        if isinstance(st, ast.AugAssign):
            return self.augassign(st, lines)
        if isinstance(st, ast.Expr) and isinstance(st.value, ast.Call):
            c = st.value
            fn = ast.unparse(c.func)
            if fn == 'np.random.shuffle' and len(c.args) == 1 and isinstance(c.args[0], ast.Name) and not c.keywords:
                if '#g' not in self.env:
                    fail(st, 'a draw from the random generator in a definition without generator state')
                x = c.args[0].id
                v = self.typed(c.args[0], 'nl')
                lines.append(f'let ({x}, g) := {self.contract("shuffle", st)} {self.env["#g"][0]} {v}')
                self.env[x] = (x, 'nl')
                return
            if isinstance(c.func, ast.Attribute) and c.func.attr == 'add' and isinstance(c.func.value, ast.Name) and len(c.args) == 1 and not c.keywords:
                s = c.func.value.id
                cur = self.typed(c.func.value, 'aset')
                return self.bind(s, f'(JT.union {cur} [{self.typed(c.args[0], "attr")}])', 'aset', lines, st)
            if isinstance(c.func, ast.Attribute) and c.func.attr == 'append' and isinstance(c.func.value, ast.Name) and len(c.args) == 1 and not c.keywords:
                s = c.func.value.id
                cur, ty = self.expr(c.func.value)
                if ty == 'pfactors':
                    return self.bind(s, f'({cur} ++ [{self.typed(c.args[0], "pfactor")}])', ty, lines, st)
            fail(st, 'unsupported expression statement')
        if isinstance(st, ast.If):
            return self.if_(st, lines)
        if isinstance(st, ast.For):
            return self.for_(st, lines)
        if isinstance(st, ast.FunctionDef):
            if st.name not in self.spec.get('effect_funcs', {}) and st.name not in self.spec.get('nested', ()):
                fail(st, 'a nested function this definition does not declare')
            return
        if isinstance(st, ast.Assert):
            if not self.spec.get('asserts_elsewhere'):
                fail(st, 'assert')
            return
        fail(st, 'unsupported statement')

    def assign(self, tg, v, st, lines):
        if isinstance(tg, ast.Name) and isinstance(v, ast.Dict) and not v.keys:
            ty = self.spec.get('dicts', {}).get(tg.id) or fail(st, f'`{tg.id}` is not declared a dictionary of this definition')
            lines.append(f'let {tg.id} : {LT[ty]} := []')
            self.env[tg.id] = (tg.id, ty)
            self.dead.pop(tg.id, None)
            return
        if isinstance(tg, ast.Name):
            t, ty = self.hoist(v, lines)
            return self.bind(tg.id, t, ty, lines, st)
        if isinstance(tg, ast.Tuple) and isinstance(v, ast.Call) and ast.unparse(v.func) == 'nx.floyd_warshall_predecessor_and_distance':
            # all-pairs shortest paths of the junction tree, every edge of length 1 (`weight=False`: no edge carries such an attribute,
            # networkx then counts 1 per edge): contract parameters
            self.gen.need_import('import networkx as nx', st)
            self.gen.need_junction_tree(st)
            if [ast.unparse(a) for a in v.args] != ['self.junction_tree.tree'] or [(k.arg, ast.unparse(k.value)) for k in v.keywords] != [('weight', 'False')]:
                fail(st, 'only floyd_warshall_predecessor_and_distance(self.junction_tree.tree, weight=False) is supported')
            if [ast.unparse(e) for e in tg.elts] != ['pred', 'dist']:
                fail(st, 'the result must be unpacked as `pred, dist`')
            self.bind('pred', self.contract('pred', st), 'predfn', lines, st)
            self.bind('dist', self.contract('dist', st), 'distfn', lines, st)
            return
        if isinstance(tg, ast.Tuple) and len(tg.elts) == 2 and all(isinstance(e, ast.Name) for e in tg.elts):
            t, ty = self.expr(v)
            if ty == 'ql×ql':
                a, b = (e.id for e in tg.elts)
                lines.append(f'let ({a}, {b}) := {t}')
                self.env[a], self.env[b] = (a, 'ql'), (b, 'ql')
                return
            fail(st, f'unpacking of {ty}')
        if isinstance(tg, ast.Subscript) and isinstance(tg.value, ast.Name) and self.env.get(tg.value.id, ('', ''))[1] in DICT \
                and tg.value.id not in self.dead:
            # d[k] = E: key first?  Python evaluates E, then d, then k; all three are pure here
            d = tg.value.id
            cur, td = self.expr(tg.value)
            kt, vt, _ = DICT[td]
            t, ty = self.hoist(v, lines)
            if ty != vt:
                fail(st, f'stores a {ty} in a dictionary of {vt}')
            k = self.attrlist(tg.slice) if kt in LISTY else self.typed(tg.slice, kt)
            return self.bind(d, f'(GM.dictSet {cur} {k} {t})', td, lines, st)
        if isinstance(tg, ast.Subscript):
            b = tg.value
            # df[col] = E
            if isinstance(b, ast.Name) and self.env.get(b.id, ('', ''))[1] == 'df':
                col = self.typed(tg.slice, 'attr')
                t, ty = self.hoist(v, lines)
                if ty != 'nl':
                    fail(st, f'stores a {ty} in a column')
                return self.bind(b.id, f'(DF.setCol {self.env[b.id][0]} {col} {t})', 'df', lines, st)
            # df.loc[I, col] = E
            if isinstance(b, ast.Attribute) and b.attr == 'loc' and isinstance(b.value, ast.Name) and self.env.get(b.value.id, ('', ''))[1] == 'df' \
                    and isinstance(tg.slice, ast.Tuple) and len(tg.slice.elts) == 2:
                d = b.value.id
                rows, col = tg.slice.elts
                colt = self.typed(col, 'attr')
                t, ty = self.hoist(v, lines)
                if ty != 'nl':
                    fail(st, f'stores a {ty} in a column')
                if isinstance(rows, ast.Slice) and rows.lower is None and rows.upper is None and rows.step is None:
                    return self.bind(d, f'(DF.setCol {self.env[d][0]} {colt} {t})', 'df', lines, st)
                return self.bind(d, f'(DF.setAt {self.env[d][0]} {self.typed(rows, "nl")} {colt} {t})', 'df', lines, st)
        fail(st, 'unsupported assignment')

    def augassign(self, st, lines):
        tg = st.target
        if isinstance(tg, ast.Name) and isinstance(st.op, ast.Mult):
            cur = self.typed(tg, 'ql')
            c = self.typed(st.value, 'rat')
            # in place on the caller's array: accepted for a parameter declared `inplace_ok` (the caller never reads it again)
            if tg.id not in self.spec.get('inplace_ok', ()):
                fail(st, f'in-place update of `{tg.id}`, which may be read again through another name')
            return self.bind(tg.id, f'({cur}.map (fun v => v * {c}))', 'ql', lines, st)
        if isinstance(tg, ast.Subscript) and isinstance(tg.value, ast.Name) and isinstance(st.op, ast.Add) \
                and isinstance(st.value, ast.Constant) and st.value.value == 1:
            a = self.typed(tg.value, 'zl')
            i = self.typed(tg.slice, 'nl')
            return self.bind(tg.value.id, f'(NpZ.incrAt {a} {i})', 'zl', lines, st)
        fail(st, 'unsupported augmented assignment')

    def if_(self, st, lines):
        # if not isinstance(k, tuple): k = (k,)
        t = st.test
        if isinstance(t, ast.UnaryOp) and isinstance(t.op, ast.Not) and isinstance(t.operand, ast.Call) and ast.unparse(t.operand.func) == 'isinstance' \
                and len(t.operand.args) == 2 and ast.unparse(t.operand.args[1]) == 'tuple' and isinstance(t.operand.args[0], ast.Name):
            k = t.operand.args[0].id
            self.typed(t.operand.args[0], 'key')
            if [ast.unparse(s) for s in st.body] != norm(f'{k} = ({k},)') or st.orelse:
                fail(st, 'only the normalisation `k = (k,)` is supported here')
            return
        c = self.typed(st.test, 'bool')
        before = set(self.env)
        names = self.state_names(st.body + st.orelse)
        if not names:
            fail(st, 'a conditional that updates nothing')
        qa, qb = self.child(), self.child()
        fin = lambda q: (lambda: q.tup(names))
        a = qa.block(st.body, fin(qa))
        b = qb.block(st.orelse, fin(qb)) if st.orelse else self.tup(names)
        for x in names:
            for q in (qa, qb):
                if q.env[x][1] != self.env[x][1]:
                    fail(st, f'`{x}` changes its type in a branch')
        lines.append(f'let {self.tup(names)} : {self.tup_ty(names)} := if {c} then\n{ind(a, 4)}\n  else\n{ind(b, 4)}')
        self.kill_new(st.body + st.orelse, before, 'first bound inside a conditional')

    def for_(self, st, lines):
        if st.orelse:
            fail(st, 'for … else')
        xs, et = self.iterable(st.iter)
        q = self.child()
        pre = []
        if isinstance(st.target, ast.Name) and et == ('clique', 'clique'):
            et = 'cpair'
        if isinstance(st.target, ast.Name) and isinstance(et, str):
            var, tnames = st.target.id, [st.target.id]
            q.env[var] = (var, et)
        elif isinstance(st.target, ast.Tuple) and isinstance(et, tuple) and len(st.target.elts) == 2 and all(isinstance(e, ast.Name) for e in st.target.elts):
            tnames = [e.id for e in st.target.elts]
            var = '_'.join(tnames)
            pre.append(f'let ({tnames[0]}, {tnames[1]}) := {var}')
            for x, ty in zip(tnames, et):
                q.env[x] = (x, ty)
        else:
            fail(st, 'unsupported loop target')
        for x in tnames:
            q.dead.pop(x, None)
        before = set(self.env)
        names = [x for x in self.state_names(st.body) if x not in tnames]
        if not names:
            fail(st, 'a loop that updates nothing')
        ety = LT[et] if isinstance(et, str) else f'{LT[et[0]]} × {LT[et[1]]}'
        b = [s_ for s_ in st.body if not is_doc(s_)]
        if len(b) == 1 and isinstance(b[0], ast.If) and not b[0].orelse and isinstance(b[0].body[-1], ast.Break) and isinstance(st.target, ast.Name) \
                and not any(isinstance(n, (ast.Break, ast.Continue)) for s_ in b[0].body[:-1] for n in ast.walk(s_)):
            # for x in XS: if C: BODY; break  — BODY runs once, for the FIRST x satisfying C; nothing happens when there is none
            if self.effects_in(st.body):
                fail(st, 'a draw inside a loop with break')
            c = q.typed(b[0].test, 'bool')
            if not b[0].body[:-1]:
                fail(st, 'a loop that updates nothing')
            body = q.block(b[0].body[:-1], lambda: q.tup(names))
            for x in names:
                if q.env[x][1] != self.env[x][1]:
                    fail(st, f'`{x}` changes its type inside the loop')
            lines.append(f'let {self.tup(names)} : {self.tup_ty(names)} := (match {xs}.find? (fun ({var} : {ety}) => {c}) with\n'
                         f'    | some {var} =>\n{ind(body, 6)}\n    | none => {self.tup(names)})')
            self.kill_new(st.body, before, 'bound inside a loop')
            for x in tnames:
                self.dead[x] = 'a loop target'
                self.env.pop(x, None)
            return
        body = q.block(st.body, lambda: q.tup(names))
        for x in names:
            if q.env[x][1] != self.env[x][1]:
                fail(st, f'`{x}` changes its type inside the loop')
        hd = [f'{xs}.foldl (fun (st : {self.tup_ty(names)}) ({var} : {ety}) =>']
        inner = ([f'let {self.tup(names)} := st'] if True else []) + pre + [body]
        lines.append(f'let {self.tup(names)} := ' + hd[0] + '\n' + ind('\n'.join(inner), 4) + f') {self.tup(names)}')
        self.kill_new(st.body, before, 'bound inside a loop')
        for x in tnames:
            self.dead[x] = 'a loop target'
            self.env.pop(x, None)


# ---------------------------------------------------------------------------- the definitions to generate
MM = 'calculate_many_marginals'
PRELUDE_MM = '''/-! ## `calculate_many_marginals` — fixed prelude: dictionary reads (KeyError in Python when the key is absent: the model's default) -/

/-- `d[k]` for a dictionary of factors -/
def dictGet {β : Type} [Scalar β] {κ : Type} [BEq κ] (d : List (κ × Factor β)) (k : κ) : Factor β := (List.lookup k d).getD (Factor.zeros [])

/-- `k in d` -/
def dictHas {κ γ : Type} [BEq κ] (d : List (κ × γ)) (k : κ) : Bool := d.any (fun p => p.1 == k)

/-- `neighbors[c]` -/
def nbGet (d : List (JT.Clique × List JT.Clique)) (k : JT.Clique) : List JT.Clique := (List.lookup k d).getD []
'''
F_DOMAIN, F_CLIQUES, F_POTS = ('domain', 'dom'), ('cliques', 'cliques'), ('potentials', 'cvec')
SPECS = [
    dict(py='project', lean='project', two=True, pyargs=['self', 'attrs'],
         params=[('domain', 'dom', 'self'), ('cliques', 'cliques', 'self'), ('marginals', 'pcvec', 'opt'), ('potentials', 'cvec', 'self'),
                 ('total', 'scalar', 'self'), ('attrs_is_list', 'bool', 'flag'), ('attrs', 'attrs', 'arg')],
         contracts=['toPlain', 'greedy_order'], ret='pfactor',
         doc='`marginals = none`: the object has no attribute `marginals`.  `toPlain` re-reads the exponentiated log-space table '
             'returned by `variable_elimination_logspace` as a plain table (the identity for floats)'),
    dict(py='project', lean='projectUncached', pyargs=['self', 'attrs'], fix_hasattr=False,
         params=[('domain', 'dom', 'self'), ('cliques', 'cliques', 'self'), ('potentials', 'cvec', 'self'),
                 ('total', 'scalar', 'self'), ('attrs_is_list', 'bool', 'flag'), ('attrs', 'attrs', 'arg')],
         contracts=['greedy_order'], ret='factor', doc='the path taken when the object has no attribute `marginals`'),
    dict(py='synthetic_data/synthetic_col', lean='syntheticCol', pyargs=['counts', 'total'], rng=True,
         params=[('method', 'str', 'closure'), ('counts', 'ql', 'arg'), ('total', 'nat', 'arg')], inplace_ok=('counts',),
         contracts=list(RNG_CONTRACTS), ret='nl',
         doc='the inner function; `counts` is a one-dimensional float array (exact rationals here), updated in place by `counts *= …` '
             '(a view of `marg` no statement of the caller reads again).  `g` is the state of the random generator'),
    dict(py='synthetic_data', lean='syntheticFrame', pyargs=['self', 'rows', 'method'], defaults={'rows': None, 'method': 'round'}, rng=True,
         upto_return=True,
         params=[('domain', 'dom', 'self'), ('cliques', 'cliques', 'self'), ('elimination_order', 'attrs', 'self'), ('total', 'rat', 'self'),
                 ('rows', 'optnat', 'arg'), ('method', 'str', 'arg')],
         effect_funcs={'synthetic_col': ('syntheticCol', ['ql', 'nat'], [('method', 'str')])},
         contracts=['project', 'set_order', 'groupby'] + list(RNG_CONTRACTS), ret='df',
         doc='everything up to the final `return`: the frame `df` after the column loop (and the generator state)'),
    dict(py='synthetic_data', lean='syntheticData', pyargs=['self', 'rows', 'method'], defaults={'rows': None, 'method': 'round'}, rng=True,
         after='syntheticFrame',
         params=[('domain', 'dom', 'self'), ('cliques', 'cliques', 'self'), ('elimination_order', 'attrs', 'self'), ('total', 'rat', 'self'),
                 ('rows', 'optnat', 'arg'), ('method', 'str', 'arg')],
         contracts=['project', 'set_order', 'groupby'] + list(RNG_CONTRACTS), ret='dataset', doc='the value returned: `Dataset(df, self.domain)`'),
    dict(py='krondot', lean='krondot', two=True, pyargs=['self', 'matrices'], asserts_elsewhere=True,
         params=[('domain', 'dom', 'self'), ('cliques', 'cliques', 'self'), ('message_order', 'order', 'self'), ('potentials', 'cvec', 'self'),
                 ('total', 'pscalar', 'self'), ('matrices', 'mats', 'arg')],
         contracts=['toPlain', 'plainS'], ret='ndp',
         doc='`toPlain` / `plainS` re-read an exponentiated log-space table / number as plain ones (the identity for floats)'),
    # calculate_many_marginals: the attribute store of the first statement, then three consecutive parts of the body
    dict(py=MM, lean='manyCalibrate', two=True, pyargs=['self', 'projections'], store_value='marginals', prelude=PRELUDE_MM,
         params=[('cliques', 'cliques', 'self'), ('message_order', 'order', 'self'), ('potentials', 'cvec', 'self'), ('total', 'scalar', 'self')],
         contracts=['toPlain'], ret='pcvec',
         doc='the value stored by the first statement, `self.marginals = self.belief_propagation(self.potentials)`; `toPlain` re-reads the '
             'exponentiated log-space tables as plain ones (the identity for floats).  The definitions below take it as the parameter `marginals`'),
    dict(py=MM, lean='manyConditional', two=True, pyargs=['self', 'projections'], stored='marginals', segment=(None, 'pred'), result='conditional',
         params=[('marginals', 'pcvec', 'self'), ('sep_axes', 'sepdict', 'ghost'), ('neighbors', 'nbdict', 'self')], dicts={'conditional': 'pairdict'},
         contracts=[], ret='pairdict',
         doc='the statements after the store up to the double loop over `neighbors`: the dictionary `conditional`, keyed by `(Cj, Ci)`.  '
             '`sep[(Cj, Ci)]` is listed as `JT.inter Cj Ci`'),
    dict(py=MM, lean='manyResults', two=True, pyargs=['self', 'projections'], stored='marginals', segment=('pred', 'answers'), result='results',
         params=[('domain', 'dom', 'self'), ('cliques', 'cliques', 'self'), ('marginals', 'pcvec', 'self'), ('conditional', 'pairdict', 'local')],
         dicts={'results': 'pairdict'}, contracts=['pred', 'dist'], ret='attrdict',
         doc='from `pred, dist = …` to the re-keying comprehension: the dictionary `results` keyed by canonical attribute tuples.  '
             '`pred`, `dist`: `nx.floyd_warshall_predecessor_and_distance` on the junction tree'),
    dict(py=MM, lean='calculateManyMarginals', two=True, pyargs=['self', 'projections'], stored='marginals', segment=('answers', None),
         calls=['manyConditional', 'manyResults'],
         params=[('domain', 'dom', 'self'), ('cliques', 'cliques', 'self'), ('marginals', 'pcvec', 'self'), ('neighbors', 'nbdict', 'self'),
                 ('projections', 'attrslist', 'arg')], dicts={'answers': 'attrdict'},
         contracts=['pred', 'dist', 'fallback'], ret='attrdict',
         doc='the whole method after the store: the dictionary `answers` (insertion order; `projections` are tuples — a list is not '
             'hashable).  `fallback` is `self.project` of the same object (which then sees the stored marginals)'),
]
SKIPPED = ['__init__', 'save', 'load', 'fit', 'greedy_order']
OTHERS = ['belief_propagation', 'datavector', 'mle', 'variable_elimination_logspace', 'variable_elimination']     # tools/py2gm.py


class Gen:
    def __init__(self, srcs):
        self.srcs = srcs
        self.g = py2gm.Generator(srcs)              # the source-fact checks of py2gm; also fails on an unknown function
        self.gmg = {s['lean'] for s in py2gm.SPECS}
        self.g.run()                                 # the definitions of GraphicalModelG.lean this file calls must translate
        self.methods, self.funcs = self.g.methods, self.g.funcs
        self.out = []
        self.read_names = set()

    def need_field(self, field, node):
        init = self.methods.get('__init__') or fail(node, '__init__ not found')
        body = [ast.unparse(s) for s in init.body]
        want = {'elimination_order': 'self.elimination_order = tree.elimination_order'}.get(field)
        if want is not None:
            if want not in body:
                fail(node, f'__init__ no longer says `{want}`')
            return
        if field == 'neighbors':
            # self.neighbors = tree.neighbors() = {i: set(tree.neighbors(i)) for i in maximal_cliques()}: keys in `self.cliques` order,
            # the order inside each set unspecified
            if 'self.neighbors = tree.neighbors()' not in body or 'tree = JunctionTree(domain, cliques, elimination_order)' not in body:
                fail(node, '__init__ no longer says `self.neighbors = tree.neighbors()`')
            fn, b = self.g._body('junction_tree.py', 'JunctionTree', 'neighbors', node)
            if b != norm('return {i: set(self.tree.neighbors(i)) for i in self.maximal_cliques()}'):
                fail(fn, 'JunctionTree.neighbors is not `{i: set(self.tree.neighbors(i)) for i in self.maximal_cliques()}`', 'junction_tree.py')
            self.g.need_field('cliques', node)
            return
        if field in py2gm.INIT_FIELDS:
            self.g.need_field(field, node)

    def need_import(self, text, node):
        if text not in self.g.imports:
            fail(node, f'the module no longer says `{text}`')

    def need_junction_tree(self, node):
        """self.junction_tree.tree is the tree whose nodes are `self.cliques` and whose adjacency `self.neighbors` lists"""
        init = self.methods.get('__init__') or fail(node, '__init__ not found')
        body = [ast.unparse(s) for s in init.body]
        for want in ('tree = JunctionTree(domain, cliques, elimination_order)', 'self.junction_tree = tree'):
            if want not in body:
                fail(node, f'__init__ no longer says `{want}`')
        fn, b = self.g._body('junction_tree.py', 'JunctionTree', '__init__', node)
        if 'self.tree, self.order = self._make_tree(elimination_order)' not in b:
            fail(fn, 'JunctionTree.__init__ no longer says `self.tree, self.order = self._make_tree(elimination_order)`', 'junction_tree.py')
        fn, b = self.g._body('junction_tree.py', 'JunctionTree', 'maximal_cliques', node)
        if b != norm('return list(nx.dfs_preorder_nodes(self.tree))'):
            fail(fn, 'JunctionTree.maximal_cliques is not `list(nx.dfs_preorder_nodes(self.tree))`', 'junction_tree.py')

    def need_bp_default(self, node):
        fn = self.methods.get('belief_propagation') or fail(node, 'belief_propagation not found')
        ds = fn.args.defaults
        if [a.arg for a in fn.args.args] != ['self', 'potentials', 'logZ'] or len(ds) != 1 or not (isinstance(ds[0], ast.Constant) and ds[0].value is False):
            fail(fn, 'belief_propagation(self, potentials, logZ=False): signature or default changed')

    def need_domain_canonical(self, node):
        fn, body = self.g._body('domain.py', 'Domain', 'canonical', node)
        if [a.arg for a in fn.args.args] != ['self', 'attrs'] or body != norm('return tuple((a for a in self.attrs if a in attrs))'):
            fail(fn, 'Domain.canonical is not `tuple(a for a in self.attrs if a in attrs)`', 'domain.py')

    def need_factor_sum(self, node):
        """Factor.sum(attrs) reads `attrs` through Domain.axes / Domain.marginalize: np.sum over a set of axes, the remaining attributes in
        the factor's own order — neither depends on the order in which `attrs` is listed"""
        fn, body = self.g._body('factor.py', 'Factor', 'sum', node)
        if [a.arg for a in fn.args.args] != ['self', 'attrs'] or body != norm(
                'if attrs is None:\n    return np.sum(self.values)\naxes = self.domain.axes(attrs)\nvalues = np.sum(self.values, axis=axes)\n'
                'newdom = self.domain.marginalize(attrs)\nreturn Factor(newdom, values)'):
            fail(fn, 'Factor.sum changed', 'factor.py')

    def need_factor_binop(self, d, node):
        """`X * Y` / `X / Y` on two Factors are Factor.__mul__ / __truediv__ (their bodies are tied to Factor.mul / Factor.divF by
        tools/py2factor.py: C14F `gen_mul`, `gen_truediv`)"""
        fn, _ = self.g._body('factor.py', 'Factor', d, node)
        if [a.arg for a in fn.args.args] != ['self', 'other']:
            fail(fn, f'signature of Factor.{d} changed', 'factor.py')

    def need_gmg(self, name, node):
        if name not in self.gmg:
            fail(node, f'tools/py2gm.py no longer generates `{name}`')

    def need_module_func(self, name, argnames, node):
        fn = self.funcs.get(name) or fail(node, f'module function `{name}` not found')
        if [a.arg for a in fn.args.args] != argnames:
            fail(fn, f'signature of `{name}` changed')

    def need_method(self, name, argnames, node):
        fn = self.methods.get(name) or fail(node, f'method `{name}` not found')
        if [a.arg for a in fn.args.args] != argnames or fn.args.defaults:
            fail(fn, f'signature of `{name}` changed')

    def need_domain_init(self, node):
        fn, body = self.g._body('domain.py', 'Domain', '__init__', node)
        b = [s for s in body]
        if 'self.attrs = tuple(attrs)' not in b or 'self.shape = tuple(shape)' not in b or 'self.config = dict(zip(attrs, shape))' not in b:
            fail(fn, 'Domain.__init__ no longer stores `attrs`, `shape`, `config = dict(zip(attrs, shape))`', 'domain.py')

    def need_dataset_init(self, node):
        fn, _ = self.g._body('dataset.py', 'Dataset', '__init__', node)
        if [a.arg for a in fn.args.args] != ['self', 'df', 'domain', 'weights']:
            fail(fn, 'signature of Dataset.__init__ changed', 'dataset.py')

    def need_factor_init(self, node):
        fn, body = self.g._body('factor.py', 'Factor', '__init__', node)
        if [a.arg for a in fn.args.args] != ['self', 'domain', 'values'] or 'self.values = values.reshape(domain.shape)' not in body:
            fail(fn, 'Factor.__init__ is no longer `values.reshape(domain.shape)`', 'factor.py')

    def need_datavector(self, node):
        fn, body = self.g._body('factor.py', 'Factor', 'datavector', node)
        if body != norm('if flatten:\n    return self.values.flatten()\nreturn self.values'):
            fail(fn, 'Factor.datavector(flatten=False) is no longer `return self.values`', 'factor.py')

    def find(self, path):
        parts = path.split('/')
        fn = self.methods.get(parts[0]) or fail('module', f'{parts[0]} not found')
        for p in parts[1:]:
            fn = next((s for s in fn.body if isinstance(s, ast.FunctionDef) and s.name == p), None) or fail(fn, f'nested function {p} not found')
        return fn

    def one(self, spec):
        spec = dict(spec)
        fn = self.find(spec['py'])
        a = fn.args
        if [x.arg for x in a.args] != spec['pyargs'] or a.vararg or a.kwarg or a.kwonlyargs or a.posonlyargs or fn.decorator_list:
            fail(fn, f'signature changed: {[x.arg for x in a.args]}')
        names = spec['pyargs']
        ds = dict(zip(names[len(names) - len(a.defaults):], a.defaults))
        want = spec.get('defaults', {})
        if set(ds) != set(want) or any(not (isinstance(ds[k], ast.Constant) and ds[k].value == v) for k, v in want.items()):
            fail(fn, 'defaults changed')
        spec['fields'], spec['optional'], spec['flags'], spec['used_flags'] = {}, {}, set(), set()
        env = {}
        for p, t, kind in spec['params']:
            if kind in ('self', 'ghost'):
                spec['fields'][p] = (p, t)
            elif kind == 'opt':
                spec['fields'][p] = (p, t)
                spec['optional'][p] = t
            elif kind == 'flag':
                spec['flags'].add(p)
            else:
                env[p] = (p, t)
        if spec.get('rng'):
            env['#g'] = ('g', 'rng')
        body = [s for s in fn.body if not is_doc(s)]
        if 'fix_hasattr' in spec:
            # the variant in which `hasattr(self, …)` is False: the guarded statement is skipped
            body = [s for s in body if not (isinstance(s, ast.If) and ast.unparse(s.test).startswith('hasattr(self,'))]
        q = Q(self, spec, env)
        self.read_names = set()
        pre = None
        if spec.get('asserts_elsewhere'):
            asserts = [s for s in body if isinstance(s, ast.Assert)]
            if len(asserts) != 1 or body[0] is not asserts[0]:
                fail(fn, 'expected exactly one leading assert')
            pre = self.assert_term(asserts[0], q)
        line = fn.lineno
        if spec.get('store_value') or 'segment' in spec:
            # the method starts with the attribute store `self.<f> = E`: `store_value` translates E, a `segment` reads the parameter <f>
            f = spec.get('store_value') or spec['stored']
            st0 = body[0] if body else fail(fn, 'empty body')
            if not (isinstance(st0, ast.Assign) and len(st0.targets) == 1 and ast.unparse(st0.targets[0]) == f'self.{f}'):
                fail(st0, f'the first statement is no longer the store `self.{f} = …`')
            if any(isinstance(n, (ast.Assign, ast.AugAssign, ast.Delete)) and f'self.{f}' in
                   [ast.unparse(t) for t in (n.targets if not isinstance(n, ast.AugAssign) else [n.target])] for s_ in body[1:] for n in ast.walk(s_)):
                fail(fn, f'self.{f} is stored again')
        if spec.get('store_value'):
            t, ty = q.expr(body[0].value)
            term = q.ret(t, ty, body[0])
            line = body[0].lineno
        elif 'segment' in spec:
            rest = body[1:]
            frm, upto = spec['segment']

            def first(name):
                return next((i for i, s_ in enumerate(rest) if name in assigned([s_])), None) if name else None
            lo = 0 if frm is None else first(frm)
            hi = len(rest) if upto is None else first(upto)
            if lo is None or hi is None or lo >= hi:
                fail(fn, f'cannot find the statements between the first binding of `{frm}` and of `{upto}`')
            seg = rest[lo:hi]
            line = seg[0].lineno
            pre_lines = []
            for prev_name in spec.get('calls', ()):
                prev = next(s_ for s_ in SPECS if s_['lean'] == prev_name)
                args = [CONTRACTS[c][0] for c in prev['contracts']]
                for p_, t_, kind in prev['params']:
                    if kind == 'ghost':
                        continue
                    if kind == 'self':
                        if p_ not in spec['fields'] or spec['fields'][p_][1] != t_:
                            fail(fn, f'`{prev_name}` needs the field `{p_}`')
                        q.used_fields.add(p_)
                    elif q.env.get(p_, ('', ''))[1] != t_:
                        fail(fn, f'`{prev_name}` needs `{p_}`')
                    args.append(p_)
                for c in prev['contracts']:
                    q.contract(c, fn)
                pre_lines.append(f'let {prev["result"]} := {prev_name} {" ".join(args)}')
                q.env[prev['result']] = (prev['result'], prev['ret'])
            if upto is not None:
                if has_return(seg):
                    fail(fn, 'a return before the last segment of the body')
                res = spec['result']

                def tail():
                    if q.env.get(res, ('', ''))[1] != spec['ret'] or res in q.dead:
                        fail(seg[-1], f'`{res}` is not a {spec["ret"]} at the end of this part')
                    return res
                term = '\n'.join(pre_lines + [q.block(seg, tail)])
            else:
                term = '\n'.join(pre_lines + [q.block(seg, None)])
        elif spec.get('after'):
            last = body[-1]
            if not isinstance(last, ast.Return):
                fail(fn, 'the last statement is not a return')
            prev = next(s for s in SPECS if s['lean'] == spec['after'])
            cs = ' '.join(CONTRACTS[c][0] for c in prev['contracts'])
            ps = ' '.join(p for p, _, _ in prev['params'])
            q.env['df'] = ('df', 'df')
            for p, t, kind in prev['params']:
                if kind == 'self':
                    q.used_fields.add(p)
            q.used_contracts = list(prev['contracts'])
            term = f'let (df, g) := {spec["after"]} {cs} {ps} g\n' + q.block([last], None)
        elif spec.get('upto_return'):
            if not isinstance(body[-1], ast.Return):
                fail(fn, 'the last statement is not a return')
            term = q.block(body[:-1], lambda: '(df, g)')
            if q.env.get('df', ('', ''))[1] != 'df':
                fail(fn, 'no frame `df` at the end of the body')
        else:
            term = q.block(body, None)
        declared = {p for p, _, k in spec['params'] if k in ('self', 'opt', 'ghost')}
        if declared - q.used_fields:
            fail(fn, f'no longer reads self.{sorted(declared - q.used_fields)[0]}')
        if spec['flags'] - spec['used_flags']:
            fail(fn, f'no longer tests {sorted(spec["flags"] - spec["used_flags"])[0]}')
        if not spec.get('after'):
            for p_, _, kind in spec['params']:
                if kind in ('arg', 'closure', 'local') and p_ not in self.read_names:
                    fail(fn, f'no longer reads its argument `{p_}`')
        missing = [c for c in spec['contracts'] if c not in q.used_contracts]
        if missing:
            fail(fn, f'no longer uses the contract `{missing[0]}`')
        self.emit(spec, fn, term, pre, line)

    def assert_term(self, st, q):
        """assert all(M.shape[1] == n for M, n in zip(matrices, self.domain.shape))"""
        t = st.test
        ok = isinstance(t, ast.Call) and ast.unparse(t.func) == 'all' and len(t.args) == 1 and isinstance(t.args[0], ast.GeneratorExp)
        if ok:
            g = t.args[0]
            ok = len(g.generators) == 1 and not g.generators[0].ifs and ast.unparse(g.generators[0].target) == '(M, n)' \
                and ast.unparse(g.generators[0].iter) == 'zip(matrices, self.domain.shape)' and ast.unparse(g.elt) == 'M.shape[1] == n'
        if not ok:
            fail(st, 'only `assert all(M.shape[1] == n for M, n in zip(matrices, self.domain.shape))` is supported')
        q.used_fields.add('domain')
        return '(List.zip matrices (Dom.shape domain)).all (fun (M, n) => (NdArr.shape M).getD 1 0 == n)'

    def emit(self, spec, fn, term, pre, line=None):
        ps = []
        if spec.get('two'):
            ps.append('{β : Type} [Scalar β]')
        if spec.get('rng'):
            ps.append('{G : Type}')
        for c in spec['contracts']:
            ps.append(f'({CONTRACTS[c][0]} : {CONTRACTS[c][1]})')
        for p, t, kind in spec['params']:
            if kind == 'ghost':
                continue
            ty = LT[t]
            ps.append(f'({p} : Option ({ty}))' if kind == 'opt' else f'({p} : {ty})')
        if spec.get('rng'):
            ps.append('(g : G)')
        rty = LT[spec['ret']] + (' × G' if spec.get('rng') else '')
        where = f'`GraphicalModel.{spec["py"].replace("/", " / ")}` (graphical_model.py:{line or fn.lineno})'
        doc = where + (f' — {spec["doc"]}' if spec['doc'] else '')
        if pre is not None:
            pps = ' '.join(f'({p} : {LT[t]})' for p, t, _ in spec['params'] if p in ('domain', 'matrices'))
            self.out.append(f'/-- the assertion of {where} -/\ndef {spec["lean"]}Pre {"{β : Type} " if spec.get("two") else ""}{pps} : Bool :=\n  {pre}\n')
        self.out.append(f'/-- {doc} -/\ndef {spec["lean"]} {" ".join(ps)} : {rty} :=\n{ind(term, 2)}\n')

    def run(self):
        for name in list(self.methods) + list(self.funcs):
            if name not in SKIPPED and name not in OTHERS and name not in {s['py'].split('/')[0] for s in SPECS}:
                fail(self.methods.get(name) or self.funcs.get(name), 'a function this translator neither translates nor lists as skipped')
        for a, b in zip(SPECS, SPECS[1:]):
            if 'segment' in a and 'segment' in b and a['segment'][1] != b['segment'][0]:
                fail('module', 'the parts of a method must follow one another')
        for spec in SPECS:
            if spec.get('prelude'):
                self.out.append(spec['prelude'])
            self.one(spec)
        return self.out


HEADER = '''/- GENERATED by tools/py2gmq.py from src/mbi/graphical_model.py — do not edit
   Statement-level translation of the query and sampling paths: `GraphicalModel.project` (whole method: `project`; the path without
   cached marginals: `projectUncached`), `synthetic_data` (`syntheticCol` = the inner function, `syntheticFrame` = the body up to the
   final return, `syntheticData` = the value returned), `krondot` (+ its assertion `krondotPre`) and `calculate_many_marginals` (at the end
   of the file: `manyCalibrate` = the value the first statement stores in `self.marginals`; then, with that value as the parameter
   `marginals`, `manyConditional` = the double loop over `neighbors`, `manyResults` = the loop over the sorted clique pairs and the
   canonical re-keying, `calculateManyMarginals` = the whole method after the store, returning the dictionary `answers`).
   Calls of `variable_elimination_logspace`, `variable_elimination`, `belief_propagation(…, logZ=True)` are calls of the definitions
   generated by tools/py2gm.py (`GMG.*`).
   Contract parameters (their assumed behaviour is a hypothesis of the theorems of C02G / C11G):
     greedy_order   the module function `greedy_order` (iterates over sets, breaks ties of `min` by iteration order): a permutation of `elim`
     set_order      the order in which `tuple(<set>)` lists a set: a permutation
     groupby        `df.groupby(list(by))` iterated: the (key, row labels) pairs, keys sorted, labels ascending
     choice_replace / choice_noreplace / shuffle   `np.random.choice(n, size, True|False, p)` / `np.random.shuffle`; `g : G` is the
                    state of the generator, threaded through every draw in program order
     project        `self.project` as seen from `synthetic_data` (exact rationals); toPlain / plainS: the plain reading of log-space values
     pred, dist     `nx.floyd_warshall_predecessor_and_distance(self.junction_tree.tree, weight=False)`: `pred ci cj` = the node before `cj`
                    on the path from `ci`, `dist ci cj` = its number of edges (no edge has an attribute named `False`: every edge counts 1;
                    networkx returns the floats 1.0, 2.0, …, here `Nat`)
     fallback       `self.project` as seen from `calculate_many_marginals` (plain tables; the object then has the attribute `marginals`)
   Fields read as inputs by `calculate_many_marginals`: `neighbors` (`tree.neighbors()`: clique -> set of adjacent cliques, keys in
   `self.cliques` order, the order inside a set unspecified: a list); `sep_axes[(i, j)]` = `tuple(set(i) & set(j))` (junction_tree.py,
   checked) has no specified order: it is listed as `JT.inter i j` (the hand model's listing, the precedent of tools/py2gm.py) — it is only
   used as `Z / Z.project(S)`, which expands the divisor back onto `Z`'s domain.  `S = set(Cl) - set(Ci) - set(Cj)` is listed in `Cl`'s
   order; it is only passed to `Factor.sum`, which reads membership (factor.py, checked).  Dictionaries are association lists in
   insertion order; `d[k] = v` keeps the position of an existing key (`GM.dictSet`); a read of an absent key (KeyError) is the model's
   default `Factor.zeros []`.
   NOT translated: __init__ (its fields are inputs), save, load (pickle), fit, greedy_order. -/
import PGM.Generated.GraphicalModelG
import PGM.Generated.DatasetG
set_option linter.unusedVariables false
namespace PGM.GMQ
open PGM

/-! ## fixed prelude: the numpy / pandas contracts used by `synthetic_data` -/

/-- a pandas frame of ints with the default index `0 … n-1`: column labels and rows -/
structure DF where
  cols : List Attr
  rows : List (List Nat)

/-- `pd.DataFrame(np.zeros((total, len(cols)), dtype=int), columns=cols)` -/
def DF.zeros (total : Nat) (cols : List Attr) : DF := ⟨cols, List.replicate total (List.replicate cols.length 0)⟩

/-- `df.loc[index, col] = vals`: the row labelled `index[i]` receives `vals[i]` in column `col` (labels distinct; pandas raises on a
length mismatch) -/
def DF.setAt (df : DF) (index : List Nat) (col : Attr) (vals : List Nat) : DF :=
  ⟨df.cols, df.rows.zipIdx.map (fun (r, i) => if index.contains i then r.set (df.cols.idxOf col) (vals.getD (index.idxOf i) 0) else r)⟩

/-- `df.loc[:, col] = vals` / `df[col] = vals` for an existing column -/
def DF.setCol (df : DF) (col : Attr) (vals : List Nat) : DF := DF.setAt df (List.range df.rows.length) col vals

def DF.toTable (df : DF) : Dataset.Table := ⟨df.cols, df.rows.map (fun r => r.map Int.ofNat)⟩

namespace NpQ
def sum (l : List Rat) : Rat := l.foldl (· + ·) 0
/-- integral part, truncated toward zero -/
def trunc (x : Rat) : Int := if 0 ≤ x then x.floor else -((-x).floor)
/-- `np.modf`: (fractional parts, integral parts), both with the sign of the argument -/
def modf (l : List Rat) : List Rat × List Rat := (l.map (fun x => x - (trunc x : Rat)), l.map (fun x => (trunc x : Rat)))
def astypeInt (l : List Rat) : List Int := l.map trunc
/-- `A[idx]` for a tuple `idx` of ints indexing all axes but the last: the one-dimensional sub-array -/
def row (a : NdArr Rat) (idx : List Nat) : List Rat := (List.range (a.shape.getLastD 0)).map (fun v => a.get (idx ++ [v]))
end NpQ

namespace NpZ
def sum (l : List Int) : Int := l.foldl (· + ·) 0
/-- `a[idx] += 1` with an index array: every listed position is incremented once (numpy buffers the fancy-index update) -/
def incrAt (a : List Int) (idx : List Nat) : List Int := a.zipIdx.map (fun (x, i) => if idx.contains i then x + 1 else x)
/-- `np.repeat(vals, counts)` (negative counts raise) -/
def «repeat» (vals : List Nat) (counts : List Int) : List Nat := (List.zip vals counts).flatMap (fun (v, k) => List.replicate k.toNat v)
end NpZ

variable {α : Type} [Scalar α]

/-! ## the translated definitions -/

'''


def main():
    ap = argparse.ArgumentParser()
    ap.add_argument('--repo', default='/repo')
    ap.add_argument('--out', required=True)
    a = ap.parse_args()
    try:
        srcs = {}
        for f in ('graphical_model.py', 'factor.py', 'domain.py', 'junction_tree.py', 'clique_vector.py', 'dataset.py'):
            p = os.path.join(a.repo, 'src', 'mbi', f)
            if os.path.exists(p):
                srcs[f] = open(p).read()
        if 'graphical_model.py' not in srcs:
            raise OSError('src/mbi/graphical_model.py not found')
        defs = Gen(srcs).run()
    except Untranslatable as e:
        print('py2gmq: source outside the translatable subset:', e)
        return 1
    except (OSError, SyntaxError) as e:
        print('py2gmq: source outside the translatable subset:', f'cannot read/parse the source: {e}')
        return 1
    os.makedirs(a.out, exist_ok=True)
    with open(os.path.join(a.out, 'GraphicalModelQG.lean'), 'w') as f:
        f.write(HEADER + '\n'.join(defs) + '\nend PGM.GMQ\n')
    print(f'py2gmq: {len(defs)} definitions')
    return 0


if __name__ == '__main__':
    sys.exit(main())
