#!/usr/bin/env python3
"""tools/py2gmq.py --repo R --out DIR

Translates the QUERY and SAMPLING paths of `src/mbi/graphical_model.py` — `GraphicalModel.project`, `krondot`,
`synthetic_data` with its inner `synthetic_col` — STATEMENT BY STATEMENT into Lean definitions
(`PGM/Generated/GraphicalModelQG.lean`, namespace `PGM.GMQ`).  The inference core of the same file is translated by
`tools/py2gm.py` (imported here as a library: its source-fact checks are reused, and the generated file imports
`GraphicalModelG.lean`, so calls of `variable_elimination_logspace`, `variable_elimination`, `belief_propagation(…, logZ=True)`
are calls of the definitions generated there).  `PGM/Properties/C02G.lean` / `C11G.lean` identify the generated definitions
with `PGM/Model/GM.lean` / `PGM/Model/Synth*.lean`.

Typed statement translator; anything outside the subset below stops it (exit 1, message with file:line and the construct).

Statements
  x = E ; a, b = np.modf(E)             -> let …                          (re-binding shadows, as in Python)
  x *= E (float array by a float)       -> let x := x.map (· * E)         (only on an array no other live name reads: see `counts`)
  a[idx] += 1 (int array, index array)  -> NpZ.incrAt a idx               (numpy's buffered fancy-index increment: every listed
                                                                           position +1 ONCE, duplicates included)
  s.add(x)                              -> JT.union s [x]                 (a set as the list of its first occurrences)
  df.loc[:, c] = E ; df[c] = E          -> DF.setCol df c E               (pandas contract, fixed prelude)
  df.loc[I, c] = E                      -> DF.setAt df I c E
  if C: BODY [else: BODY']              -> let (names) := if C then … else …   names = the live names re-bound in a branch (and the
                                           random generator state when a branch draws); names first bound in a branch are dead after
  if type(x) is list: x = tuple(x)      -> as above with the flag parameter `x_is_list` (lists and tuples are both `List`)
  if hasattr(self, 'f'): BODY           -> match f with | some f => … | none => …   (`f` declared an optional field)
  if C: … return E … (may fall through) -> match (… : Option _) with | some r => r | none => REST ; the body may be lets followed by
                                           `for x in XS: if C': return E` (= `(XS.find? C').map E`: the first hit returns)
  if not isinstance(k, tuple): k = (k,) -> nothing: group keys are tuples (`List Nat`) in the group-by contract
  for x in XS / for a, b in zip(..)/groupby: BODY   -> XS.foldl (fun state x => …) state   state = live names re-bound in BODY (+ generator)
  np.random.shuffle(v)                  -> let (v, g) := shuffle g v       (contract parameter; `g` = generator state, threaded)
  assert E                              -> the separate definition `<name>Pre`
  def f(..) (nested)                    -> its own definition; free variables must be declared closure parameters
  return E
Expressions (by type)
  self.<field>, X[0], X[1:], X[::-1], len(X), X + [y], X + (y,), tuple(X), list(X), [x], {x}
  set(a) <= set(b) -> JT.subset; [cl for cl in XS if x in cl] -> filter; set.union(*XS) -> foldl JT.union [] ; s.intersection(t) -> JT.inter
  tuple(<set>) -> `set_order <set>`: the ORDER of a tuple made from a set is unspecified — contract parameter (a permutation)
  D.invert(a), D.attrs, D.shape, Domain(attrs, shape) -> List.zip ; '%s-answer' % a -> a ++ "-answer"
  greedy_order(D, cliques, elim) -> contract parameter (its result is a permutation of `elim`: hypothesis of the theorems)
  variable_elimination_logspace / variable_elimination / self.belief_propagation(p, logZ=True) -> GMG.veLogspace / GMG.variableElimination / GMG.logZ
  F.project(a) (default agg checked), F.exp(), F.transpose(a), F.datavector(flatten=False) -> F.vals (factor.py checked), Factor(d, Q) -> Factor.mk'
  self.project(a) inside synthetic_data -> the parameter `project` (a method of the same object; instantiated in C11G)
  A[idx] (basic indexing by a tuple of ints, all but the last axis) -> NpQ.row ; A * c / d, A / c, A.sum(), A.size, A.shape, A.astype(int)
  np.modf, np.arange, np.repeat, np.zeros((r, c), dtype=int) + pd.DataFrame(data, columns=cols) -> DF.zeros
  np.random.choice(n, size, True|False, p) -> choice_replace / choice_noreplace g n size p   (contract parameters, generator threaded)
  df.groupby(list(by)) -> groupby df by (contract parameter: the list of (key, index) pairs); group.index, group.shape[0], df.shape[0]
  int(x) (x ≥ 0: floor), A if C else B, x is None, ==, >, >=, not, in
Not translated (listed in the header of the output): __init__, save, load (pickle: contract), calculate_many_marginals, fit, greedy_order
(set iteration order and the tie-breaking of `min` are unspecified: its result enters as the contract parameter `greedy_order`).
"""
import argparse, ast, os, sys
sys.path.insert(0, os.path.dirname(os.path.abspath(__file__)))
import py2gm
from py2gm import Untranslatable, fail, norm, is_doc, ind

CL = 'JT.Clique'
LT = {'attr': 'Attr', 'attrs': 'List Attr', 'aset': 'List Attr', 'clique': CL, 'cliques': f'List {CL}', 'dom': 'Dom',
      'cvec': 'CliqueVec α', 'pcvec': 'CliqueVec β', 'factor': 'Factor α', 'pfactor': 'Factor β', 'scalar': 'α', 'pscalar': 'β',
      'factors': 'List (Factor α)', 'pfactors': 'List (Factor β)', 'bool': 'Bool', 'nat': 'Nat', 'int': 'Int', 'rat': 'Rat',
      'qfactor': 'Factor Rat', 'ndq': 'NdArr Rat', 'ql': 'List Rat', 'zl': 'List Int', 'nl': 'List Nat', 'df': 'DF', 'str': 'String',
      'optnat': 'Option Nat', 'groups': 'List (List Nat × List Nat)', 'key': 'List Nat', 'group': 'List Nat', 'order': f'List ({CL} × {CL})',
      'pyvalp': 'GMG.PyVal β', 'ndp': 'NdArr β', 'mats': 'List (NdArr β)', 'shape': 'List Nat', 'rng': 'G', 'dataset': 'Dataset Rat',
      'attrmats': 'List (Attr × NdArr β)'}
ELEM = {'cliques': 'clique', 'attrs': 'attr', 'groups': ('key', 'group'), 'attrmats': ('attr', 'ndp')}
LISTY = ('attrs', 'clique')         # tuples / lists of attribute names

# contract parameters: python callee -> (lean name, lean type)
CONTRACTS = {
    'greedy_order': ('greedy_order', f'Dom → List {CL} → List Attr → List Attr'),
    'set_order': ('set_order', 'List Attr → List Attr'),
    'groupby': ('groupby', 'DF → List Attr → List (List Nat × List Nat)'),
    'choice_replace': ('choice_replace', 'G → Nat → Nat → List Rat → List Nat × G'),
    'choice_noreplace': ('choice_noreplace', 'G → Nat → Nat → List Rat → List Nat × G'),
    'shuffle': ('shuffle', 'G → List Nat → List Nat × G'),
    'project': ('project', 'List Attr → Factor Rat'),
    'toPlain': ('toPlain', 'Factor α → Factor β'),
    'plainS': ('plainS', 'α → β'),
}
RNG_CONTRACTS = ('choice_replace', 'choice_noreplace', 'shuffle')


def base_name(t):
    while isinstance(t, (ast.Subscript, ast.Attribute)):
        t = t.value
    return t.id if isinstance(t, ast.Name) else None


def assigned(stmts):
    """names (re)bound by a block, in order of first binding"""
    out = []

    def add(x):
        if x is not None and x not in out:
            out.append(x)

    def tgt(t):
        if isinstance(t, (ast.Tuple, ast.List)):
            for e in t.elts:
                tgt(e)
        else:
            add(base_name(t))
    for st in stmts:
        for n in ast.walk(st):
            if isinstance(n, ast.Assign):
                for t in n.targets:
                    tgt(t)
            elif isinstance(n, ast.AugAssign):
                tgt(n.target)
            elif isinstance(n, ast.For):
                tgt(n.target)
            elif isinstance(n, ast.Call) and isinstance(n.func, ast.Attribute) and n.func.attr in ('add', 'append', 'update') \
                    and isinstance(n.func.value, ast.Name):
                add(n.func.value.id)
            elif isinstance(n, ast.Call) and ast.unparse(n.func) == 'np.random.shuffle' and n.args:
                add(base_name(n.args[0]))
    return out


def has_return(stmts):
    return any(isinstance(n, ast.Return) for st in stmts for n in ast.walk(st))


class Q:
    """translator of one function body"""

    def __init__(self, gen, spec, env):
        self.gen, self.spec = gen, spec
        self.env = dict(env)        # python name -> (lean term, type)
        self.dead = {}
        self.used_fields, self.used_contracts = set(), []
        self.tmp = 0

    def child(self):
        q = Q(self.gen, self.spec, self.env)
        q.dead = dict(self.dead)
        q.used_fields, q.used_contracts = self.used_fields, self.used_contracts
        return q

    # ------------------------------------------------------------------ helpers
    def contract(self, name, node):
        if name not in self.spec['contracts']:
            fail(node, f'needs the contract `{name}`, which this definition does not declare')
        if name not in self.used_contracts:
            self.used_contracts.append(name)
        return CONTRACTS[name][0]

    def is_effect(self, n):
        """a call that draws from the random generator"""
        if not isinstance(n, ast.Call):
            return False
        f = ast.unparse(n.func)
        return f in ('np.random.choice', 'np.random.shuffle') or f in self.spec.get('effect_funcs', {})

    def effects_in(self, stmts):
        return any(self.is_effect(n) for st in stmts for n in ast.walk(st))

    def typed(self, n, *tys):
        t, ty = self.expr(n)
        if ty not in tys:
            fail(n, f'expected {"/".join(tys)}, got {ty}')
        return t

    def attrlist(self, n):
        t, ty = self.expr(n)
        if ty not in ('attrs', 'clique'):
            fail(n, f'expected a tuple/list of attributes, got {ty}')
        return t

    def const(self, n):
        return isinstance(n, ast.Constant)

    # ------------------------------------------------------------------ expressions
    def expr(self, n):
        if isinstance(n, ast.Name):
            if n.id in self.dead:
                fail(n, f'read of a dead name ({self.dead[n.id]})')
            if n.id in self.env:
                self.gen.read_names.add(n.id)
                return self.env[n.id]
            fail(n, 'unknown name')
        if isinstance(n, ast.Constant):
            if type(n.value) is int:
                return str(n.value), 'nat'
            if type(n.value) is str:
                return '"' + n.value.replace('\\', '\\\\').replace('"', '\\"') + '"', 'str'
            fail(n, 'unsupported constant')
        if isinstance(n, ast.IfExp):
            t = n.test
            if isinstance(t, ast.Compare) and len(t.ops) == 1 and isinstance(t.ops[0], ast.Is) and isinstance(t.left, ast.Name) \
                    and isinstance(t.comparators[0], ast.Constant) and t.comparators[0].value is None and self.env.get(t.left.id, ('', ''))[1] == 'optnat':
                x = t.left.id
                a, ta = self.expr(n.body)
                q = self.child()
                q.env[x] = (x, 'nat')            # `x` is not None in the else branch
                b, tb = q.expr(n.orelse)
                if ta != tb:
                    fail(n, f'the branches of the conditional expression have different types ({ta} / {tb})')
                return f'(match {self.env[x][0]} with | none => {a} | some {x} => {b})', ta
            c = self.typed(n.test, 'bool')
            (a, ta), (b, tb) = self.expr(n.body), self.expr(n.orelse)
            if ta != tb:
                fail(n, f'the branches of the conditional expression have different types ({ta} / {tb})')
            return f'(if {c} then {a} else {b})', ta
        if isinstance(n, ast.Attribute):
            return self.attribute(n)
        if isinstance(n, ast.Subscript):
            return self.subscript(n)
        if isinstance(n, ast.Compare) and len(n.ops) == 1:
            return self.compare(n)
        if isinstance(n, ast.UnaryOp) and isinstance(n.op, ast.Not):
            return f'(!{self.typed(n.operand, "bool")})', 'bool'
        if isinstance(n, ast.BinOp):
            return self.binop(n)
        if isinstance(n, ast.Call):
            if self.is_effect(n):
                fail(n, 'a draw from the random generator in a position the translator does not hoist')
            return self.call(n)
        if isinstance(n, (ast.List, ast.Tuple)) and len(n.elts) >= 1:
            ts = [self.expr(e) for e in n.elts]
            if all(ty == 'attr' for _, ty in ts):
                return '[' + ', '.join(t for t, _ in ts) + ']', 'attrs'
            if all(ty in ('attrs', 'clique') for _, ty in ts) and isinstance(n, ast.List):
                return '[' + ', '.join(t for t, _ in ts) + ']', 'cliques'
            fail(n, 'unsupported list/tuple display')
        if isinstance(n, ast.Set) and len(n.elts) == 1:
            return f'[{self.typed(n.elts[0], "attr")}]', 'aset'
        if isinstance(n, ast.ListComp):
            return self.listcomp(n)
        fail(n, 'unsupported expression')

    def attribute(self, n):
        if isinstance(n.value, ast.Name) and n.value.id == 'self':
            f = self.spec['fields'].get(n.attr)
            if f is None:
                fail(n, 'field of self that this definition does not declare')
            if n.attr in self.spec.get('optional', {}) and n.attr not in self.env.get('#open', ((), ''))[0]:
                fail(n, f'self.{n.attr} read outside `if hasattr(self, {n.attr!r})`')
            self.gen.need_field(n.attr, n)
            self.used_fields.add(n.attr)
            return f
        base, tb = self.expr(n.value)
        a = n.attr
        if tb == 'dom' and a == 'attrs':
            self.gen.need_domain_init(n)
            return f'(Dom.attrs {base})', 'attrs'
        if tb == 'dom' and a == 'shape':
            self.gen.need_domain_init(n)
            return f'(Dom.shape {base})', 'shape'
        if tb in ('ql', 'zl') and a == 'size':
            return f'{base}.length', 'nat'
        if tb == 'ndp' and a == 'shape':
            return f'(NdArr.shape {base})', 'shape'
        if tb == 'group' and a == 'index':
            return base, 'nl'                   # the row labels of a group: the second component of the group-by contract
        fail(n, f'unknown attribute `{a}` of {tb}')

    def subscript(self, n):
        s = n.slice
        # df.shape[0], group.shape[0]
        if isinstance(n.value, ast.Attribute) and n.value.attr == 'shape' and isinstance(s, ast.Constant) and s.value == 0:
            base, tb = self.expr(n.value.value)
            if tb == 'df':
                return f'{base}.rows.length', 'nat'
            if tb == 'group':
                return f'{base}.length', 'nat'
        base, tb = self.expr(n.value)
        if isinstance(s, ast.Slice):
            lo, hi, stp = s.lower, s.upper, s.step
            if tb in ('attrs',) and lo is None and hi is None and isinstance(stp, ast.UnaryOp) and isinstance(stp.op, ast.USub) \
                    and isinstance(stp.operand, ast.Constant) and stp.operand.value == 1:
                return f'{base}.reverse', tb
            if tb in ('attrs',) and isinstance(lo, ast.Constant) and type(lo.value) is int and lo.value >= 0 and hi is None and stp is None:
                return f'({base}.drop {lo.value})', tb
            fail(n, 'unsupported slice')
        if tb == 'attrs' and isinstance(s, ast.Constant) and type(s.value) is int and s.value >= 0:
            return f'({base}.getD {s.value} "")', 'attr'          # IndexError in Python when absent
        if tb == 'cvec' or tb == 'pcvec':
            k = self.attrlist(s)
            return f'(CliqueVec.get {base} {k})', {'cvec': 'factor', 'pcvec': 'pfactor'}[tb]
        if tb == 'ndq':
            k = self.typed(s, 'key')
            return f'(NpQ.row {base} {k})', 'ql'
        if tb == 'pfactors' and isinstance(s, ast.Constant) and s.value == 0:
            return f'({base}.headD (Factor.zeros []))', 'pfactor'
        fail(n, f'unsupported subscript of {tb}')

    def compare(self, n):
        op, l, r = n.ops[0], n.left, n.comparators[0]
        if isinstance(op, ast.Is):
            # type(x) is list
            if isinstance(l, ast.Call) and isinstance(l.func, ast.Name) and l.func.id == 'type' and len(l.args) == 1 \
                    and isinstance(l.args[0], ast.Name) and isinstance(r, ast.Name) and r.id == 'list':
                x = l.args[0].id
                self.typed(l.args[0], 'attrs')
                flag = f'{x}_is_list'
                if flag not in self.spec['flags']:
                    fail(n, f'needs the flag parameter `{flag}`')
                self.spec['used_flags'].add(flag)
                return flag, 'bool'
            if isinstance(r, ast.Constant) and r.value is None:
                t, ty = self.expr(l)
                if ty == 'optnat':
                    return f'{t}.isNone', 'bool'
            fail(n, 'unsupported `is` test')
        if isinstance(op, ast.LtE) and all(isinstance(x, ast.Call) and isinstance(x.func, ast.Name) and x.func.id == 'set'
                                           and len(x.args) == 1 and not x.keywords for x in (l, r)):
            return f'(JT.subset {self.attrlist(l.args[0])} {self.attrlist(r.args[0])})', 'bool'
        (a, ta), (b, tb) = self.expr(l), self.expr(r)
        if isinstance(op, ast.In) and ta == 'attr' and tb in ('aset', 'clique', 'attrs'):
            return f'({b}.contains {a})', 'bool'
        if isinstance(op, ast.Eq) and ta == tb == 'str':
            return f'({a} == {b})', 'bool'
        if isinstance(op, ast.Eq) and ta == tb == 'nat':
            return f'({a} == {b})', 'bool'
        num = {('int', 'nat'): lambda x, y: (x, f'({y} : Int)'), ('nat', 'nat'): lambda x, y: (x, y), ('int', 'int'): lambda x, y: (x, y)}
        if (ta, tb) in num and isinstance(op, (ast.Gt, ast.GtE)):
            x, y = num[(ta, tb)](a, b)
            return f'(decide ({x} {">" if isinstance(op, ast.Gt) else "≥"} {y}))', 'bool'
        fail(n, f'unsupported comparison of {ta} and {tb}')

    def binop(self, n):
        op = n.op
        if isinstance(op, ast.Mod) and isinstance(n.left, ast.Constant) and isinstance(n.left.value, str):
            fmt = n.left.value
            if fmt.count('%') != 1 or not fmt.startswith('%s'):
                fail(n, 'only the format "%s<suffix>" is supported')
            a = self.typed(n.right, 'attr')
            return f'({a} ++ "{fmt[2:]}")', 'attr'
        (a, ta), (b, tb) = self.expr(n.left), self.expr(n.right)
        if isinstance(op, ast.Add):
            if ta == 'cliques' and tb == 'cliques':
                return f'({a} ++ {b})', 'cliques'
            if ta in LISTY and tb in LISTY:
                return f'({a} ++ {b})', 'attrs'
        if isinstance(op, ast.Sub) and ta == 'nat' and tb == 'int':
            return f'(({a} : Int) - {b})', 'int'
        if isinstance(op, ast.Sub) and ta == 'nat' and tb == 'nat':
            return f'(({a} : Int) - ({b} : Int))', 'int'
        if isinstance(op, ast.Div):
            if ta == 'nat' and tb == 'rat':
                return f'(({a} : Rat) / {b})', 'rat'
            if ta == 'ql' and tb == 'rat':
                return f'({a}.map (fun v => v / {b}))', 'ql'
            if ta == 'ndp' and tb == 'pscalar':
                return f'(NdArr.map (fun v => Scalar.div v {b}) {a})', 'ndp'
        if isinstance(op, ast.Mult):
            if ta == 'ndp' and tb == 'pscalar':
                return f'(NdArr.map (fun v => Scalar.mul v {b}) {a})', 'ndp'
        fail(n, f'unsupported operator on {ta} and {tb}')

    def listcomp(self, n):
        if len(n.generators) != 1 or not isinstance(n.generators[0].target, ast.Name):
            fail(n, 'unsupported comprehension')
        g = n.generators[0]
        xs, tx = self.expr(g.iter)
        if tx not in ('cliques', 'attrs'):
            fail(n, f'comprehension over {tx}')
        v = g.target.id
        q = self.child()
        q.env[v] = (v, ELEM[tx])
        q.dead.pop(v, None)
        out = xs
        if g.ifs:
            if len(g.ifs) != 1:
                fail(n, 'unsupported comprehension')
            out = f'({out}.filter (fun {v} => {q.typed(g.ifs[0], "bool")}))'
        if isinstance(n.elt, ast.Name) and n.elt.id == v:
            return out, tx
        et, ety = q.expr(n.elt)
        res = {'clique': 'cliques', 'attr': 'attrs', 'pfactor': 'pfactors', 'aset': 'cliques'}.get(ety) or fail(n, f'list of {ety}')
        if ety == 'aset' and ast.unparse(n.elt) == f'set({v})':
            return out, 'cliques'            # [set(cl) for cl in XS]: the same tuples, read as sets
        return f'({out}.map (fun {v} => {et}))', res

    def call(self, n):
        f, args, kws = n.func, n.args, {k.arg: k.value for k in n.keywords}
        fn = ast.unparse(f)
        if isinstance(f, ast.Name):
            if fn in ('tuple', 'list') and len(args) == 1 and not kws:
                t, ty = self.expr(args[0])
                if ty in ('attrs', 'clique'):
                    return t, 'attrs'
                if ty == 'aset' and fn == 'tuple':
                    return f'({self.contract("set_order", n)} {t})', 'attrs'
                if ty == 'factors' and fn == 'list':
                    return t, ty
                fail(n, f'{fn} of {ty}')
            if fn == 'set' and len(args) == 1 and not kws:
                return self.attrlist(args[0]), 'aset'
            if fn == 'len' and len(args) == 1 and not kws:
                t, ty = self.expr(args[0])
                if ty in ('attrs', 'clique', 'cliques', 'nl'):
                    return f'{t}.length', 'nat'
                fail(n, f'len of {ty}')
            if fn == 'int' and len(args) == 1 and not kws:
                return f'(Rat.floor {self.typed(args[0], "rat")}).toNat', 'nat'
            if fn == 'zip' and len(args) == 2 and not kws:
                (a, ta), (b, tb) = self.expr(args[0]), self.expr(args[1])
                if ta == 'attrs' and tb == 'mats':
                    return f'(List.zip {a} {b})', 'attrmats'
                fail(n, f'zip of {ta} and {tb}')
            if fn == 'greedy_order' and len(args) == 3 and not kws:
                self.gen.need_module_func('greedy_order', ['domain', 'cliques', 'elim'], n)
                d, c, e = self.typed(args[0], 'dom'), self.typed(args[1], 'cliques'), self.typed(args[2], 'attrs')
                return f'({self.contract("greedy_order", n)} {d} {c} {e})', 'attrs'
            if fn == 'variable_elimination_logspace' and len(args) == 3 and not kws:
                self.gen.need_gmg('veLogspace', n)
                return f'(GMG.veLogspace {self.typed(args[0], "factors")} {self.typed(args[1], "attrs")} {self.typed(args[2], "scalar")})', 'factor'
            if fn == 'variable_elimination' and len(args) == 2 and not kws:
                self.gen.need_gmg('variableElimination', n)
                return f'(GMG.variableElimination {self.typed(args[0], "pfactors")} {self.typed(args[1], "attrs")})', 'pyvalp'
            if fn == 'Domain' and len(args) == 2 and not kws:
                self.gen.need_domain_init(n)
                return f'(List.zip {self.typed(args[0], "attrs")} {self.typed(args[1], "shape")})', 'dom'
            if fn == 'Dataset' and len(args) == 2 and not kws:
                self.gen.need_dataset_init(n)
                return f'(DsG.init (DF.toTable {self.typed(args[0], "df")}) {self.typed(args[1], "dom")} none)', 'dataset'
            if fn in self.env and self.env[fn][1] == 'factorclass' and len(args) == 2 and not kws:
                self.gen.need_factor_init(n)
                return f'(Factor.mk\' {self.typed(args[0], "dom")} {self.typed(args[1], "ndp")})', 'pfactor'
            if fn == 'type' and len(args) == 1 and not kws:
                t, ty = self.expr(args[0])
                if ty == 'pfactor':
                    return 'Factor', 'factorclass'
            fail(n, 'unsupported function')
        if fn == 'np.exp' and len(args) == 1 and not kws:
            return f'({self.contract("plainS", n)} (Scalar.exp {self.typed(args[0], "scalar")}))', 'pscalar'
        if fn == 'np.modf' and len(args) == 1 and not kws:
            a = self.typed(args[0], 'ql')
            return f'(NpQ.modf {a})', 'ql×ql'
        if fn == 'np.arange' and len(args) == 1 and not kws:
            return f'(List.range {self.typed(args[0], "nat")})', 'nl'
        if fn == 'np.repeat' and len(args) == 2 and not kws:
            return f'(NpZ.repeat {self.typed(args[0], "nl")} {self.typed(args[1], "zl")})', 'nl'
        if fn == 'pd.DataFrame' and len(args) == 1 and set(kws) == {'columns'}:
            z = args[0]
            if isinstance(z, ast.Name) and z.id in self.env and self.env[z.id][1].startswith('zeros:'):
                cols = self.typed(kws['columns'], 'attrs')
                _, r, c = self.env[z.id][1].split(':', 2)
                if c != f'{cols}.length':
                    fail(n, 'the zero matrix does not have one column per label')
                return f'(DF.zeros {r} {cols})', 'df'
            fail(n, 'only pd.DataFrame(<zero int matrix>, columns=cols) is supported')
        if fn == 'np.zeros' and len(args) == 1 and set(kws) == {'dtype'} and ast.unparse(kws['dtype']) == 'int' \
                and isinstance(args[0], ast.Tuple) and len(args[0].elts) == 2:
            r, c = self.typed(args[0].elts[0], 'nat'), self.typed(args[0].elts[1], 'nat')
            return '#zeros', f'zeros:{r}:{c}'
        if fn == 'set.union' and len(args) == 1 and isinstance(args[0], ast.Starred) and not kws:
            xs = self.typed(args[0].value, 'cliques')
            return f'({xs}.foldl JT.union [])', 'aset'        # TypeError in Python when the list is empty
        if isinstance(f, ast.Attribute):
            m = f.attr
            if isinstance(f.value, ast.Name) and f.value.id == 'self':
                if m == 'project' and len(args) == 1 and not kws and 'project' in self.spec['contracts']:
                    self.gen.need_method('project', ['self', 'attrs'], n)
                    return f'({self.contract("project", n)} {self.attrlist(args[0])})', 'qfactor'
                if m == 'belief_propagation' and len(args) == 1 and set(kws) == {'logZ'} and self.const(kws['logZ']) and kws['logZ'].value is True:
                    self.gen.need_gmg('logZ', n)
                    for fld in ('cliques', 'message_order'):
                        self.used_fields.add(fld)
                        if fld not in self.spec['fields']:
                            fail(n, f'needs the field `{fld}`')
                    return f'(GMG.logZ cliques message_order {self.typed(args[0], "cvec")})', 'scalar'
                fail(n, 'unsupported method of self')
            base, tb = self.expr(f.value)
            if tb == 'dom' and m == 'invert' and len(args) == 1 and not kws:
                self.gen.g.need_domain_contains(n)
                return f'(Dom.invert {base} {self.attrlist(args[0])})', 'attrs'
            if tb == 'cvec' and m == 'values' and not args and not kws:
                return f'({base}.map Prod.snd)', 'factors'
            if tb in ('factor', 'pfactor') and m == 'project' and len(args) == 1 and not kws:
                self.gen.g.need_default('project', 'agg', 'sum', n)
                return f'(Factor.projectSum {base} {self.attrlist(args[0])})', tb
            if tb == 'factor' and m == 'exp' and not args and not kws:
                self.gen.g.need_factor_method('exp', n)
                return f'({self.contract("toPlain", n)} (Factor.exp {base}))', 'pfactor'
            if tb == 'pyvalp' and m == 'transpose' and len(args) == 1 and not kws:
                self.gen.g.need_factor_method('transpose', n)
                return f'(Factor.transpose (GMG.PyVal.asFactor {base}) {self.typed(args[0], "attrs")})', 'pfactor'
            if tb in ('qfactor', 'pfactor') and m == 'datavector' and not args and set(kws) == {'flatten'} and self.const(kws['flatten']) \
                    and kws['flatten'].value is False:
                self.gen.need_datavector(n)
                return f'(Factor.vals {base})', {'qfactor': 'ndq', 'pfactor': 'ndp'}[tb]
            if tb == 'ql' and m == 'sum' and not args and not kws:
                return f'(NpQ.sum {base})', 'rat'
            if tb == 'zl' and m == 'sum' and not args and not kws:
                return f'(NpZ.sum {base})', 'int'
            if tb == 'ql' and m == 'astype' and len(args) == 1 and not kws and ast.unparse(args[0]) == 'int':
                return f'(NpQ.astypeInt {base})', 'zl'
            if tb == 'aset' and m == 'intersection' and len(args) == 1 and not kws:
                return f'(JT.inter {base} {self.typed(args[0], "aset")})', 'aset'
            if tb == 'df' and m == 'groupby' and len(args) == 1 and not kws:
                return f'({self.contract("groupby", n)} {base} {self.attrlist(args[0])})', 'groups'
            fail(n, f'unsupported method `{m}` of {tb}')
        fail(n, 'unsupported call')

    # ------------------------------------------------------------------ effects (draws from the generator)
    def effect(self, n):
        """-> (lean term of type (T × G), T)"""
        fn = ast.unparse(n.func)
        args, kws = n.args, n.keywords
        g = self.env['#g'][0]
        if fn == 'np.random.choice' and len(args) == 4 and not kws:
            if not (self.const(args[2]) and type(args[2].value) is bool):
                fail(n, 'np.random.choice: `replace` must be the literal True or False')
            c = self.contract('choice_replace' if args[2].value else 'choice_noreplace', n)
            size = self.expr(args[1])
            st = size[0] if size[1] == 'nat' else f'{size[0]}.toNat' if size[1] == 'int' else fail(n, f'size of type {size[1]}')
            return f'{c} {g} {self.typed(args[0], "nat")} {st} {self.typed(args[3], "ql")}', 'nl'
        if fn in self.spec.get('effect_funcs', {}):
            lean, argtys, closure = self.spec['effect_funcs'][fn]
            if len(args) != len(argtys) or kws:
                fail(n, f'call of {fn} with an unexpected number of arguments')
            ts = []
            for a, ty in zip(args, argtys):
                t, got = self.expr(a)
                if ty == 'ql' and got == 'ndq':
                    t, got = f'(NpQ.row {t} [])', 'ql'       # a one-dimensional array passed whole: `A[()]`
                if got != ty:
                    fail(a, f'expected {ty}, got {got}')
                ts.append(t)
            cl = [self.typed(ast.Name(id=c, ctx=ast.Load()), ty) for c, ty in closure]
            cs = [CONTRACTS[c][0] for c in RNG_CONTRACTS]
            for c in RNG_CONTRACTS:
                self.contract(c, n)
            return f'{lean} {" ".join(cs)} {" ".join(cl)} {" ".join(ts)} {g}', 'nl'
        fail(n, 'unsupported draw')

    def hoist(self, value, lines):
        """if `value` is a draw: emit `let (r, g) := …` and return the name holding its result"""
        if self.is_effect(value):
            if '#g' not in self.env:
                fail(value, 'a draw from the random generator in a definition without generator state')
            t, ty = self.effect(value)
            self.tmp += 1
            r = f'r{self.tmp}'
            lines.append(f'let ({r}, g) := {t}')
            return r, ty
        return self.expr(value)

    # ------------------------------------------------------------------ statements
    def bind(self, name, term, ty, lines, st):
        if ty.startswith('zeros:'):
            self.env[name] = (term, ty)
            self.dead.pop(name, None)
            return
        if ty == 'factorclass':
            self.env[name] = (term, ty)
            return
        if ty not in LT:
            fail(st, f'cannot bind a value of type {ty}')
        lines.append(f'let {name} := {term}')
        self.env[name] = (name, ty)
        self.dead.pop(name, None)

    def state_names(self, stmts, extra_live=()):
        names = [x for x in assigned(stmts) if x in self.env and x not in self.dead and self.env[x][1] in LT]
        if self.effects_in(stmts):
            names.append('#g')
        return names

    def tup(self, names):
        ns = ['g' if x == '#g' else x for x in names]
        return ns[0] if len(ns) == 1 else '(' + ', '.join(ns) + ')'

    def tup_ty(self, names):
        tys = [LT[self.env[x][1]] for x in names]
        return tys[0] if len(tys) == 1 else ' × '.join(tys)

    def kill_new(self, stmts, before, why):
        for x in assigned(stmts):
            if x not in before:
                self.dead[x] = why
                self.env.pop(x, None)

    def block(self, stmts, tail):
        """-> lean term (multi-line).  `tail`: None = the block must return; else a function () -> term used at fall-through"""
        lines = []
        stmts = [s for s in stmts if not is_doc(s)]
        for i, st in enumerate(stmts):
            rest = stmts[i + 1:]
            if isinstance(st, ast.Return):
                if st.value is None:
                    fail(st, 'return without a value')
                t, ty = self.hoist(st.value, lines)
                return '\n'.join(lines + [self.ret(t, ty, st)])
            if isinstance(st, ast.If) and has_return(st.body + st.orelse):
                return '\n'.join(lines + [self.if_return(st, rest, tail)])
            self.stmt(st, lines)
        if tail is None:
            fail(stmts[-1] if stmts else 'block', 'no return value on this path')
        return '\n'.join(lines + [tail()])

    def ret(self, t, ty, st):
        want = self.spec['ret']
        if ty == 'factor' and want == 'pfactor':
            t, ty = f'({self.contract("toPlain", st)} {t})', 'pfactor'
        if ty != want:
            fail(st, f'returns {ty}, expected {want}')
        if '#g' in self.env:
            return f'({t}, g)'
        return t

    def if_return(self, st, rest, tail):
        body = [s for s in st.body if not is_doc(s)]
        always = isinstance(body[-1], ast.Return) and not has_return(body[:-1])
        hasattr_f = self.hasattr_field(st.test)
        if always and hasattr_f is None:
            c = self.typed(st.test, 'bool')
            a = self.child().block(body, None)
            if st.orelse:
                b = self.child().block(st.orelse + rest, tail)
            else:
                b = self.child().block(rest, tail) if (rest or tail) else fail(st, 'no return value on this path')
            return f'if {c} then\n{ind(a, 2)}\nelse\n{b}'
        if st.orelse:
            fail(st, 'a conditional return that may fall through cannot have an else branch')
        q = self.child()
        if hasattr_f is not None:
            opened = q.env.get('#open', ((), ''))[0] + (hasattr_f,)
            q.env['#open'] = (opened, '')
            o = q.optblock(body)
            opt = f'match {hasattr_f} with\n| some {hasattr_f} =>\n{ind(o, 2)}\n| none => none'
        else:
            c = self.typed(st.test, 'bool')
            opt = f'if {c} then\n{ind(q.optblock(body), 2)}\nelse none'
        b = self.child().block(rest, tail)
        return f'match ({opt}) with\n| some r => r\n| none =>\n{b}'

    def hasattr_field(self, test):
        if isinstance(test, ast.Call) and isinstance(test.func, ast.Name) and test.func.id == 'hasattr' and len(test.args) == 2 \
                and ast.unparse(test.args[0]) == 'self' and isinstance(test.args[1], ast.Constant) and isinstance(test.args[1].value, str):
            f = test.args[1].value
            if f not in self.spec.get('optional', {}):
                fail(test, f'`{f}` is not declared an optional field')
            self.used_fields.add(f)
            return f
        return None

    def optblock(self, stmts):
        """a block that returns or falls through, as a term of type Option _"""
        lines = []
        stmts = [s for s in stmts if not is_doc(s)]
        for i, st in enumerate(stmts):
            last = i == len(stmts) - 1
            if isinstance(st, ast.For) and last:
                b = [s for s in st.body if not is_doc(s)]
                if not (len(b) == 1 and isinstance(b[0], ast.If) and not b[0].orelse and len(b[0].body) == 1
                        and isinstance(b[0].body[0], ast.Return) and b[0].body[0].value is not None and isinstance(st.target, ast.Name) and not st.orelse):
                    fail(st, 'a loop containing `return` must be `for x in XS: if C: return E`')
                xs, tx = self.expr(st.iter)
                if tx not in ('cliques', 'attrs'):
                    fail(st, f'loop over {tx}')
                v = st.target.id
                q = self.child()
                q.env[v] = (v, ELEM[tx])
                c = q.typed(b[0].test, 'bool')
                t, ty = q.expr(b[0].body[0].value)
                t = q.ret(t, ty, b[0].body[0])
                return '\n'.join(lines + [f'({xs}.find? (fun {v} => {c})).map (fun {v} => {t})'])
            if isinstance(st, ast.If) and last and not st.orelse and len(st.body) == 1 and isinstance(st.body[0], ast.Return):
                c = self.typed(st.test, 'bool')
                t, ty = self.expr(st.body[0].value)
                return '\n'.join(lines + [f'if {c} then some {self.ret(t, ty, st)} else none'])
            if has_return([st]):
                fail(st, 'unsupported position of `return`')
            self.stmt(st, lines)
        return '\n'.join(lines + ['none'])

    def stmt(self, st, lines):
        if isinstance(st, ast.Assign) and len(st.targets) == 1:
            return self.assign(st.targets[0], st.value, st, lines)
        if isinstance(st, ast.AugAssign):
            return self.augassign(st, lines)
        if isinstance(st, ast.Expr) and isinstance(st.value, ast.Call):
            c = st.value
            fn = ast.unparse(c.func)
            if fn == 'np.random.shuffle' and len(c.args) == 1 and isinstance(c.args[0], ast.Name) and not c.keywords:
                if '#g' not in self.env:
                    fail(st, 'a draw from the random generator in a definition without generator state')
                x = c.args[0].id
                v = self.typed(c.args[0], 'nl')
                lines.append(f'let ({x}, g) := {self.contract("shuffle", st)} {self.env["#g"][0]} {v}')
                self.env[x] = (x, 'nl')
                return
            if isinstance(c.func, ast.Attribute) and c.func.attr == 'add' and isinstance(c.func.value, ast.Name) and len(c.args) == 1 and not c.keywords:
                s = c.func.value.id
                cur = self.typed(c.func.value, 'aset')
                return self.bind(s, f'(JT.union {cur} [{self.typed(c.args[0], "attr")}])', 'aset', lines, st)
            if isinstance(c.func, ast.Attribute) and c.func.attr == 'append' and isinstance(c.func.value, ast.Name) and len(c.args) == 1 and not c.keywords:
                s = c.func.value.id
                cur, ty = self.expr(c.func.value)
                if ty == 'pfactors':
                    return self.bind(s, f'({cur} ++ [{self.typed(c.args[0], "pfactor")}])', ty, lines, st)
            fail(st, 'unsupported expression statement')
        if isinstance(st, ast.If):
            return self.if_(st, lines)
        if isinstance(st, ast.For):
            return self.for_(st, lines)
        if isinstance(st, ast.FunctionDef):
            if st.name not in self.spec.get('effect_funcs', {}) and st.name not in self.spec.get('nested', ()):
                fail(st, 'a nested function this definition does not declare')
            return
        if isinstance(st, ast.Assert):
            if not self.spec.get('asserts_elsewhere'):
                fail(st, 'assert')
            return
        fail(st, 'unsupported statement')

    def assign(self, tg, v, st, lines):
        if isinstance(tg, ast.Name):
            t, ty = self.hoist(v, lines)
            return self.bind(tg.id, t, ty, lines, st)
        if isinstance(tg, ast.Tuple) and len(tg.elts) == 2 and all(isinstance(e, ast.Name) for e in tg.elts):
            t, ty = self.expr(v)
            if ty == 'ql×ql':
                a, b = (e.id for e in tg.elts)
                lines.append(f'let ({a}, {b}) := {t}')
                self.env[a], self.env[b] = (a, 'ql'), (b, 'ql')
                return
            fail(st, f'unpacking of {ty}')
        if isinstance(tg, ast.Subscript):
            b = tg.value
            # df[col] = E
            if isinstance(b, ast.Name) and self.env.get(b.id, ('', ''))[1] == 'df':
                col = self.typed(tg.slice, 'attr')
                t, ty = self.hoist(v, lines)
                if ty != 'nl':
                    fail(st, f'stores a {ty} in a column')
                return self.bind(b.id, f'(DF.setCol {self.env[b.id][0]} {col} {t})', 'df', lines, st)
            # df.loc[I, col] = E
            if isinstance(b, ast.Attribute) and b.attr == 'loc' and isinstance(b.value, ast.Name) and self.env.get(b.value.id, ('', ''))[1] == 'df' \
                    and isinstance(tg.slice, ast.Tuple) and len(tg.slice.elts) == 2:
                d = b.value.id
                rows, col = tg.slice.elts
                colt = self.typed(col, 'attr')
                t, ty = self.hoist(v, lines)
                if ty != 'nl':
                    fail(st, f'stores a {ty} in a column')
                if isinstance(rows, ast.Slice) and rows.lower is None and rows.upper is None and rows.step is None:
                    return self.bind(d, f'(DF.setCol {self.env[d][0]} {colt} {t})', 'df', lines, st)
                return self.bind(d, f'(DF.setAt {self.env[d][0]} {self.typed(rows, "nl")} {colt} {t})', 'df', lines, st)
        fail(st, 'unsupported assignment')

    def augassign(self, st, lines):
        tg = st.target
        if isinstance(tg, ast.Name) and isinstance(st.op, ast.Mult):
            cur = self.typed(tg, 'ql')
            c = self.typed(st.value, 'rat')
            # in place on the caller's array: accepted for a parameter declared `inplace_ok` (the caller never reads it again)
            if tg.id not in self.spec.get('inplace_ok', ()):
                fail(st, f'in-place update of `{tg.id}`, which may be read again through another name')
            return self.bind(tg.id, f'({cur}.map (fun v => v * {c}))', 'ql', lines, st)
        if isinstance(tg, ast.Subscript) and isinstance(tg.value, ast.Name) and isinstance(st.op, ast.Add) \
                and isinstance(st.value, ast.Constant) and st.value.value == 1:
            a = self.typed(tg.value, 'zl')
            i = self.typed(tg.slice, 'nl')
            return self.bind(tg.value.id, f'(NpZ.incrAt {a} {i})', 'zl', lines, st)
        fail(st, 'unsupported augmented assignment')

    def if_(self, st, lines):
        # if not isinstance(k, tuple): k = (k,)
        t = st.test
        if isinstance(t, ast.UnaryOp) and isinstance(t.op, ast.Not) and isinstance(t.operand, ast.Call) and ast.unparse(t.operand.func) == 'isinstance' \
                and len(t.operand.args) == 2 and ast.unparse(t.operand.args[1]) == 'tuple' and isinstance(t.operand.args[0], ast.Name):
            k = t.operand.args[0].id
            self.typed(t.operand.args[0], 'key')
            if [ast.unparse(s) for s in st.body] != norm(f'{k} = ({k},)') or st.orelse:
                fail(st, 'only the normalisation `k = (k,)` is supported here')
            return
        c = self.typed(st.test, 'bool')
        before = set(self.env)
        names = self.state_names(st.body + st.orelse)
        if not names:
            fail(st, 'a conditional that updates nothing')
        qa, qb = self.child(), self.child()
        fin = lambda q: (lambda: q.tup(names))
        a = qa.block(st.body, fin(qa))
        b = qb.block(st.orelse, fin(qb)) if st.orelse else self.tup(names)
        for x in names:
            for q in (qa, qb):
                if q.env[x][1] != self.env[x][1]:
                    fail(st, f'`{x}` changes its type in a branch')
        lines.append(f'let {self.tup(names)} : {self.tup_ty(names)} := if {c} then\n{ind(a, 4)}\n  else\n{ind(b, 4)}')
        self.kill_new(st.body + st.orelse, before, 'first bound inside a conditional')

    def for_(self, st, lines):
        if st.orelse:
            fail(st, 'for … else')
        xs, tx = self.expr(st.iter)
        if tx not in ELEM:
            fail(st, f'loop over {tx}')
        q = self.child()
        et = ELEM[tx]
        pre = []
        if isinstance(st.target, ast.Name) and isinstance(et, str):
            var, tnames = st.target.id, [st.target.id]
            q.env[var] = (var, et)
        elif isinstance(st.target, ast.Tuple) and isinstance(et, tuple) and len(st.target.elts) == 2 and all(isinstance(e, ast.Name) for e in st.target.elts):
            tnames = [e.id for e in st.target.elts]
            var = '_'.join(tnames)
            pre.append(f'let ({tnames[0]}, {tnames[1]}) := {var}')
            for x, ty in zip(tnames, et):
                q.env[x] = (x, ty)
        else:
            fail(st, 'unsupported loop target')
        for x in tnames:
            q.dead.pop(x, None)
        before = set(self.env)
        names = [x for x in self.state_names(st.body) if x not in tnames]
        if not names:
            fail(st, 'a loop that updates nothing')
        ety = LT[et] if isinstance(et, str) else f'{LT[et[0]]} × {LT[et[1]]}'
        body = q.block(st.body, lambda: q.tup(names))
        for x in names:
            if q.env[x][1] != self.env[x][1]:
                fail(st, f'`{x}` changes its type inside the loop')
        hd = [f'{xs}.foldl (fun (st : {self.tup_ty(names)}) ({var} : {ety}) =>']
        inner = ([f'let {self.tup(names)} := st'] if True else []) + pre + [body]
        lines.append(f'let {self.tup(names)} := ' + hd[0] + '\n' + ind('\n'.join(inner), 4) + f') {self.tup(names)}')
        self.kill_new(st.body, before, 'bound inside a loop')
        for x in tnames:
            self.dead[x] = 'a loop target'
            self.env.pop(x, None)


# ---------------------------------------------------------------------------- the definitions to generate
F_DOMAIN, F_CLIQUES, F_POTS = ('domain', 'dom'), ('cliques', 'cliques'), ('potentials', 'cvec')
SPECS = [
    dict(py='project', lean='project', two=True, pyargs=['self', 'attrs'],
         params=[('domain', 'dom', 'self'), ('cliques', 'cliques', 'self'), ('marginals', 'pcvec', 'opt'), ('potentials', 'cvec', 'self'),
                 ('total', 'scalar', 'self'), ('attrs_is_list', 'bool', 'flag'), ('attrs', 'attrs', 'arg')],
         contracts=['toPlain', 'greedy_order'], ret='pfactor',
         doc='`marginals = none`: the object has no attribute `marginals`.  `toPlain` re-reads the exponentiated log-space table '
             'returned by `variable_elimination_logspace` as a plain table (the identity for floats)'),
    dict(py='project', lean='projectUncached', pyargs=['self', 'attrs'], fix_hasattr=False,
         params=[('domain', 'dom', 'self'), ('cliques', 'cliques', 'self'), ('potentials', 'cvec', 'self'),
                 ('total', 'scalar', 'self'), ('attrs_is_list', 'bool', 'flag'), ('attrs', 'attrs', 'arg')],
         contracts=['greedy_order'], ret='factor', doc='the path taken when the object has no attribute `marginals`'),
    dict(py='synthetic_data/synthetic_col', lean='syntheticCol', pyargs=['counts', 'total'], rng=True,
         params=[('method', 'str', 'closure'), ('counts', 'ql', 'arg'), ('total', 'nat', 'arg')], inplace_ok=('counts',),
         contracts=list(RNG_CONTRACTS), ret='nl',
         doc='the inner function; `counts` is a one-dimensional float array (exact rationals here), updated in place by `counts *= …` '
             '(a view of `marg` no statement of the caller reads again).  `g` is the state of the random generator'),
    dict(py='synthetic_data', lean='syntheticFrame', pyargs=['self', 'rows', 'method'], defaults={'rows': None, 'method': 'round'}, rng=True,
         upto_return=True,
         params=[('domain', 'dom', 'self'), ('cliques', 'cliques', 'self'), ('elimination_order', 'attrs', 'self'), ('total', 'rat', 'self'),
                 ('rows', 'optnat', 'arg'), ('method', 'str', 'arg')],
         effect_funcs={'synthetic_col': ('syntheticCol', ['ql', 'nat'], [('method', 'str')])},
         contracts=['project', 'set_order', 'groupby'] + list(RNG_CONTRACTS), ret='df',
         doc='everything up to the final `return`: the frame `df` after the column loop (and the generator state)'),
    dict(py='synthetic_data', lean='syntheticData', pyargs=['self', 'rows', 'method'], defaults={'rows': None, 'method': 'round'}, rng=True,
         after='syntheticFrame',
         params=[('domain', 'dom', 'self'), ('cliques', 'cliques', 'self'), ('elimination_order', 'attrs', 'self'), ('total', 'rat', 'self'),
                 ('rows', 'optnat', 'arg'), ('method', 'str', 'arg')],
         contracts=['project', 'set_order', 'groupby'] + list(RNG_CONTRACTS), ret='dataset', doc='the value returned: `Dataset(df, self.domain)`'),
    dict(py='krondot', lean='krondot', two=True, pyargs=['self', 'matrices'], asserts_elsewhere=True,
         params=[('domain', 'dom', 'self'), ('cliques', 'cliques', 'self'), ('message_order', 'order', 'self'), ('potentials', 'cvec', 'self'),
                 ('total', 'pscalar', 'self'), ('matrices', 'mats', 'arg')],
         contracts=['toPlain', 'plainS'], ret='ndp',
         doc='`toPlain` / `plainS` re-read an exponentiated log-space table / number as plain ones (the identity for floats)'),
]
SKIPPED = ['__init__', 'save', 'load', 'calculate_many_marginals', 'fit', 'greedy_order']
OTHERS = ['belief_propagation', 'datavector', 'mle', 'variable_elimination_logspace', 'variable_elimination']     # tools/py2gm.py


class Gen:
    def __init__(self, srcs):
        self.srcs = srcs
        self.g = py2gm.Generator(srcs)              # the source-fact checks of py2gm; also fails on an unknown function
        self.gmg = {s['lean'] for s in py2gm.SPECS}
        self.g.run()                                 # the definitions of GraphicalModelG.lean this file calls must translate
        self.methods, self.funcs = self.g.methods, self.g.funcs
        self.out = []
        self.read_names = set()

    def need_field(self, field, node):
        init = self.methods.get('__init__') or fail(node, '__init__ not found')
        body = [ast.unparse(s) for s in init.body]
        want = {'elimination_order': 'self.elimination_order = tree.elimination_order'}.get(field)
        if want is not None:
            if want not in body:
                fail(node, f'__init__ no longer says `{want}`')
            return
        if field in py2gm.INIT_FIELDS:
            self.g.need_field(field, node)

    def need_gmg(self, name, node):
        if name not in self.gmg:
            fail(node, f'tools/py2gm.py no longer generates `{name}`')

    def need_module_func(self, name, argnames, node):
        fn = self.funcs.get(name) or fail(node, f'module function `{name}` not found')
        if [a.arg for a in fn.args.args] != argnames:
            fail(fn, f'signature of `{name}` changed')

    def need_method(self, name, argnames, node):
        fn = self.methods.get(name) or fail(node, f'method `{name}` not found')
        if [a.arg for a in fn.args.args] != argnames or fn.args.defaults:
            fail(fn, f'signature of `{name}` changed')

    def need_domain_init(self, node):
        fn, body = self.g._body('domain.py', 'Domain', '__init__', node)
        b = [s for s in body]
        if 'self.attrs = tuple(attrs)' not in b or 'self.shape = tuple(shape)' not in b or 'self.config = dict(zip(attrs, shape))' not in b:
            fail(fn, 'Domain.__init__ no longer stores `attrs`, `shape`, `config = dict(zip(attrs, shape))`', 'domain.py')

    def need_dataset_init(self, node):
        fn, _ = self.g._body('dataset.py', 'Dataset', '__init__', node)
        if [a.arg for a in fn.args.args] != ['self', 'df', 'domain', 'weights']:
            fail(fn, 'signature of Dataset.__init__ changed', 'dataset.py')

    def need_factor_init(self, node):
        fn, body = self.g._body('factor.py', 'Factor', '__init__', node)
        if [a.arg for a in fn.args.args] != ['self', 'domain', 'values'] or 'self.values = values.reshape(domain.shape)' not in body:
            fail(fn, 'Factor.__init__ is no longer `values.reshape(domain.shape)`', 'factor.py')

    def need_datavector(self, node):
        fn, body = self.g._body('factor.py', 'Factor', 'datavector', node)
        if body != norm('if flatten:\n    return self.values.flatten()\nreturn self.values'):
            fail(fn, 'Factor.datavector(flatten=False) is no longer `return self.values`', 'factor.py')

    def find(self, path):
        parts = path.split('/')
        fn = self.methods.get(parts[0]) or fail('module', f'{parts[0]} not found')
        for p in parts[1:]:
            fn = next((s for s in fn.body if isinstance(s, ast.FunctionDef) and s.name == p), None) or fail(fn, f'nested function {p} not found')
        return fn

    def one(self, spec):
        spec = dict(spec)
        fn = self.find(spec['py'])
        a = fn.args
        if [x.arg for x in a.args] != spec['pyargs'] or a.vararg or a.kwarg or a.kwonlyargs or a.posonlyargs or fn.decorator_list:
            fail(fn, f'signature changed: {[x.arg for x in a.args]}')
        names = spec['pyargs']
        ds = dict(zip(names[len(names) - len(a.defaults):], a.defaults))
        want = spec.get('defaults', {})
        if set(ds) != set(want) or any(not (isinstance(ds[k], ast.Constant) and ds[k].value == v) for k, v in want.items()):
            fail(fn, 'defaults changed')
        spec['fields'], spec['optional'], spec['flags'], spec['used_flags'] = {}, {}, set(), set()
        env = {}
        for p, t, kind in spec['params']:
            if kind == 'self':
                spec['fields'][p] = (p, t)
            elif kind == 'opt':
                spec['fields'][p] = (p, t)
                spec['optional'][p] = t
            elif kind == 'flag':
                spec['flags'].add(p)
            else:
                env[p] = (p, t)
        if spec.get('rng'):
            env['#g'] = ('g', 'rng')
        body = [s for s in fn.body if not is_doc(s)]
        if 'fix_hasattr' in spec:
            # the variant in which `hasattr(self, …)` is False: the guarded statement is skipped
            body = [s for s in body if not (isinstance(s, ast.If) and ast.unparse(s.test).startswith('hasattr(self,'))]
        q = Q(self, spec, env)
        self.read_names = set()
        pre = None
        if spec.get('asserts_elsewhere'):
            asserts = [s for s in body if isinstance(s, ast.Assert)]
            if len(asserts) != 1 or body[0] is not asserts[0]:
                fail(fn, 'expected exactly one leading assert')
            pre = self.assert_term(asserts[0], q)
        if spec.get('after'):
            last = body[-1]
            if not isinstance(last, ast.Return):
                fail(fn, 'the last statement is not a return')
            prev = next(s for s in SPECS if s['lean'] == spec['after'])
            cs = ' '.join(CONTRACTS[c][0] for c in prev['contracts'])
            ps = ' '.join(p for p, _, _ in prev['params'])
            q.env['df'] = ('df', 'df')
            for p, t, kind in prev['params']:
                if kind == 'self':
                    q.used_fields.add(p)
            q.used_contracts = list(prev['contracts'])
            term = f'let (df, g) := {spec["after"]} {cs} {ps} g\n' + q.block([last], None)
        elif spec.get('upto_return'):
            if not isinstance(body[-1], ast.Return):
                fail(fn, 'the last statement is not a return')
            term = q.block(body[:-1], lambda: '(df, g)')
            if q.env.get('df', ('', ''))[1] != 'df':
                fail(fn, 'no frame `df` at the end of the body')
        else:
            term = q.block(body, None)
        declared = {p for p, _, k in spec['params'] if k in ('self', 'opt')}
        if declared - q.used_fields:
            fail(fn, f'no longer reads self.{sorted(declared - q.used_fields)[0]}')
        if spec['flags'] - spec['used_flags']:
            fail(fn, f'no longer tests {sorted(spec["flags"] - spec["used_flags"])[0]}')
        if not spec.get('after'):
            for p_, _, kind in spec['params']:
                if kind in ('arg', 'closure') and p_ not in self.read_names:
                    fail(fn, f'no longer reads its argument `{p_}`')
        missing = [c for c in spec['contracts'] if c not in q.used_contracts]
        if missing:
            fail(fn, f'no longer uses the contract `{missing[0]}`')
        self.emit(spec, fn, term, pre)

    def assert_term(self, st, q):
        """assert all(M.shape[1] == n for M, n in zip(matrices, self.domain.shape))"""
        t = st.test
        ok = isinstance(t, ast.Call) and ast.unparse(t.func) == 'all' and len(t.args) == 1 and isinstance(t.args[0], ast.GeneratorExp)
        if ok:
            g = t.args[0]
            ok = len(g.generators) == 1 and not g.generators[0].ifs and ast.unparse(g.generators[0].target) == '(M, n)' \
                and ast.unparse(g.generators[0].iter) == 'zip(matrices, self.domain.shape)' and ast.unparse(g.elt) == 'M.shape[1] == n'
        if not ok:
            fail(st, 'only `assert all(M.shape[1] == n for M, n in zip(matrices, self.domain.shape))` is supported')
        q.used_fields.add('domain')
        return '(List.zip matrices (Dom.shape domain)).all (fun (M, n) => (NdArr.shape M).getD 1 0 == n)'

    def emit(self, spec, fn, term, pre):
        ps = []
        if spec.get('two'):
            ps.append('{β : Type} [Scalar β]')
        if spec.get('rng'):
            ps.append('{G : Type}')
        for c in spec['contracts']:
            ps.append(f'({CONTRACTS[c][0]} : {CONTRACTS[c][1]})')
        for p, t, kind in spec['params']:
            ty = LT[t]
            ps.append(f'({p} : Option ({ty}))' if kind == 'opt' else f'({p} : {ty})')
        if spec.get('rng'):
            ps.append('(g : G)')
        rty = LT[spec['ret']] + (' × G' if spec.get('rng') else '')
        where = f'`GraphicalModel.{spec["py"].replace("/", " / ")}` (graphical_model.py:{fn.lineno})'
        doc = where + (f' — {spec["doc"]}' if spec['doc'] else '')
        if pre is not None:
            pps = ' '.join(f'({p} : {LT[t]})' for p, t, _ in spec['params'] if p in ('domain', 'matrices'))
            self.out.append(f'/-- the assertion of {where} -/\ndef {spec["lean"]}Pre {"{β : Type} " if spec.get("two") else ""}{pps} : Bool :=\n  {pre}\n')
        self.out.append(f'/-- {doc} -/\ndef {spec["lean"]} {" ".join(ps)} : {rty} :=\n{ind(term, 2)}\n')

    def run(self):
        for name in list(self.methods) + list(self.funcs):
            if name not in SKIPPED and name not in OTHERS and name not in {s['py'].split('/')[0] for s in SPECS}:
                fail(self.methods.get(name) or self.funcs.get(name), 'a function this translator neither translates nor lists as skipped')
        for spec in SPECS:
            self.one(spec)
        return self.out


HEADER = '''/- GENERATED by tools/py2gmq.py from src/mbi/graphical_model.py — do not edit
   Statement-level translation of the query and sampling paths: `GraphicalModel.project` (whole method: `project`; the path without
   cached marginals: `projectUncached`), `synthetic_data` (`syntheticCol` = the inner function, `syntheticFrame` = the body up to the
   final return, `syntheticData` = the value returned) and `krondot` (+ its assertion `krondotPre`).
   Calls of `variable_elimination_logspace`, `variable_elimination`, `belief_propagation(…, logZ=True)` are calls of the definitions
   generated by tools/py2gm.py (`GMG.*`).
   Contract parameters (their assumed behaviour is a hypothesis of the theorems of C02G / C11G):
     greedy_order   the module function `greedy_order` (iterates over sets, breaks ties of `min` by iteration order): a permutation of `elim`
     set_order      the order in which `tuple(<set>)` lists a set: a permutation
     groupby        `df.groupby(list(by))` iterated: the (key, row labels) pairs, keys sorted, labels ascending
     choice_replace / choice_noreplace / shuffle   `np.random.choice(n, size, True|False, p)` / `np.random.shuffle`; `g : G` is the
                    state of the generator, threaded through every draw in program order
     project        `self.project` as seen from `synthetic_data` (exact rationals); toPlain / plainS: the plain reading of log-space values
   NOT translated: __init__ (its fields are inputs), save, load (pickle), calculate_many_marginals, fit, greedy_order. -/
import PGM.Generated.GraphicalModelG
import PGM.Generated.DatasetG
set_option linter.unusedVariables false
namespace PGM.GMQ
open PGM

/-! ## fixed prelude: the numpy / pandas contracts used by `synthetic_data` -/

/-- a pandas frame of ints with the default index `0 … n-1`: column labels and rows -/
structure DF where
  cols : List Attr
  rows : List (List Nat)

/-- `pd.DataFrame(np.zeros((total, len(cols)), dtype=int), columns=cols)` -/
def DF.zeros (total : Nat) (cols : List Attr) : DF := ⟨cols, List.replicate total (List.replicate cols.length 0)⟩

/-- `df.loc[index, col] = vals`: the row labelled `index[i]` receives `vals[i]` in column `col` (labels distinct; pandas raises on a
length mismatch) -/
def DF.setAt (df : DF) (index : List Nat) (col : Attr) (vals : List Nat) : DF :=
  ⟨df.cols, df.rows.zipIdx.map (fun (r, i) => if index.contains i then r.set (df.cols.idxOf col) (vals.getD (index.idxOf i) 0) else r)⟩

/-- `df.loc[:, col] = vals` / `df[col] = vals` for an existing column -/
def DF.setCol (df : DF) (col : Attr) (vals : List Nat) : DF := DF.setAt df (List.range df.rows.length) col vals

def DF.toTable (df : DF) : Dataset.Table := ⟨df.cols, df.rows.map (fun r => r.map Int.ofNat)⟩

namespace NpQ
def sum (l : List Rat) : Rat := l.foldl (· + ·) 0
/-- integral part, truncated toward zero -/
def trunc (x : Rat) : Int := if 0 ≤ x then x.floor else -((-x).floor)
/-- `np.modf`: (fractional parts, integral parts), both with the sign of the argument -/
def modf (l : List Rat) : List Rat × List Rat := (l.map (fun x => x - (trunc x : Rat)), l.map (fun x => (trunc x : Rat)))
def astypeInt (l : List Rat) : List Int := l.map trunc
/-- `A[idx]` for a tuple `idx` of ints indexing all axes but the last: the one-dimensional sub-array -/
def row (a : NdArr Rat) (idx : List Nat) : List Rat := (List.range (a.shape.getLastD 0)).map (fun v => a.get (idx ++ [v]))
end NpQ

namespace NpZ
def sum (l : List Int) : Int := l.foldl (· + ·) 0
/-- `a[idx] += 1` with an index array: every listed position is incremented once (numpy buffers the fancy-index update) -/
def incrAt (a : List Int) (idx : List Nat) : List Int := a.zipIdx.map (fun (x, i) => if idx.contains i then x + 1 else x)
/-- `np.repeat(vals, counts)` (negative counts raise) -/
def «repeat» (vals : List Nat) (counts : List Int) : List Nat := (List.zip vals counts).flatMap (fun (v, k) => List.replicate k.toNat v)
end NpZ

variable {α : Type} [Scalar α]

/-! ## the translated definitions -/

'''


def main():
    ap = argparse.ArgumentParser()
    ap.add_argument('--repo', default='/repo')
    ap.add_argument('--out', required=True)
    a = ap.parse_args()
    try:
        srcs = {}
        for f in ('graphical_model.py', 'factor.py', 'domain.py', 'junction_tree.py', 'clique_vector.py', 'dataset.py'):
            p = os.path.join(a.repo, 'src', 'mbi', f)
            if os.path.exists(p):
                srcs[f] = open(p).read()
        if 'graphical_model.py' not in srcs:
            raise OSError('src/mbi/graphical_model.py not found')
        defs = Gen(srcs).run()
    except Untranslatable as e:
        print('py2gmq: source outside the translatable subset:', e)
        return 1
    except (OSError, SyntaxError) as e:
        print('py2gmq: source outside the translatable subset:', f'cannot read/parse the source: {e}')
        return 1
    os.makedirs(a.out, exist_ok=True)
    with open(os.path.join(a.out, 'GraphicalModelQG.lean'), 'w') as f:
        f.write(HEADER + '\n'.join(defs) + '\nend PGM.GMQ\n')
    print(f'py2gmq: {len(defs)} definitions')
    return 0


if __name__ == '__main__':
    sys.exit(main())
