#!/usr/bin/env python3
"""Rewrites the table between <!-- seeded:begin --> and <!-- seeded:end --> in DESIGN.md from seeded/*/meta.json."""
import json, os, re, glob
V = os.path.dirname(os.path.dirname(os.path.abspath(__file__)))
rows = []
for d in sorted(glob.glob(os.path.join(V, 'seeded', '*'))):
    mp = os.path.join(d, 'meta.json')
    if not os.path.exists(mp):
        continue
    m = json.load(open(mp))
    sid = os.path.basename(d)
    desc = m.get('description', '')
    t = re.match(r'\*\*(.*?)\*\*', desc.strip())
    title = (t.group(1) if t else desc[:100]).strip().rstrip('.')
    title = re.sub(r'^m\d+\s*[-—–]+\s*', '', title)
    caught = ', '.join(m.get('caught_by', [])) or 'MISSED'
    note = m.get('strengthened', '')
    rows.append(f"| {sid} | {title} | {m.get('needs_to_manifest', '')} | {caught}{(' — ' + note) if note else ''} |")
table = '| seeded change | what it does | needs | caught by |\n|---|---|---|---|\n' + '\n'.join(rows)
p = os.path.join(V, 'DESIGN.md')
s = open(p).read()
s2 = re.sub(r'<!-- seeded:begin -->.*?<!-- seeded:end -->', '<!-- seeded:begin -->\n' + table + '\n<!-- seeded:end -->', s, flags=re.S)
open(p, 'w').write(s2)
print(len(rows), 'rows')
