#!/usr/bin/env python3
"""Rewrites the table between <!-- seeded:begin --> and <!-- seeded:end --> in DESIGN.md from seeded/*/meta.json."""
import json, os, re, glob
V = os.path.dirname(os.path.dirname(os.path.abspath(__file__)))
rows = []
for d in sorted(glob.glob(os.path.join(V, 'seeded', '*'))):
    mp = os.path.join(d, 'meta.json')
    if not os.path.exists(mp):
        continue
    m = json.load(open(mp))
    sid = os.path.basename(d)
    desc = m.get('description', '')
    first = next((l for l in desc.splitlines() if l.strip()), '')
    first = re.sub(r'^[#*\s]+', '', first.strip())
    t = re.match(r'(.*?)\*\*', first)
    title = (t.group(1) if t and t.group(1).strip() else first).strip().strip('*').rstrip('.')
    title = re.sub(r'^(C\d\d\s*[/-]+\s*)?(mutant\s+)?m\d+\s*[-—–:]+\s*', '', title, flags=re.I)
    title = re.sub(r'\s*\|\s*', ' / ', title)[:170]
    caught = ', '.join(m.get('caught_by', [])) or 'MISSED'
    note = m.get('strengthened', '')
    rows.append(f"| {sid} | {title} | {m.get('needs_to_manifest', '')} | {caught}{(' — ' + note) if note else ''} |")
table = '| seeded change | what it does | needs | caught by |\n|---|---|---|---|\n' + '\n'.join(rows)
p = os.path.join(V, 'DESIGN.md')
s = open(p).read()
s2 = re.sub(r'<!-- seeded:begin -->.*?<!-- seeded:end -->', '<!-- seeded:begin -->\n' + table + '\n<!-- seeded:end -->', s, flags=re.S)
open(p, 'w').write(s2)
print(len(rows), 'rows')
