#!/usr/bin/env python3
"""tools/py2local.py --repo R --out DIR

Translates the estimation code of `src/mbi/local_inference.py` (class LocalInference) into Lean definitions
(`DIR/LocalG.lean`, namespace `PGM.LocalG`).  `PGM/Properties/C18G.lean` proves every generated definition equal to the
hand model (`PGM/Model/Local.lean`: `loop`, `attempt`, `post`, `mda`; `PGM/Model/LocalPy.lean`: the operations the source
passes for the abstract `Ops`, `mirrorDescent`, `setup*`, `estimateCallback`; `PGM/Model/Loss.lean`: `marginalLoss`,
`marginalLossL1`, `groupOf`), so the C18 theorems are re-checked against what the source says now.

Generated definitions
  mirrorDescentAuto_loop1/_loop2, mirrorDescentAuto   `mirror_descent_auto` (whole method)
  mirrorDescent, mirrorDescent_initial_alpha           `mirror_descent` and the default of `initial_alpha`
  estimate                                             `estimate`
  setupCliques, setupModel, setupPotentials            `_setup` between the total estimate and the grouping loop
  setupGroups, marginalLossL2, marginalLossL1          the grouping loop and `_marginal_loss` (through the statement
                                                       translator of tools/py2inf.py, used as a library)
The "estimate the total" block of `_setup` is translated by tools/py2total.py and is skipped here (it must still be the
first statement, `if total is None:`).

The oracle object (`self.model`: a RegionGraph, FactorGraph or caller's object) is abstract: `obj : Local.Obj α Msg σ`
holds its methods and attribute accessors, `model : σ` is its state, threaded through every statement that may change it:
  mu = model.belief_propagation(e)            -> `obj.bp model e` (value and new state)
  model.primal_feasibility(e)                 -> `obj.pf e` (checked in region_graph.py / factor_graph.py: the method
                                                 reads only `self.cliques` / `self.children`, which no oracle call assigns)
  model.potentials / = e, model.messages = e, model.damping / = e, model.marginals = e, model.total = e
                                              -> `obj.getPot/setPot/setMsg/getDamp/setDamp/setMarg/setTotal`
  deepcopy(model.messages)                    -> `obj.getMsg model`;  hasattr(model, 'damping') -> `obj.hasDamping model`
  model.potentials.combine(e)                 -> `obj.setPot model (CliqueVec.combine (obj.getPot model) e)`
  `model = self.model`, `self.model = model`  -> the same object (no statement)
A callback is `Option (CliqueVec α → κ → κ)` acting on a world state `world : κ` that is threaded the same way.

Statements
  x = e / a, b = pair / x op= e / attribute stores as above     -> `let`
  for x in range(n): body                     -> a named body function `<def>_loop<i>` folded over `List.range n`; the state
       is the tuple of the variables assigned in the body that have a value before the loop or are read after it (a
       variable without a value before the loop is carried as an `Option`; reading it after the loop when it is still
       `none` is the outcome `Py.unbound`), plus a `Bool` for `break` and an `Option` holding the arguments of a pending
       `return self.<this method>(...)`; once either is set the remaining iterations leave the state unchanged
  return self.<this method>(a, b, callback)   -> the recursive call on one unit less of `fuel` (`Py.recursion` at 0)
  if c: … else: …                             -> in tail position (or with return/break inside) `if c then … else …` with the
       rest of the block in both branches, otherwise `let (xs) := if c then … else …` over the variables assigned
  return e                                    -> `Py.ok (e, model[, world])`
Skipped (no effect): docstrings, comments, `print(...)`, `if self.log: print(...)`.
Expressions: names, float/int literals (1, 2, 0.5 from `Scalar.one`; other decimals p/q as `Scalar.div (ofNat p) (ofNat q)`),
  `np.inf` (`none : Option α`), + - * / on scalars, `cv - scalar*cv`, `x > y` (`gtG`; `gtInf` against `np.inf`), `x < y`,
  `t <= n` on ints, `x is None`, `and`, `self._marginal_loss(mu)` (the parameter `lossgrad`), list comprehension
  `[m[3] for m in measurements]`, `list(zeros.keys())`, `==` against string literals and `type(x) is str` on
  `self.marginal_oracle`, the constructor calls `RegionGraph/FactorGraph(self.domain, cliques, total, convex=…, iters=…)`,
  `CliqueVector.zeros(d, cliques)`, `callbacks.Logger(self)`.
Anything else stops the translator (exit 1) with file:line and the construct.
"""
import argparse, ast, os, re, sys
from fractions import Fraction

sys.path.insert(0, os.path.dirname(os.path.abspath(__file__)))
import py2inf as INF          # statement translator for `_marginal_loss` and the grouping loop (library use only)

FILE = 'local_inference.py'


class Untranslatable(Exception):
    pass


def fail(node, why):
    where = f'{FILE}:{getattr(node, "lineno", "?")}' if isinstance(node, ast.AST) else str(node)
    text = (ast.unparse(node) if isinstance(node, ast.AST) else '').split('\n')[0]
    raise Untranslatable(f'{where}: {why}' + (f': {text[:160]}' if text else ''))


LEANTY = {'scalar': 'α', 'nat': 'Nat', 'bool': 'Bool', 'cv': 'CliqueVec α', 'optscalar': 'Option α', 'msg': 'Msg', 'obj': 'σ',
          'pair': 'α × CliqueVec α', 'world': 'κ', 'optcb': 'Option (CliqueVec α → κ → κ)', 'cliques': 'List JT.Clique',
          'measlist': 'List (Loss.Meas α)', 'dom': 'Dom', 'sel': 'Local.Sel σ', 'optobj': 'Option σ'}
RESERVED = {'at', 'from', 'fun', 'end', 'open', 'in', 'let', 'do', 'then', 'else', 'if', 'match', 'with', 'where', 'have', 'show',
            'by', 'def', 'instance', 'st', 'out', 'obj', 'fuel', 'α', 'σ', 'κ', 'Msg', 'lossgrad', 'mk', 'brk', 'ret', 'ifout', 'old', 'o', 'r', 'a'}
ind = INF.ind


class V:
    def __init__(self, t, ty, lit=None, isint=False):
        self.t, self.ty, self.lit, self.isint = t, ty, lit, isint


def lname(x, node=None):
    if x in RESERVED or x.endswith('_opt'):
        fail(node or x, f'the python variable `{x}` clashes with a name the translation reserves')
    return x


def enc_lit(q, node):
    """a float literal as a scalar term"""
    if q < 0:
        return f'(Scalar.neg {enc_lit(-q, node)})'
    two = '(Scalar.add Scalar.one Scalar.one)'
    if q == 0:
        return 'Scalar.zero'
    if q == 1:
        return 'Scalar.one'
    if q == 2:
        return two
    if q == Fraction(1, 2):
        return f'(Scalar.div Scalar.one {two})'
    if q.numerator >= 1 << 53 or q.denominator >= 1 << 53:
        fail(node, 'numeric literal with more digits than a double holds exactly')
    if q.denominator == 1:
        return f'(Scalar.ofNat {q.numerator})'
    return f'(Scalar.div (Scalar.ofNat {q.numerator}) (Scalar.ofNat {q.denominator}))'


def is_print(st):
    return isinstance(st, ast.Expr) and isinstance(st.value, ast.Call) and isinstance(st.value.func, ast.Name) and st.value.func.id == 'print'


def is_doc(st):
    return isinstance(st, ast.Expr) and isinstance(st.value, ast.Constant) and isinstance(st.value.value, str)


def effect_free(stmts):
    return all(is_print(s) or is_doc(s) or isinstance(s, ast.Pass) or
               (isinstance(s, ast.If) and effect_free(s.body) and effect_free(s.orelse)) for s in stmts)


def has_jump(stmts):
    return any(isinstance(x, (ast.Return, ast.Break, ast.Continue)) for s in stmts for x in ast.walk(s))


def terminates(stmts):
    if not stmts:
        return False
    last = stmts[-1]
    if isinstance(last, (ast.Return, ast.Break)):
        return True
    return isinstance(last, ast.If) and terminates(last.body) and terminates(last.orelse)


OBJ_ATTRS = {'potentials': ('getPot', 'setPot', 'cv'), 'damping': ('getDamp', 'setDamp', 'scalar'), 'messages': (None, 'setMsg', 'msg'),
             'marginals': (None, 'setMarg', 'cv'), 'total': (None, 'setTotal', 'scalar')}
OBJ_READS = {'cliques': ('cliques', 'cliques'), 'domain': ('domain', 'dom')}


class Tr:
    """statement translator of one method; `self_attrs` maps `self.x` to a parameter value, `consts` fixes names"""

    def __init__(self, defname, fn, self_attrs, rettype, rec=None):
        self.defname, self.fn, self.self_attrs, self.rettype, self.rec = defname, fn, self_attrs, rettype, rec
        self.loops = []           # emitted loop-body definitions
        self.used = set()         # lean names of outer variables read while translating a loop body
        self.track = None
        self.order = {}
        for n in ast.walk(fn):
            if isinstance(n, (ast.Name, ast.arg)) and (n.id if isinstance(n, ast.Name) else n.arg) in ('world', 'prev', 'logger', 'options_callback'):
                fail(n, 'the python variable clashes with a name the translation reserves')
            for t in self.targets_of(n):
                self.order.setdefault(t, (getattr(n, 'lineno', 0), len(self.order)))

    # ---- which python expression denotes the oracle object
    def is_obj(self, n, env):
        if isinstance(n, ast.Name) and n.id in env and env[n.id].ty == 'obj':
            return env[n.id]
        if ast.unparse(n) == 'self.model' and 'model' in env and env['model'].ty == 'obj' and env.get('@selfmodel') is not None:
            return env['model']
        return None

    def objname(self, n):
        """the python variable holding the object behind `n` (`model` / `self.model`)"""
        return 'model'

    def targets_of(self, n):
        out = []
        if isinstance(n, (ast.Assign, ast.AugAssign)):
            ts = n.targets if isinstance(n, ast.Assign) else [n.target]
            for t in ts:
                for e in (t.elts if isinstance(t, ast.Tuple) else [t]):
                    if isinstance(e, ast.Name):
                        out.append(e.id)
                    elif isinstance(e, ast.Attribute) and ast.unparse(e.value) in ('model', 'self.model'):
                        out.append('model')
            if isinstance(n, ast.Assign) and self.mutates_obj(n.value):
                out.append('model')
        if isinstance(n, ast.Expr) and isinstance(n.value, ast.Call):
            if self.mutates_obj(n.value):
                out.append('model')
            if isinstance(n.value.func, ast.Name) and n.value.func.id == 'callback':
                out.append('world')
        if isinstance(n, ast.For) and isinstance(n.target, ast.Name):
            out.append(n.target.id)
        return out

    def mutates_obj(self, e):
        if not isinstance(e, ast.Call) or not isinstance(e.func, ast.Attribute):
            return False
        s = ast.unparse(e.func)
        return s in ('model.belief_propagation', 'self.model.belief_propagation', 'model.potentials.combine', 'self.model.potentials.combine')

    def assigned(self, stmts):
        out = []
        for s in stmts:
            for n in ast.walk(s):
                for t in self.targets_of(n):
                    if t not in out:
                        out.append(t)
        return sorted(out, key=lambda x: self.order.get(x, (1 << 30, 0)))

    def reads(self, stmts):
        out = set()
        for s in stmts:
            for n in ast.walk(s):
                if isinstance(n, ast.Name) and isinstance(n.ctx, ast.Load):
                    out.add(n.id)
                if isinstance(n, ast.Call) and isinstance(n.func, ast.Name) and n.func.id == 'callback':
                    out.add('world')
        return out

    # ---- expressions
    def scalar(self, v, node):
        if v.ty == 'lit':
            return enc_lit(v.lit, node)
        if v.ty == 'scalar':
            return v.t
        fail(node, f'expected a float, got {v.ty}')

    def nat(self, v, node):
        if v.ty == 'lit' and v.isint and v.lit >= 0:
            return str(v.lit.numerator)
        if v.ty == 'nat':
            return v.t
        fail(node, f'expected a natural number, got {v.ty}')

    def lookup(self, name, env, node):
        if name not in env:
            fail(node, f'`{name}` has no value here (unknown name, or read before it is assigned)')
        v = env[name]
        if v.ty.startswith('maybe:'):
            fail(node, f'`{name}` may be unbound here (assigned only inside a loop)')
        if self.track is not None and v.t and name in self.track:
            self.used.add(name)
        return v

    def typed(self, n, env, *tys):
        v = self.expr(n, env)
        if v.ty not in tys:
            fail(n, f'expected {"/".join(tys)}, got {v.ty}')
        return v

    def expr(self, n, env):
        if isinstance(n, ast.Name):
            return self.lookup(n.id, env, n)
        if isinstance(n, ast.Constant):
            if isinstance(n.value, bool):
                return V('true' if n.value else 'false', 'bool')
            if isinstance(n.value, int):
                return V(None, 'lit', lit=Fraction(n.value), isint=True)
            if isinstance(n.value, float):
                if n.value != n.value or n.value in (float('inf'), float('-inf')):
                    fail(n, 'non-finite literal')
                return V(None, 'lit', lit=Fraction(repr(n.value)), isint=False)
            if isinstance(n.value, str):
                return V(f'"{n.value}"', 'str')
            if n.value is None:
                return V(None, 'none')
            fail(n, 'unsupported constant')
        if isinstance(n, ast.Attribute):
            s = ast.unparse(n)
            if s == 'np.inf':
                return V('(none : Option α)', 'optscalar')
            o = self.is_obj(n.value, env)
            if o is not None:
                self.lookup('model', env, n)
                if n.attr in OBJ_ATTRS and OBJ_ATTRS[n.attr][0]:
                    return V(f'(obj.{OBJ_ATTRS[n.attr][0]} {o.t})', OBJ_ATTRS[n.attr][2])
                if n.attr in OBJ_READS:
                    return V(f'(obj.{OBJ_READS[n.attr][0]} {o.t})', OBJ_READS[n.attr][1])
                fail(n, 'unsupported attribute of the oracle object')
            if s in self.self_attrs:
                return self.lookup(self.self_attrs[s], env, n)
            if isinstance(n.value, ast.Attribute) and ast.unparse(n.value) == 'self.model' and 'prev' in env and env['prev'].ty == 'obj' and n.attr == 'potentials':
                return V(f'(obj.getPot {self.lookup("prev", env, n).t})', 'cv')
            fail(n, 'unsupported attribute')
        if isinstance(n, ast.BinOp):
            L, R = self.expr(n.left, env), self.expr(n.right, env)
            return self.binop(n.op, L, R, n)
        if isinstance(n, ast.UnaryOp) and isinstance(n.op, ast.USub):
            v = self.expr(n.operand, env)
            if v.ty == 'lit':
                return V(None, 'lit', lit=-v.lit, isint=v.isint)
            return V(f'(Scalar.neg {self.scalar(v, n)})', 'scalar')
        if isinstance(n, ast.UnaryOp) and isinstance(n.op, ast.Not):
            return V(f'(!{self.typed(n.operand, env, "bool").t})', 'bool')
        if isinstance(n, ast.BoolOp):
            ts = [self.typed(v, env, 'bool').t for v in n.values]
            return V('(' + (' || ' if isinstance(n.op, ast.Or) else ' && ').join(ts) + ')', 'bool')
        if isinstance(n, ast.Compare):
            return self.compare(n, env)
        if isinstance(n, ast.Call):
            return self.call(n, env)
        if isinstance(n, ast.ListComp):
            if len(n.generators) == 1 and not n.generators[0].ifs and isinstance(n.generators[0].target, ast.Name):
                g = n.generators[0]
                xs = self.typed(g.iter, env, 'measlist')
                x = g.target.id
                if ast.unparse(n.elt) == f'{x}[3]':
                    return V(f'(List.map (fun {lname(x, n)} => {lname(x, n)}.proj) {xs.t})', 'cliques')     # a measurement is (Q, y, noise, proj)
            fail(n, 'unsupported list comprehension')
        fail(n, 'unsupported expression')

    def binop(self, op, L, R, n):
        name = {ast.Add: 'add', ast.Sub: 'sub', ast.Mult: 'mul', ast.Div: 'div'}.get(type(op)) or fail(n, 'unsupported operator')
        num = ('lit', 'scalar')
        if L.ty in num and R.ty in num:
            if L.ty == 'lit' and R.ty == 'lit':
                fail(n, 'arithmetic on two literals')
            return V(f'(Scalar.{name} {self.scalar(L, n)} {self.scalar(R, n)})', 'scalar')
        if name == 'mul' and L.ty in num and R.ty == 'cv':
            return V(f'(CliqueVec.smul {self.scalar(L, n)} {R.t})', 'cv')
        if name == 'mul' and L.ty == 'cv' and R.ty in num:
            return V(f'(CliqueVec.smul {self.scalar(R, n)} {L.t})', 'cv')
        if name == 'sub' and L.ty == R.ty == 'cv':
            return V(f'(CliqueVec.subV {L.t} {R.t})', 'cv')
        if name == 'add' and L.ty == R.ty == 'cv':
            return V(f'(CliqueVec.addV {L.t} {R.t})', 'cv')
        if name == 'add' and L.ty == R.ty == 'cliques':
            return V(f'({L.t} ++ {R.t})', 'cliques')
        fail(n, f'unsupported arithmetic on {L.ty} and {R.ty}')

    def compare(self, n, env):
        if len(n.ops) != 1:
            fail(n, 'chained comparison')
        op, l, r = n.ops[0], n.left, n.comparators[0]
        # `x is None` / `x is not None`
        if isinstance(r, ast.Constant) and r.value is None and isinstance(op, (ast.Is, ast.IsNot)):
            v = self.expr(l, env)
            if v.ty == 'optcb':
                return V(f'{v.t}.isNone' if isinstance(op, ast.Is) else f'{v.t}.isSome', 'bool')
            if v.ty in ('cv', 'scalar', 'obj', 'cliques'):
                return V('false' if isinstance(op, ast.Is) else 'true', 'bool')      # bound to a value: not None
            fail(n, f'`is None` on {v.ty}')
        # type(x) is str
        if isinstance(op, ast.Is) and isinstance(l, ast.Call) and ast.unparse(l.func) == 'type' and len(l.args) == 1 and ast.unparse(r) == 'str':
            v = self.typed(l.args[0], env, 'sel')
            return V(f'(selIsStr {v.t})', 'bool')
        L, R = self.expr(l, env), self.expr(r, env)
        if isinstance(op, ast.Eq) and L.ty == 'sel' and R.ty == 'str':
            return V(f'(selEq {L.t} {R.t})', 'bool')
        if isinstance(op, ast.Gt) and L.ty == 'scalar' and R.ty == 'optscalar':
            return V(f'(gtInf {L.t} {R.t})', 'bool')
        if isinstance(op, ast.Gt) and L.ty in ('scalar', 'lit') and R.ty in ('scalar', 'lit') and 'scalar' in (L.ty, R.ty):
            return V(f'(gtG {self.scalar(L, n)} {self.scalar(R, n)})', 'bool')
        if isinstance(op, ast.Lt) and L.ty in ('scalar', 'lit') and R.ty in ('scalar', 'lit') and 'scalar' in (L.ty, R.ty):
            return V(f'(gtG {self.scalar(R, n)} {self.scalar(L, n)})', 'bool')          # x < y  is  y > x
        if isinstance(op, (ast.LtE, ast.Lt, ast.GtE, ast.Gt, ast.Eq)) and L.ty in ('nat', 'lit') and R.ty in ('nat', 'lit') and 'nat' in (L.ty, R.ty):
            sym = {ast.LtE: '≤', ast.Lt: '<', ast.GtE: '≥', ast.Gt: '>', ast.Eq: '='}[type(op)]
            return V(f'(decide ({self.nat(L, n)} {sym} {self.nat(R, n)}))', 'bool')
        fail(n, f'unsupported comparison of {L.ty} and {R.ty}')

    def call(self, n, env):
        f, args, kws = n.func, n.args, n.keywords
        src = ast.unparse(f)
        if src == 'deepcopy' and len(args) == 1 and not kws and isinstance(args[0], ast.Attribute) and args[0].attr == 'messages':
            o = self.is_obj(args[0].value, env) or fail(n, 'deepcopy of something other than the oracle messages')
            self.lookup('model', env, n)
            return V(f'(obj.getMsg {o.t})', 'msg')
        if src == 'hasattr' and len(args) == 2 and not kws and isinstance(args[1], ast.Constant):
            o = self.is_obj(args[0], env)
            if o is not None and args[1].value == 'damping':
                self.lookup('model', env, n)
                return V(f'(obj.hasDamping {o.t})', 'bool')
            if ast.unparse(args[0]) == 'self' and args[1].value == 'model' and 'prev' in env and env['prev'].ty == 'optobj':
                return V(f'{self.lookup("prev", env, n).t}.isSome', 'bool')
            fail(n, 'unsupported hasattr')
        if src == 'self._marginal_loss' and len(args) == 1 and not kws:
            return V(f'(lossgrad {self.typed(args[0], env, "cv").t})', 'pair')
        if isinstance(f, ast.Attribute) and f.attr == 'primal_feasibility' and len(args) == 1 and not kws and self.is_obj(f.value, env) is not None:
            return V(f'(obj.pf {self.typed(args[0], env, "cv").t})', 'scalar')
        if src in ('RegionGraph', 'FactorGraph') and len(args) == 3 and [k.arg for k in kws] == ['convex', 'iters']:
            d, c, t = self.typed(args[0], env, 'dom'), self.typed(args[1], env, 'cliques'), self.typed(args[2], env, 'scalar')
            cv, it = self.typed(kws[0].value, env, 'bool'), self.typed(kws[1].value, env, 'nat')
            return V(f'(mk.{"region" if src == "RegionGraph" else "factor"} {d.t} {c.t} {t.t} {cv.t} {it.t})', 'obj')
        if src == 'CliqueVector.zeros' and len(args) == 2 and not kws:
            return V(f'(CliqueVec.zerosV {self.typed(args[0], env, "dom").t} {self.typed(args[1], env, "cliques").t})', 'cv')
        if src == 'list' and len(args) == 1 and not kws and isinstance(args[0], ast.Call) and isinstance(args[0].func, ast.Attribute) \
                and args[0].func.attr == 'keys' and not args[0].args:
            return V(f'(List.map Prod.fst {self.typed(args[0].func.value, env, "cv").t})', 'cliques')
        if src == 'callbacks.Logger' and len(args) == 1 and ast.unparse(args[0]) == 'self' and not kws:
            return V(f'(some {self.lookup("logger", env, n).t})', 'optcb')
        fail(n, 'unsupported call')

    # ---- statements
    def coerce(self, v, ty, node):
        if v.ty == ty:
            return v.t
        if ty == 'optscalar' and v.ty in ('scalar', 'lit'):
            return f'(some {self.scalar(v, node)})'
        if ty == 'scalar' and v.ty == 'lit':
            return enc_lit(v.lit, node)
        if ty == 'nat' and v.ty == 'lit' and v.isint and v.lit >= 0:
            return str(v.lit.numerator)
        fail(node, f'a variable of type {ty} is assigned a value of type {v.ty}')

    def bind(self, env, name, v, lets, node):
        """`name = v`; a variable keeps the type it has (an `Option` stays an `Option`)"""
        if v.ty == 'lit':
            v = V(str(v.lit.numerator), 'nat') if v.isint and v.lit >= 0 else V(enc_lit(v.lit, node), 'scalar')
        ty = v.ty
        if name in env and env[name].ty in LEANTY and env[name].ty != ty and not env[name].ty.startswith('maybe:'):
            v = V(self.coerce(v, env[name].ty, node), env[name].ty)
            ty = v.ty
        if ty not in LEANTY:
            fail(node, f'cannot bind `{name}` to a value of type {ty}')
        nm = lname(name, node)
        lets.append(f'let {nm} : {LEANTY[ty]} := {v.t}')
        env[name] = V(nm, ty)

    def block(self, stmts, env, k, ctx):
        stmts = [s for s in stmts if not is_doc(s) and not isinstance(s, ast.Pass) and not is_print(s)]
        if not stmts:
            return k(env)
        st, rest = stmts[0], stmts[1:]
        env = dict(env)
        lets = []
        go = lambda: '\n'.join(lets + [self.block(rest, env, k, ctx)])

        if isinstance(st, ast.Return):
            if rest:
                fail(rest[0], 'unreachable statement after return')
            return self.ret(st, env, ctx)
        if isinstance(st, ast.Break):
            if rest:
                fail(rest[0], 'unreachable statement after break')
            if not ctx.get('brk'):
                fail(st, '`break` outside a loop')
            return ctx['brk'](env)
        if isinstance(st, ast.If):
            return self.if_(st, rest, env, k, ctx)
        if isinstance(st, ast.For):
            return self.for_(st, rest, env, k, ctx)
        if isinstance(st, ast.Assign) and len(st.targets) == 1:
            t = st.targets[0]
            # the object under another name
            if isinstance(t, ast.Name) and self.is_obj(st.value, env) is not None:
                if t.id != 'model':
                    fail(st, 'the oracle object must be called `model`')
                return go()
            if ast.unparse(t) == 'self.model' and ctx.get('selfmodel_store'):
                o = self.is_obj(st.value, env) or fail(st, '`self.model` is assigned something other than the oracle object')
                env['@selfmodel'] = True
                return go()
            # model.attr = e
            if isinstance(t, ast.Attribute) and isinstance(t.value, (ast.Name, ast.Attribute)) and t.attr in OBJ_ATTRS and \
                    (self.is_obj(t.value, env) is not None or (isinstance(t.value, ast.Name) and t.value.id in env and env[t.value.id].ty == 'sel')):
                if isinstance(t.value, ast.Name) and env[t.value.id].ty == 'sel':
                    # the first use of `model = self.marginal_oracle` as an object: a string has no such attribute
                    sel = env[t.value.id]
                    env[t.value.id] = V('o', 'obj')
                    inner = self.block([st] + rest, env, k, ctx)
                    return f'match {sel.t} with\n| Local.Sel.object o =>\n{ind(inner)}\n| Local.Sel.name _ => Local.Py.attrError'
                o = self.is_obj(t.value, env)
                _, setter, ty = OBJ_ATTRS[t.attr]
                v = self.expr(st.value, env)
                self.bind(env, 'model', V(f'(obj.{setter} {o.t} {self.coerce(v, ty, st)})', 'obj'), lets, st)
                return go()
            # x = model.belief_propagation(e)
            if isinstance(t, ast.Name) and isinstance(st.value, ast.Call) and isinstance(st.value.func, ast.Attribute) \
                    and st.value.func.attr == 'belief_propagation' and self.is_obj(st.value.func.value, env) is not None:
                if len(st.value.args) != 1 or st.value.keywords:
                    fail(st, 'belief_propagation takes the potentials only')
                o = self.lookup('model', env, st)
                a = self.typed(st.value.args[0], env, 'cv')
                call = f'(obj.bp {o.t} {a.t})'
                self.bind(env, t.id, V(f'{call}.1', 'cv'), lets, st)
                self.bind(env, 'model', V(f'{call}.2', 'obj'), lets, st)
                return go()
            # l, theta, mu = self.<other method>(...)
            if isinstance(t, ast.Tuple) and isinstance(st.value, ast.Call) and ctx.get('calls') and ast.unparse(st.value.func) in ctx['calls']:
                return ctx['calls'][ast.unparse(st.value.func)](st, t, rest, env, k, ctx)
            if isinstance(t, ast.Tuple):
                v = self.expr(st.value, env)
                if v.ty == 'pair' and len(t.elts) == 2 and all(isinstance(e, ast.Name) for e in t.elts):
                    for i, (e, ty) in enumerate(zip(t.elts, ('scalar', 'cv'))):
                        if e.id != '_':
                            self.bind(env, e.id, V(f'{v.t}.{i + 1}', ty), lets, st)
                    return go()
                fail(st, f'cannot destructure a {v.ty}')
            if isinstance(t, ast.Name):
                v = self.expr(st.value, env)
                if v.ty == 'sel':
                    env[t.id] = v             # `model = self.marginal_oracle`: not yet known to be an object
                    return go()
                if v.ty == 'obj' and t.id == 'model':
                    self.bind(env, 'model', v, lets, st)
                    return go()
                self.bind(env, t.id, v, lets, st)
                return go()
            if isinstance(t, ast.Subscript) and ctx.get('dict_store'):
                ctx['dict_store'](t, st, env, lets)
                return go()
            fail(st, 'unsupported assignment')
        if isinstance(st, ast.AugAssign) and isinstance(st.target, ast.Name):
            cur, val = self.lookup(st.target.id, env, st), self.expr(st.value, env)
            self.bind(env, st.target.id, self.binop(st.op, cur, val, st), lets, st)
            return go()
        if isinstance(st, ast.Expr) and isinstance(st.value, ast.Call):
            c = st.value
            src = ast.unparse(c.func)
            if isinstance(c.func, ast.Name) and c.func.id == 'callback' and len(c.args) == 1 and not c.keywords:
                cb = self.typed(c.func, env, 'optcb')
                w = self.lookup('world', env, st)
                self.bind(env, 'world', V(f'(cbApply {cb.t} {self.typed(c.args[0], env, "cv").t} {w.t})', 'world'), lets, st)
                return go()
            if src in ('model.potentials.combine', 'self.model.potentials.combine') and len(c.args) == 1 and not c.keywords:
                o = self.is_obj(c.func.value.value, env) or fail(st, 'combine on something other than the oracle potentials')
                self.lookup('model', env, st)
                a = self.typed(c.args[0], env, 'cv')
                self.bind(env, 'model', V(f'(obj.setPot {o.t} (CliqueVec.combine (obj.getPot {o.t}) {a.t}))', 'obj'), lets, st)
                return go()
            if ctx.get('calls') and src in ctx['calls']:
                return ctx['calls'][src](st, None, rest, env, k, ctx)
            fail(st, 'unsupported expression statement (a call with unknown effects)')
        fail(st, 'unsupported statement')

    def ret(self, st, env, ctx):
        if ctx.get('loop_ret'):
            return ctx['loop_ret'](st, env)
        return ctx['ret'](st, env)

    def unwrap_maybe(self, names, env, body_of):
        """reading variables that may be unbound: `Py.unbound` when one of them is"""
        env = dict(env)
        wraps = []
        for x in names:
            if x in env and env[x].ty.startswith('maybe:'):
                wraps.append((env[x].t, lname(x)))
                env[x] = V(lname(x), env[x].ty[6:])
        text = body_of(env)
        for opt, nm in reversed(wraps):
            text = f'match {opt} with\n| none => Local.Py.unbound\n| some {nm} =>\n{ind(text)}'
        return text

    def if_(self, st, rest, env, k, ctx):
        if effect_free(st.body) and effect_free(st.orelse):
            return self.block(rest, env, k, ctx)          # logging only
        c = self.typed(st.test, env, 'bool').t
        if not rest or has_jump(st.body) or has_jump(st.orelse):
            a = self.block(st.body + ([] if terminates(st.body) else rest), env, k, ctx)
            b = self.block(st.orelse + ([] if terminates(st.orelse) else rest), env, k, ctx)
            return f'if {c} then\n{ind(a)}\nelse\n{ind(b)}'
        names = self.assigned(st.body + st.orelse)
        for x in names:
            if x not in env:
                fail(st, f'`{x}` is assigned under a condition and has no value before')
        if not names:
            fail(st, 'an `if` with no visible effect')
        outs = []

        def fin(e):
            outs.append(e)
            vals = [self.coerce(e[x], env[x].ty, st) for x in names]
            return vals[0] if len(vals) == 1 else '(' + ', '.join(vals) + ')'
        a = self.block(st.body, env, fin, ctx)
        b = self.block(st.orelse, env, fin, ctx)
        env = dict(env)
        tys = [LEANTY[env[x].ty] for x in names]
        if len(names) == 1:
            head = f'let {lname(names[0])} : {tys[0]} :=\n  (if {c} then\n{ind(a, 4)}\n  else\n{ind(b, 4)})'
        else:
            ty = ' × '.join(f'({t})' if '×' in t or '→' in t else t for t in tys)
            proj = lambda i: 'ifout' + '.2' * i + ('.1' if i < len(names) - 1 else '')
            head = f'let ifout : {ty} :=\n  (if {c} then\n{ind(a, 4)}\n  else\n{ind(b, 4)})\n' + \
                '\n'.join(f'let {lname(x)} : {t} := {proj(i)}' for i, (x, t) in enumerate(zip(names, tys)))
        for x in names:
            env[x] = V(lname(x), env[x].ty)
        return head + '\n' + self.block(rest, env, k, ctx)

    def for_(self, st, rest, env, k, ctx):
        if st.orelse or ctx.get('brk') or ctx.get('loop_ret'):
            fail(st, 'for-else / nested loop')
        if not (isinstance(st.iter, ast.Call) and isinstance(st.iter.func, ast.Name) and st.iter.func.id == 'range'
                and len(st.iter.args) == 1 and not st.iter.keywords and isinstance(st.target, ast.Name)):
            fail(st, 'unsupported loop (only `for x in range(n)`)')
        for x in ast.walk(st):
            if isinstance(x, ast.Continue) or (isinstance(x, ast.For) and x is not st):
                fail(x, 'continue / nested loop')
        n_term = self.nat(self.expr(st.iter.args[0], env), st)
        tvar = st.target.id
        assigned = [x for x in self.assigned(st.body) if x != tvar]
        after = self.reads(rest) | {'model', 'world'}
        carried = [x for x in assigned if x in env or x in after]
        maybe = [x for x in carried if x not in env]
        has_brk = any(isinstance(x, ast.Break) for s in st.body for x in ast.walk(s))
        rets = [x for s in st.body for x in ast.walk(s) if isinstance(x, ast.Return)]
        rec_args = None
        if rets:
            if not self.rec:
                fail(rets[0], 'return inside a loop')
            rec_args = self.rec['argtys']
        idx = len(self.loops) + 1
        loopname = f'{self.defname}_loop{idx}'
        # state layout
        slots = [(x, None) for x in carried] + ([('@brk', 'Bool')] if has_brk else []) + \
            ([('@ret', 'Option (' + ' × '.join(LEANTY[t] for t in rec_args) + ')')] if rets else [])
        nslots = len(slots)
        proj = lambda base, i: base if nslots == 1 else base + '.2' * i + ('.1' if i < nslots - 1 else '')
        # body
        env_b = {}
        outer = {x for x in env if x not in carried and not x.startswith('@')}
        for x in env:
            if x not in carried:
                env_b[x] = env[x]
        for x in carried:
            if x in env:
                env_b[x] = V(lname(x), env[x].ty)
        if tvar != '_':
            env_b[tvar] = V(lname(tvar, st), 'nat')
        maybe_ty = {}

        def state(e, brk, retv):
            vals = []
            for x in carried:
                if x in maybe:
                    if x in e:
                        maybe_ty.setdefault(x, e[x].ty)
                        if maybe_ty[x] != e[x].ty:
                            fail(st, f'`{x}` is assigned values of different types')
                        vals.append(f'(some {e[x].t})')
                    else:
                        vals.append(f'{lname(x)}_opt')
                else:
                    vals.append(self.coerce(e[x], env[x].ty, st))
            if has_brk:
                vals.append(brk)
            if rets:
                vals.append(retv)
            return vals[0] if len(vals) == 1 else '(' + ', '.join(vals) + ')'

        def loop_ret(rst, e):
            c = rst.value
            if not (isinstance(c, ast.Call) and ast.unparse(c.func) == f'self.{self.rec["pyname"]}'):
                fail(rst, 'a `return` inside a loop must be the recursive call of this method')
            args = self.rec['bind'](c)
            vals = [self.coerce(self.expr(a, e), ty, rst) for a, ty in zip(args, rec_args)]
            return state(e, 'false', '(some (' + ', '.join(vals) + '))')
        inner = {'brk': (lambda e: state(e, 'true', 'none')) if has_brk else None, 'loop_ret': loop_ret if rets else None,
                 'calls': None, 'ret': ctx['ret']}
        saved_track, saved_used = self.track, self.used
        self.track, self.used = outer, set()
        body = self.block(st.body, env_b, lambda e: state(e, 'false', 'none'), inner)
        used = sorted((x for x in self.used if x not in self.header_args.split()), key=lambda x: self.order.get(x, (0, 0)))
        self.track, self.used = saved_track, saved_used
        for x in used:
            if self.track is not None and x in self.track:
                self.used.add(x)
        # types
        tys = []
        for x, t in slots:
            if t is not None:
                tys.append(t)
            elif x in maybe:
                if x not in maybe_ty:
                    fail(st, f'`{x}` is read after the loop but never assigned in it')
                tys.append(f'Option {LEANTY[maybe_ty[x]]}' if ' ' not in LEANTY[maybe_ty[x]] else f'Option ({LEANTY[maybe_ty[x]]})')
            else:
                tys.append(LEANTY[env[x].ty])
        sty = ' × '.join(f'({t})' if ('×' in t or '→' in t) and nslots > 1 else t for t in tys)
        lines = []
        stops = []
        for i, (x, t) in enumerate(slots):
            if x == '@brk':
                stops.append(proj('st', i))
            elif x == '@ret':
                stops.append(proj('st', i) + '.isSome')
        if stops:
            lines.append(f'if {" || ".join(stops)} then st else')
        for i, (x, t) in enumerate(slots):
            if t is None:
                nm = lname(x) + ('_opt' if x in maybe else '')
                lines.append(f'let {nm} : {tys[i]} := {proj("st", i)}')
        params = ' '.join(f'({env[x].t} : {LEANTY[env[x].ty]})' for x in used)
        binder = f'({lname(tvar, st)} : Nat)' if tvar != '_' else '(_ : Nat)'
        self.loops.append(f'/-- body of the loop at {FILE}:{st.lineno} (state: {", ".join(x for x, _ in slots)}) -/\n'
                          f'def {loopname} {self.header} {params} (st : {sty}) {binder} : {sty} :=\n{ind(chr(10).join(lines + [body]))}\n')
        # the fold
        init = []
        for x, t in slots:
            init.append('false' if x == '@brk' else 'none' if x == '@ret' or x in maybe else env[x].t)
        init_t = init[0] if nslots == 1 else '(' + ', '.join(init) + ')'
        args = ' '.join(env[x].t for x in used)
        out = [f'let out : {sty} := List.foldl ({loopname} {self.header_args} {args}) {init_t} (List.range {n_term})']
        env = dict(env)
        for i, (x, t) in enumerate(slots):
            if t is None:
                if x in maybe:
                    out.append(f'let {lname(x)}_opt : {tys[i]} := {proj("out", i)}')
                    env[x] = V(f'{lname(x)}_opt', 'maybe:' + maybe_ty[x])
                else:
                    out.append(f'let {lname(x)} : {tys[i]} := {proj("out", i)}')
                    env[x] = V(lname(x), env[x].ty)
        text = '\n'.join(out)
        cont = self.block(rest, env, k, ctx)
        if rets:
            i = [x for x, _ in slots].index('@ret')
            call = self.rec['call'](env, [f'a.{j + 1}' if j < len(rec_args) - 1 or len(rec_args) == 1 else f'a.{j + 1}' for j in range(len(rec_args))])
            return text + f'\nmatch {proj("out", i)} with\n| some a => {call}\n| none =>\n{ind(cont)}'
        return text + '\n' + cont


# ---------------------------------------------------------------------------------------------------------------------
# the methods

HDR_OBJ = '(obj : Local.Obj α Msg σ)'
HDR_LOSS = '(lossgrad : CliqueVec α → α × CliqueVec α)'
HDR_CB = '(callback : Option (CliqueVec α → κ → κ))'
PY = 'Local.Py'


def method(cls, name, args, defaults=None):
    fn = next((f for f in cls.body if isinstance(f, ast.FunctionDef) and f.name == name), None) or fail('class LocalInference', f'method {name} not found')
    a = fn.args
    if [x.arg for x in a.args] != args or a.vararg or a.kwarg or a.kwonlyargs or a.posonlyargs or fn.decorator_list:
        fail(fn, f'signature changed: {[x.arg for x in a.args]}')
    ds = dict(zip(args[len(args) - len(a.defaults):], a.defaults))
    if set(ds) != set(defaults or {}):
        fail(fn, f'the parameters with defaults are no longer {sorted(defaults or {})}')
    for p, want in (defaults or {}).items():
        d = ds.get(p)
        if want == {}:
            if not (isinstance(d, ast.Dict) and not d.keys):
                fail(fn, f'the default of `{p}` is no longer {{}}')
        elif want is not Ellipsis and not (isinstance(d, ast.Constant) and d.value == want and type(d.value) is type(want)):
            fail(fn, f'the default of `{p}` is no longer {want!r}')
    return fn, ds


def bind_call(c, params, defaults, node):
    """positional / keyword arguments of a call -> {parameter: expression}"""
    out = {}
    if len(c.args) > len(params):
        fail(node, 'too many arguments')
    for p, a in zip(params, c.args):
        if isinstance(a, ast.Starred):
            fail(node, 'starred argument')
        out[p] = a
    for kw in c.keywords:
        if kw.arg is None:
            fail(node, '** argument')
        if kw.arg not in params or kw.arg in out:
            fail(node, f'unexpected keyword argument `{kw.arg}`')
        out[kw.arg] = kw.value
    for p in params:
        if p not in out:
            if p not in defaults:
                fail(node, f'missing argument `{p}`')
            out[p] = defaults[p]
    return out


def py_failures(ty):
    return f'| {PY}.unbound => {PY}.unbound\n| {PY}.recursion => {PY}.recursion\n| {PY}.attrError => {PY}.attrError'


def tr_mda(cls):
    fn, ds = method(cls, 'mirror_descent_auto', ['self', 'alpha', 'iters', 'callback'], {'callback': None})
    params = ['alpha', 'iters', 'callback']
    rt = f'{PY} (α × CliqueVec α × CliqueVec α × σ × κ)'

    def rec_bind(c):
        b = bind_call(c, params, ds, c)
        if not (isinstance(b['callback'], ast.Name) and b['callback'].id == 'callback'):
            fail(c, 'the recursive call must pass `callback` on unchanged')
        return [b['alpha'], b['iters']]
    rec = {'pyname': 'mirror_descent_auto', 'argtys': ['scalar', 'nat'], 'bind': rec_bind,
           'call': lambda env, a: f'mirrorDescentAuto obj lossgrad callback fuel {env["model"].t} {env["world"].t} a.1 a.2'}
    tr = Tr('mirrorDescentAuto', fn, {}, rt, rec)
    tr.header = f'{HDR_OBJ} {HDR_LOSS} {HDR_CB}'
    tr.header_args = 'obj lossgrad callback'
    env = {'alpha': V('alpha', 'scalar'), 'iters': V('iters', 'nat'), 'callback': V('callback', 'optcb'), 'model': V('model', 'obj'),
           'world': V('world', 'world'), '@selfmodel': True}

    def ret(st, e):
        v = st.value
        if not (isinstance(v, ast.Tuple) and len(v.elts) == 3 and all(isinstance(x, ast.Name) for x in v.elts)):
            fail(st, '`mirror_descent_auto` must return a triple of variables')
        names = [x.id for x in v.elts]

        def body(e2):
            l, th, mu = tr.typed(v.elts[0], e2, 'scalar'), tr.typed(v.elts[1], e2, 'cv'), tr.typed(v.elts[2], e2, 'cv')
            return f'{PY}.ok ({l.t}, {th.t}, {mu.t}, {e2["model"].t}, {e2["world"].t})'
        return tr.unwrap_maybe(names, e, body)
    body = tr.block(fn.body, env, lambda e: fail(fn, 'the method ends without `return`'), {'ret': ret})
    text = '\n'.join(tr.loops)
    text += (f'/-- `mirror_descent_auto` ({FILE}:{fn.lineno}); `fuel` activations fit on the interpreter stack -/\n'
             f'def mirrorDescentAuto {tr.header} : Nat → σ → κ → α → Nat → {rt}\n'
             f'  | 0, _, _, _, _ => {PY}.recursion\n  | fuel + 1, model, world, alpha, iters =>\n{ind(body, 4)}\n')
    return text, params, ds


def tr_md(cls, mda_params, mda_defaults):
    fn, ds = method(cls, 'mirror_descent', ['self', 'measurements', 'total', 'initial_alpha', 'callback'],
                    {'total': None, 'initial_alpha': Ellipsis, 'callback': None})
    rt = f'{PY} (α × σ × κ)'
    tr = Tr('mirrorDescent', fn, {'self.iters': 'iters'}, rt)
    tr.header, tr.header_args = f'{HDR_OBJ} {HDR_LOSS}', 'obj lossgrad'
    env = {'initial_alpha': V('initial_alpha', 'scalar'), 'iters': V('iters', 'nat'), 'callback': V('callback', 'optcb'),
           'model': V('model', 'obj'), 'world': V('world', 'world'), '@selfmodel': True,
           'measurements': V(None, 'opaque'), 'total': V(None, 'opaque')}
    seen = {'setup': False}

    def call_setup(st, tgt, rest, e, k, ctx):
        if tgt is not None or ast.unparse(st.value) != 'self._setup(measurements, total)' or seen['setup']:
            fail(st, 'expected the statement `self._setup(measurements, total)` once')
        if st is not [s for s in fn.body if not is_doc(s)][0]:
            fail(st, '`self._setup(...)` must be the first statement (its product `self.model` is the parameter `model`)')
        seen['setup'] = True
        return tr.block(rest, e, k, ctx)

    def call_mda(st, tgt, rest, e, k, ctx):
        if tgt is None or len(tgt.elts) != 3 or not all(isinstance(x, ast.Name) for x in tgt.elts):
            fail(st, 'the result of `mirror_descent_auto` must be bound to three variables')
        if not seen['setup']:
            fail(st, '`mirror_descent_auto` is called before `_setup`')
        b = bind_call(st.value, mda_params, mda_defaults, st)
        a, it = tr.typed(b['alpha'], e, 'scalar', 'lit'), tr.expr(b['iters'], e)
        cb = tr.expr(b['callback'], e)
        cbt = '(none : Option (CliqueVec α → κ → κ))' if cb.ty == 'none' else cb.t if cb.ty == 'optcb' else fail(st, 'callback argument')
        e = dict(e)
        names = [x.id for x in tgt.elts]
        lets = []
        for i, (x, ty) in enumerate(zip(names, ('scalar', 'cv', 'cv'))):
            if x != '_':
                e[x] = V(lname(x, st), ty)
                lets.append(f'let {lname(x, st)} : {LEANTY[ty]} := r{".2" * i}.1')
        lets += ['let model : σ := r.2.2.2.1', 'let world : κ := r.2.2.2.2']
        e['model'], e['world'] = V('model', 'obj'), V('world', 'world')
        inner = '\n'.join(lets + [tr.block(rest, e, k, ctx)])
        return (f'match mirrorDescentAuto obj lossgrad {cbt} fuel {tr.lookup("model", e, st).t} {tr.lookup("world", e, st).t} '
                f'{tr.scalar(a, st)} {tr.nat(it, st)} with\n| {PY}.ok r =>\n{ind(inner)}\n{py_failures(rt)}')

    def ret(st, e):
        if st.value is None:
            fail(st, '`mirror_descent` must return the loss')
        return f'{PY}.ok ({tr.typed(st.value, e, "scalar").t}, {e["model"].t}, {e["world"].t})'
    body = tr.block(fn.body, env, lambda e: fail(fn, 'the method ends without `return`'),
                    {'ret': ret, 'calls': {'self._setup': call_setup, 'self.mirror_descent_auto': call_mda}})
    d = ds['initial_alpha']
    if not (isinstance(d, ast.Constant) and isinstance(d.value, (int, float)) and not isinstance(d.value, bool)):
        fail(fn, 'the default of `initial_alpha` is not a number')
    text = (f'/-- the default `initial_alpha={ast.unparse(d)}` of `mirror_descent` -/\n'
            f'def mirrorDescent_initial_alpha : α := {enc_lit(Fraction(repr(d.value)), d)}\n\n'
            f'/-- `mirror_descent` ({FILE}:{fn.lineno}) after `self._setup(...)`, whose product `self.model` is `model` -/\n'
            f'def mirrorDescent {tr.header} (fuel : Nat) (model : σ) (world : κ) (initial_alpha : α) (iters : Nat) {HDR_CB} : {rt} :=\n{ind(body)}\n')
    return text


def tr_estimate(cls):
    fn, ds = method(cls, 'estimate', ['self', 'measurements', 'total', 'callback', 'options'], {'total': None, 'callback': None, 'options': {}})
    rt = f'{PY} (σ × κ)'
    tr = Tr('estimate', fn, {'self.log': 'log', 'self.iters': 'iters'}, rt)
    tr.header, tr.header_args = f'{HDR_OBJ} {HDR_LOSS}', 'obj lossgrad'
    orig_targets = tr.targets_of

    def targets_of(n):
        out = orig_targets(n)
        if isinstance(n, ast.Assign):
            for t in n.targets:
                if ast.unparse(t) == "options['callback']":
                    out.append('options_callback')
        return out
    tr.targets_of = targets_of
    tr.order['options_callback'] = (0, 0)
    env = {'callback': V('callback', 'optcb'), 'log': V('log', 'bool'), 'iters': V('iters', 'nat'), 'logger': V('logger', 'cbf'),
           'model': V('model', 'obj'), 'world': V('world', 'world'), '@selfmodel': True}

    def dict_store(t, st, e, lets):
        if ast.unparse(t) != "options['callback']":
            fail(st, 'unsupported store (only `options[\'callback\'] = ...`)')
        v = tr.expr(st.value, e)
        if v.ty != 'optcb':
            fail(st, f'`options[\'callback\']` is set to a {v.ty}')
        tr.bind(e, 'options_callback', v, lets, st)

    def call_md(st, tgt, rest, e, k, ctx):
        c = st.value
        if tgt is not None or [ast.unparse(a) for a in c.args] != ['measurements', 'total'] or len(c.keywords) != 1 \
                or c.keywords[0].arg is not None or ast.unparse(c.keywords[0].value) != 'options':
            fail(st, 'expected `self.mirror_descent(measurements, total, **options)`')
        cb = tr.lookup('options_callback', e, st)        # KeyError-free: the key has been stored
        e = dict(e)
        inner = '\n'.join(['let model : σ := r.2.1', 'let world : κ := r.2.2', tr.block(rest, e, k, ctx)])
        return (f'match mirrorDescent obj lossgrad fuel {tr.lookup("model", e, st).t} {tr.lookup("world", e, st).t} '
                f'(options_initial_alpha.getD mirrorDescent_initial_alpha) iters {cb.t} with\n| {PY}.ok r =>\n{ind(inner)}\n{py_failures(rt)}')

    def ret(st, e):
        if st.value is None or tr.is_obj(st.value, e) is None:
            fail(st, '`estimate` must return `self.model`')
        return f'{PY}.ok ({e["model"].t}, {e["world"].t})'
    body = tr.block(fn.body, env, lambda e: fail(fn, 'the method ends without `return`'),
                    {'ret': ret, 'calls': {'self.mirror_descent': call_md}, 'dict_store': dict_store})
    return (f'/-- `estimate` ({FILE}:{fn.lineno}); `options` may hold `initial_alpha` (`options_initial_alpha`; any other key but\n'
            f'`callback`, which is overwritten, is a `TypeError` of `mirror_descent`); `logger` is `callbacks.Logger(self)`;\n'
            f'`model` is `self.model` as the `_setup` inside `mirror_descent` builds it -/\n'
            f'def estimate {tr.header} (fuel : Nat) (model : σ) (world : κ) (options_initial_alpha : Option α) (iters : Nat) {HDR_CB} (log : Bool)\n'
            f'    (logger : CliqueVec α → κ → κ) : {rt} :=\n{ind(body)}\n')


SETUP_ATTRS = {'self.structural_zeros': 'zeros', 'self.marginal_oracle': 'marginal_oracle', 'self.domain': 'domain',
               'self.inner_iters': 'inner_iters', 'self.warm_start': 'warm_start'}


class SetupTr(Tr):
    """`self.model` inside `_setup` before `self.model = model` is the model of an EARLIER call (`prev`, if any)"""

    def block(self, stmts, env, k, ctx):
        live = [s for s in stmts if not is_doc(s) and not isinstance(s, ast.Pass) and not is_print(s)]
        if live and 'prev' in env and env['prev'].ty == 'optobj' and not isinstance(live[0], (ast.If, ast.For)):
            if any(isinstance(x, ast.Attribute) and ast.unparse(x.value) == 'self.model' for x in ast.walk(live[0])):
                env = dict(env)
                p = env['prev']
                env['prev'] = V('old', 'obj')
                inner = Tr.block(self, live, env, k, ctx)
                # `self.model.<attr>` when the attribute `model` does not exist: AttributeError
                return f'match {p.t} with\n| some old =>\n{ind(inner)}\n| none => {PY}.attrError'
        return Tr.block(self, stmts, env, k, ctx)


def tr_setup(cls):
    fn, _ = method(cls, '_setup', ['self', 'measurements', 'total'])
    body = [s for s in fn.body if not is_doc(s)]
    if not body or not (isinstance(body[0], ast.If) and ast.unparse(body[0].test) == 'total is None' and not body[0].orelse):
        fail(fn, '`_setup` must start with the total estimate `if total is None:` (translated by tools/py2total.py)')
    body = body[1:]
    src = [ast.unparse(s) for s in body]
    i_chain = next((i for i, s in enumerate(body) if isinstance(s, ast.If) and 'self.marginal_oracle ==' in ast.unparse(s.test)), None)
    i_pot = next((i for i, s in enumerate(body) if isinstance(s, ast.If) and ast.unparse(s.test).startswith('type(')), None)
    i_store = next((i for i, s in enumerate(src) if s == 'self.model = model'), None)
    i_groups = next((i for i, s in enumerate(body) if isinstance(s, ast.Assign) and ast.unparse(s.targets[0]) == 'self.groups'), None)
    if None in (i_chain, i_pot, i_store, i_groups) or not (0 < i_chain and i_pot == i_chain + 1 and i_store == i_pot + 1 and i_groups == i_store + 2):
        fail(fn, 'the shape of `_setup` changed: expected clique list; oracle selection `if self.marginal_oracle == ...`; '
                 '`if type(self.marginal_oracle) is str:`; `self.model = model`; `cliques = self.model.cliques`; `self.groups = ...`; grouping loop')
    if src[i_store + 1] != 'cliques = self.model.cliques':
        fail(body[i_store + 1], 'expected `cliques = self.model.cliques`')
    out = []
    # 1. the clique list
    tr = SetupTr('setupCliques', fn, SETUP_ATTRS, 'List JT.Clique')
    env = {'measurements': V('measurements', 'measlist'), 'zeros': V('zeros', 'cv')}

    def k1(e):
        return tr.typed(ast.Name('cliques', ast.Load()), e, 'cliques').t
    t = tr.block(body[:i_chain], env, k1, {'ret': lambda st, e: fail(st, 'return in `_setup`')})
    out.append(f'/-- `_setup` ({FILE}:{body[0].lineno}-{body[i_chain - 1].end_lineno}): the cliques handed to the oracle -/\n'
               f'def setupCliques (measurements : List (Loss.Meas α)) (zeros : CliqueVec α) : List JT.Clique :=\n{ind(t)}\n')
    # 2. the oracle
    tr = SetupTr('setupModel', fn, SETUP_ATTRS, f'{PY} σ')
    env = {'cliques': V('cliques', 'cliques'), 'total': V('total', 'scalar'), 'domain': V('domain', 'dom'),
           'marginal_oracle': V('marginal_oracle', 'sel'), 'inner_iters': V('inner_iters', 'nat')}

    def k2(e):
        if 'model' not in e or e['model'].ty != 'obj':
            fail(body[i_chain], 'a branch of the oracle selection leaves `model` without an oracle object')
        return f'{PY}.ok {e["model"].t}'
    t = tr.block([body[i_chain]], env, k2, {'ret': lambda st, e: fail(st, 'return in `_setup`')})
    out.append(f'/-- `_setup` ({FILE}:{body[i_chain].lineno}-{body[i_chain].end_lineno}): the oracle object; `mk` holds the constructors -/\n'
               f'def setupModel (mk : Local.Ctor α σ) {HDR_OBJ} (domain : Dom) (marginal_oracle : Local.Sel σ) (cliques : List JT.Clique) (total : α)\n'
               f'    (inner_iters : Nat) : {PY} σ :=\n{ind(t)}\n')
    # 3. its potentials
    tr = SetupTr('setupPotentials', fn, SETUP_ATTRS, f'{PY} σ')
    env = {'model': V('model', 'obj'), 'domain': V('domain', 'dom'), 'zeros': V('zeros', 'cv'), 'marginal_oracle': V('marginal_oracle', 'sel'),
           'warm_start': V('warm_start', 'bool'), 'prev': V('prev', 'optobj')}
    t = tr.block([body[i_pot]], env, lambda e: f'{PY}.ok {e["model"].t}',
                 {'ret': lambda st, e: fail(st, 'return in `_setup`'), 'selfmodel_store': True})
    out.append(f'/-- `_setup` ({FILE}:{body[i_pot].lineno}-{body[i_store].end_lineno}): the potentials of an oracle built by name; `prev` is\n'
               f'`self.model` as an earlier call left it (`none`: no such attribute) -/\n'
               f'def setupPotentials {HDR_OBJ} (domain : Dom) (zeros : CliqueVec α) (warm_start : Bool) (prev : Option σ)\n'
               f'    (marginal_oracle : Local.Sel σ) (model : σ) : {PY} σ :=\n{ind(t)}\n')
    return out, fn, body[i_store + 1:]


def via_py2inf(cls, fn_setup, group_stmts):
    """the grouping loop and `_marginal_loss`, textually the code of inference.py: translated by the statement translator of py2inf"""
    out = []
    base_consts = {'self.backend': 'numpy', 'callback': None}
    try:
        tr = INF.Tr(fn_setup, base_consts, INF.SELF_ATTRS)
        env = {'measurements': INF.V('measurements', 'measlist'), 'model': INF.V(None, 'model')}
        body = tr.block(group_stmts, env, {'self.groups'}, lambda e: e['self.groups'].t,
                        INF.Ctx(lambda v, e: INF.fail(fn_setup, 'return in the grouping part of _setup')))
        order = lambda used, extra=(): [p for p in INF.PARAM_ORDER if p in used or p in extra]
        gp = order(tr.used, ['measurements'])
        if gp != ['domain', 'cliques', 'measurements']:
            INF.fail(fn_setup, f'the grouping loop reads {gp}, expected domain, cliques, measurements')
        out.append(INF.emit('setupGroups', f'`self.groups` as the grouping loop of `_setup` leaves it ({FILE}:{group_stmts[0].lineno}-{fn_setup.body[-1].end_lineno}); '
                            '`domain` / `cliques` are `model.domain` / `model.cliques`', gp, INF.LEANTY['groups'], body))
        fn, _ = method(cls, '_marginal_loss', ['self', 'marginals', 'metric'], {'metric': None})
        for metric, lean in (('L2', 'marginalLossL2'), ('L1', 'marginalLossL1')):
            consts = dict(base_consts)
            consts.update({'metric': None, 'self.metric': metric})
            tr = INF.Tr(fn, consts, INF.SELF_ATTRS)
            env = {'marginals': INF.V('marginals', 'cv'), 'self.groups': INF.V('groups', 'groups')}

            def ret(v, e, tr=tr):
                if v is None:
                    INF.fail(fn, 'no return value')
                r = tr.expr(v, e)
                if r.ty != 'pair':
                    INF.fail(v, f'`_marginal_loss` returns {r.ty}')
                return r.t
            stmts = list(fn.body)
            pre = [s for s in stmts if isinstance(s, ast.If) and ast.unparse(s.test) == 'metric is None']
            if len(pre) != 1 or [ast.unparse(x) for x in pre[0].body] != ['metric = self.metric'] or pre[0].orelse:
                INF.fail(fn, 'expected `if metric is None: metric = self.metric`')
            stmts.remove(pre[0])
            tr.consts['metric'] = metric
            body = tr.block(stmts, env, set(), lambda e: INF.fail(fn, 'no return value'), INF.Ctx(ret))
            body = f'let groups := setupGroups {" ".join(gp)}\n' + body
            out.append(INF.emit(lean, f"`_marginal_loss` ({FILE}:{fn.lineno}) with metric '{metric}'; `self.groups` is `setupGroups`",
                                order(tr.used, gp + ['marginals']), INF.LEANTY['pair'], body))
    except INF.Untranslatable as e:
        raise Untranslatable(str(e).replace('inference.py line ', f'{FILE}:'))
    return out


def check_sources(repo):
    """facts about other files the reading relies on"""
    def cls_of(path, name):
        tree = ast.parse(open(os.path.join(repo, 'src', 'mbi', path)).read())
        return next((n for n in tree.body if isinstance(n, ast.ClassDef) and n.name == name), None) or fail(path, f'class {name} not found')
    for path, name in (('region_graph.py', 'RegionGraph'), ('factor_graph.py', 'FactorGraph')):
        c = cls_of(path, name)
        pf = next((f for f in c.body if isinstance(f, ast.FunctionDef) and f.name == 'primal_feasibility'), None) or fail(path, 'primal_feasibility not found')
        if [a.arg for a in pf.args.args] != ['self', 'mu']:
            fail(path, 'primal_feasibility is no longer `primal_feasibility(self, mu)`')
        reads = {n.attr for n in ast.walk(pf) if isinstance(n, ast.Attribute) and isinstance(n.value, ast.Name) and n.value.id == 'self'}
        if not reads <= {'cliques', 'children'}:
            fail(path, f'primal_feasibility reads {sorted(reads)}: more than the fixed structure (`obj.pf` is a function of `mu` alone)')
        for f in c.body:
            if isinstance(f, ast.FunctionDef) and f.name not in ('__init__', 'build_graph'):
                for n in ast.walk(f):
                    if isinstance(n, (ast.Assign, ast.AugAssign)):
                        for t in (n.targets if isinstance(n, ast.Assign) else [n.target]):
                            if isinstance(t, ast.Attribute) and isinstance(t.value, ast.Name) and t.value.id == 'self' and t.attr in ('cliques', 'children'):
                                fail(path, f'{f.name} assigns self.{t.attr}, which primal_feasibility reads')
        init = next(f for f in c.body if isinstance(f, ast.FunctionDef) and f.name == '__init__')
        names = [a.arg for a in init.args.args]
        if names[:4] != ['self', 'domain', 'cliques', 'total'] or 'convex' not in names or 'iters' not in names:
            fail(path, f'{name}.__init__ is no longer (domain, cliques, total, …, convex, iters)')
    fc = cls_of('factor.py', 'Factor')
    pr = next((f for f in fc.body if isinstance(f, ast.FunctionDef) and f.name == 'project'), None) or fail('factor.py', 'Factor.project not found')
    if [a.arg for a in pr.args.args] != ['self', 'attrs', 'agg'] or [ast.unparse(d) for d in pr.args.defaults] != ["'sum'"]:
        fail('factor.py', "Factor.project is no longer `project(self, attrs, agg='sum')`")


PRELUDE = '''/-- float `x > y` through the interface: `x - y > 0` (false on nan) -/
def gtG (x y : α) : Bool := Scalar.gt0 (Scalar.sub x y)

/-- `x > p` where `p` is a float or `np.inf` (`none`): no float exceeds `inf` -/
def gtInf (x : α) (p : Option α) : Bool :=
  match p with
  | none => false
  | some y => gtG x y

/-- `callback(mu)`: the callable acts on the world outside the estimator; calling `None` does not happen (guarded) -/
def cbApply {κ : Type} (cb : Option (CliqueVec α → κ → κ)) (mu : CliqueVec α) (w : κ) : κ :=
  match cb with
  | some f => f mu w
  | none => w

/-- `self.marginal_oracle == '<name>'` (an oracle object is not equal to a string) -/
def selEq {σ : Type} (s : Local.Sel σ) (name : String) : Bool :=
  match s with
  | Local.Sel.name n => n == name
  | Local.Sel.object _ => false

/-- `type(self.marginal_oracle) is str` -/
def selIsStr {σ : Type} (s : Local.Sel σ) : Bool :=
  match s with
  | Local.Sel.name _ => true
  | Local.Sel.object _ => false
'''

HEADER = '''/- GENERATED by tools/py2local.py from src/mbi/local_inference.py — do not edit
   Statement-level translation of `class LocalInference` (numpy backend): `mirror_descent_auto`, `mirror_descent`,
   `estimate`, `_marginal_loss` (metric 'L2' / 'L1') and `_setup` from the clique list on (the total estimate is in
   TotalG.lean).  The oracle object is `obj : Local.Obj α Msg σ` with state `model : σ`; a callback acts on `world : κ`;
   `lossgrad` is `self._marginal_loss`; a Python exception is an outcome of `Local.Py`.
   Not translated: the torch backend, callable metrics, `__init__`.  `Q.shape[1]` is read as `self.domain.size(proj)`
   (a well-formed measurement; LocalInference has no `fix_measurements`). -/
import PGM.Model.LocalPy
set_option linter.unusedVariables false
namespace PGM.LocalG
open PGM
variable {α : Type} [Scalar α] {Msg σ κ : Type}

'''


def translate(repo):
    src = open(os.path.join(repo, 'src', 'mbi', FILE)).read()
    tree = ast.parse(src)
    cls = next((n for n in tree.body if isinstance(n, ast.ClassDef) and n.name == 'LocalInference'), None) or fail(FILE, 'class LocalInference not found')
    check_sources(repo)
    init, _ = method(cls, '__init__', ['self', 'domain', 'backend', 'structural_zeros', 'metric', 'log', 'iters', 'warm_start', 'marginal_oracle', 'inner_iters'],
                     {'backend': 'numpy', 'structural_zeros': {}, 'metric': 'L2', 'log': False, 'iters': 1000, 'warm_start': False,
                      'marginal_oracle': 'convex', 'inner_iters': 1})
    stores = [ast.unparse(s) for s in init.body]
    for want in ('self.structural_zeros = CliqueVector({})', 'self.backend = backend', 'self.iters = iters', 'self.marginal_oracle = marginal_oracle',
                 'self.inner_iters = inner_iters', 'self.warm_start = warm_start', 'self.log = log', 'self.metric = metric', 'self.domain = domain'):
        if want not in stores:
            fail(init, f'`__init__` no longer has `{want}`')
    defs = []
    mda, mda_params, mda_defaults = tr_mda(cls)
    defs.append(mda)
    defs.append(tr_md(cls, mda_params, mda_defaults))
    defs.append(tr_estimate(cls))
    setup_defs, fn_setup, group_stmts = tr_setup(cls)
    defs += setup_defs
    defs += via_py2inf(cls, fn_setup, group_stmts)
    return defs


def main():
    ap = argparse.ArgumentParser()
    ap.add_argument('--repo', default='/repo')
    ap.add_argument('--out', required=True)
    a = ap.parse_args()
    try:
        defs = translate(a.repo)
    except Untranslatable as e:
        print('py2local: source outside the translatable subset:', e)
        return 1
    except (OSError, SyntaxError) as e:
        print('py2local: source outside the translatable subset:', f'cannot read/parse the source: {e}')
        return 1
    os.makedirs(a.out, exist_ok=True)
    inf_prelude = '\n'.join(INF.PRELUDE.split('\n\n')[:2]) + '\n'      # dset, dgetD
    with open(os.path.join(a.out, 'LocalG.lean'), 'w') as f:
        f.write(HEADER + PRELUDE + '\n' + inf_prelude + '\n' + '\n'.join(defs) + '\nend PGM.LocalG\n')
    print(f'py2local: {sum(d.count(chr(10) + "def ") + d.startswith("def ") + d.startswith("/--") * 0 for d in defs)} definitions')
    return 0


if __name__ == '__main__':
    sys.exit(main())
