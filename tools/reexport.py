#!/usr/bin/env python3
"""tools/reexport.py <lean source> <source namespace> name[=newname] ...
Prints `theorem newname <binders> : <statement> := Ns.name <explicit binder names>` for each named theorem, so that a Properties file can
restate (not merely alias) the theorems proved in PGM/Proofs: the statement text is visible in the property file and re-checked by Lean."""
import re, sys


def grab(src, name):
    m = re.search(r'^(/--(?:(?!-/).)*-/\s*)?theorem\s+' + re.escape(name) + r'(?![\w\'.])', src, re.M | re.S)
    if not m:
        raise SystemExit(f'theorem {name} not found')
    doc = m.group(1) or ''
    i = m.end()
    # signature runs to the first top-level ":=" (depth 0 w.r.t. brackets)
    depth, j = 0, i
    while j < len(src):
        ch = src[j]
        if ch in '([{⟨':
            depth += 1
        elif ch in ')]}⟩':
            depth -= 1
        elif depth == 0 and src.startswith(':=', j):
            line = src[src.rfind('\n', 0, j) + 1:j]
            if not re.search(r'\blet\s+\S+\s*(:[^=]*)?$', line):
                break
        j += 1
    sig = src[i:j].rstrip()
    # binders: top-level bracket groups before the top-level ':'
    depth, k, groups, start = 0, 0, [], None
    colon = None
    while k < len(sig):
        ch = sig[k]
        if ch in '([{':
            if depth == 0:
                start = k
            depth += 1
        elif ch in ')]}':
            depth -= 1
            if depth == 0:
                groups.append(sig[start:k + 1])
        elif depth == 0 and ch == ':' and not sig.startswith(':=', k):
            colon = k
            break
        k += 1
    args = []
    for g in groups:
        if g[0] != '(':
            continue
        names = g[1:g.index(':')].split()
        args += names
    return doc, sig, args


def main():
    path, ns = sys.argv[1], sys.argv[2]
    src = open(path).read()
    for spec in sys.argv[3:]:
        name, _, new = spec.partition('=')
        new = new or name
        doc, sig, args = grab(src, name)
        print(f'{doc}theorem {new}{sig} :=\n  {ns}.{name} ' + ' '.join(args) + '\n')


if __name__ == '__main__':
    main()
