#!/usr/bin/env python3
"""trial edits for tools/py2mstdom.py: apply one-line semantic edits of mechanisms/mst.py in a scratch copy of the
source tree, regenerate MstDomG.lean from it and build PGM.Properties.C06D against it; every semantic edit must stop the
translator or break a named gen_* theorem.  Usage: trial_py2mstdom.py [scratch_repo]   (run from the verification tree)"""
import os, re, shutil, subprocess, sys

VERIF = os.path.dirname(os.path.dirname(os.path.abspath(__file__)))
SCRATCH = sys.argv[1] if len(sys.argv) > 1 else '/root/work/py2mstdom_repo'
GEN = os.path.join(VERIF, 'lean', 'PGM', 'Generated')

EDITS = [  # (label, kind, old, new)   kind: S = semantic, H = harmless
    ('support test > instead of >=', 'S', 'sup = y >= 3*sigma', 'sup = y > 3*sigma'),
    ('threshold 2*sigma', 'S', 'sup = y >= 3*sigma', 'sup = y >= 2*sigma'),
    ('extra bucket added when nothing is merged', 'S', 'if size < support.size:', 'if size <= support.size:'),
    ('extra bucket of width 2', 'S', 'newdom[col] += 1', 'newdom[col] += 2'),
    ('idx starts at 1', 'S', '        idx = 0\n', '        idx = 1\n'),
    ('idx not advanced', 'S', '                idx += 1', '                idx += 0'),
    ('unsupported values coded idx instead of size', 'S', 'mapping[i] = size', 'mapping[i] = idx'),
    ('supported values coded by their own index', 'S', 'mapping[i] = idx', 'mapping[i] = i'),
    ('inner loop one short', 'S', 'for i in range(support.size):', 'for i in range(support.size - 1):'),
    ('reverse: lookup in the wrong array', 'S', 'idx[df.loc[~mask, col]]', 'extra[df.loc[~mask, col]]'),
    ('reverse: fill drawn from the supported values', 'S', 'np.random.choice(extra, mask.sum())', 'np.random.choice(idx, mask.sum())'),
    ('reverse: merged bucket taken to be code size', 'S', '        mx = support.sum()', '        mx = support.size'),
    ('reverse: sizes stay compressed', 'S', 'newdom[col] = int(support.size)', 'newdom[col] = int(mx)'),
    ('reverse: fully merged attribute dropped from the domain', 'S', '        newdom[col] = int(support.size)', '        if mx > 0: newdom[col] = int(support.size)'),
    ('reverse: guard on the wrong array', 'S', 'if extra.size == 0:', 'if idx.size == 0:'),
    ('reverse: second .loc also on mask', 'S', 'df.loc[~mask, col] = idx[df.loc[~mask, col]]', 'df.loc[mask, col] = idx[df.loc[mask, col]]'),
    ('compress: kept / merged answers swapped', 'S', 'np.append(y[sup], y[~sup].sum())', 'np.append(y[~sup], y[sup].sum())'),
    ('compress: weight constant', 'S', 'I2[-1] = 1.0 / np.sqrt(y.size - y2.size + 1.0)', 'I2[-1] = 1.0 / np.sqrt(y.size - y2.size + 2.0)'),
    ('compress: pass-through test off by one', 'S', 'if supports[col].sum() == y.size:', 'if supports[col].sum() >= y.size - 1:'),
    ('compress: undo does nothing', 'S', 'lambda data: reverse_data(data, supports)', 'lambda data: data'),
    ('compress: data not transformed', 'S', 'return transform_data(data, supports), new_measurements', 'return data, new_measurements'),
    ('MST: undo not applied', 'S', 'return undo_compress_fn(synth)', 'return synth'),
    ('MST: engine built on the original domain', 'S', '    data, log1, undo_compress_fn = compress_domain(data, log1)', '    data2, log1, undo_compress_fn = compress_domain(data, log1)'),
    ('transform: not (outside the subset)', 'S', 'if support[i]:', 'if not support[i]:'),
    ('dataset.py: constructor keeps all columns', 'D', 'self.df = df.loc[:,domain.attrs]', 'self.df = df'),
    ('rename local sup -> keep', 'H', None, None),
    ('rename local mx -> top', 'H', None, None),
    ('reorder mapping = {} / idx = 0', 'H', '        mapping = {}\n        idx = 0\n', '        idx = 0\n        mapping = {}\n'),
    ('size < support.size written support.size > size', 'H', 'if size < support.size:', 'if support.size > size:'),
    ('reverse: the two .loc assignments in the other order (masks disjoint)', 'H',
     "        if extra.size == 0:\n            pass\n        else:\n            df.loc[mask, col] = np.random.choice(extra, mask.sum())\n        df.loc[~mask, col] = idx[df.loc[~mask, col]]\n",
     "        df.loc[~mask, col] = idx[df.loc[~mask, col]]\n        if extra.size == 0:\n            pass\n        else:\n            df.loc[mask, col] = np.random.choice(extra, mask.sum())\n"),
]
PATCHES = ['C06-m3-mst-support-keeps-true-mode', 'C06-m5-mst-fully-merged-attribute-dropped']


def fresh():
    shutil.rmtree(SCRATCH, ignore_errors=True)
    os.makedirs(SCRATCH)
    for d in ('src', 'mechanisms'):
        shutil.copytree(os.path.join('/repo', d), os.path.join(SCRATCH, d))


def outcome():
    r = subprocess.run(['/venv/bin/python', os.path.join(VERIF, 'tools', 'py2mstdom.py'), '--repo', SCRATCH, '--out', GEN],
                       capture_output=True, text=True)
    if r.returncode != 0:
        return 'translator stop: ' + r.stdout.strip().split('subset:')[-1].strip()[:150]
    b = subprocess.run(['lake', 'build', 'PGM.Properties.C06D'], cwd=os.path.join(VERIF, 'lean'), capture_output=True, text=True)
    if b.returncode == 0:
        return 'passed'
    out = b.stdout + b.stderr
    src = open(os.path.join(VERIF, 'lean', 'PGM', 'Properties', 'C06D.lean')).read().split('\n')
    names = []
    for m in re.finditer(r'error: (PGM/[A-Za-z0-9_/]+\.lean):(\d+):', out):
        if 'Generated' in m.group(1):
            names.append('generated file does not elaborate')
            continue
        ln = int(m.group(2))
        for k in range(ln - 1, -1, -1):
            mm = re.match(r'\s*(theorem|example|def)\s+([A-Za-z0-9_\'.]*)', src[k])
            if mm:
                names.append(mm.group(2) or 'example')
                break
    seen = []
    for n in names:
        if n not in seen:
            seen.append(n)
    return 'breaks ' + ', '.join(seen[:6])


def main():
    rows = []
    for label, kind, old, new in EDITS:
        fresh()
        p = os.path.join(SCRATCH, 'src/mbi/dataset.py' if kind == 'D' else 'mechanisms/mst.py')
        s = open(p).read()
        if old is None:
            a, b = re.search(r'(\w+) -> (\w+)', label).groups()
            s2 = re.sub(r'\b%s\b' % a, b, s)
        else:
            if s.count(old) < 1:
                rows.append((kind, label, 'EDIT DID NOT APPLY'))
                continue
            s2 = s.replace(old, new, 1)
        open(p, 'w').write(s2)
        rows.append((kind, label, outcome()))
        print(rows[-1], flush=True)
    for pt in PATCHES:
        fresh()
        r = subprocess.run(['patch', '-p1', '-s', '-i', os.path.join(VERIF, 'seeded', pt, 'patch.diff')], cwd=SCRATCH, capture_output=True, text=True)
        rows.append(('S', 'seeded ' + pt, outcome() if r.returncode == 0 else 'PATCH DID NOT APPLY ' + r.stdout[:100]))
        print(rows[-1], flush=True)
    # restore
    subprocess.run(['/venv/bin/python', os.path.join(VERIF, 'tools', 'py2mstdom.py'), '--repo', '/repo', '--out', GEN], capture_output=True)
    b = subprocess.run(['lake', 'build', 'PGM.Properties.C06D'], cwd=os.path.join(VERIF, 'lean'), capture_output=True, text=True)
    print('restored from /repo; build', 'ok' if b.returncode == 0 else 'FAILED')
    bad = [r for r in rows if (r[0] != 'H' and (r[2] == 'passed' or 'NOT APPLY' in r[2]))]
    print('semantic edits not caught:', bad)
    return 1 if bad else 0


if __name__ == '__main__':
    sys.exit(main())
