#!/usr/bin/env python3
"""tools/py2dom.py --repo R --out DIR

Translates `src/mbi/domain.py` (class Domain) into Lean definitions over `PGM.Dom`
(`PGM/Generated/DomainG.lean`, namespace `PGM.DomG`).  The property file `PGM/Properties/C15G.lean`
proves each generated definition equal to the hand-written model `PGM/Model/Domain.lean`, so the domain
laws of C15 are re-checked against what the source says now.

The translatable subset (anything else makes the translator fail loudly — a broken obligation):
  self.attrs / self.shape / self.config[a] / other.attrs …      attribute views of a domain value
  tuple(e) / list(e)                                             identity on lists
  [f(a) for a in xs if c] / generator expressions               filter + map
  a in xs, a not in xs, not c                                    membership
  xs.index(a)                                                    idxOf
  xs + ys                                                        list append
  set(xs) <= set(ys)                                             all-contained
  reduce(lambda x,y: x*y, xs, 1)                                 product fold
  sorted(xs, key=self.size) / sorted(xs)                         stable sort by size of one attribute / by name
  Domain(A, S)                                                   zip
  self.project(e) / other.marginalize(e) / x.size()             calls to the generated methods
Statements: local assignments, `return`, the guards `if type(attrs) is str: attrs = [attrs]` (string shorthand:
the model takes lists; exercised by the correspondence run), `if attrs == None:` (splits `size` into `size` /
`sizeOf`) and `if how == 'size' … elif how == 'name'` (splits `sort` into `sortSize` / `sortName`).
"""
import argparse, ast, os, sys


class Untranslatable(Exception):
    pass


DOMVARS = {'self': 'd', 'other': 'o'}
METHODS = {'project': 'project', 'marginalize': 'marginalize', 'size': None, 'transpose': 'transpose'}


def fail(node, why):
    raise Untranslatable(f'domain.py line {getattr(node, "lineno", "?")}: {why}: {ast.unparse(node) if isinstance(node, ast.AST) else node}')


class Tr:
    def __init__(self, env):
        self.env = dict(env)      # python local name -> (lean term, type)   types: 'dom' 'attrs' 'nats' 'attr' 'nat' 'bool'

    def dom(self, node):
        """a domain-valued expression -> lean term"""
        t, ty = self.expr(node)
        if ty != 'dom':
            fail(node, f'expected a domain, got {ty}')
        return t

    def expr(self, n):
        if isinstance(n, ast.Name):
            if n.id in DOMVARS:
                return DOMVARS[n.id], 'dom'
            if n.id in self.env:
                return self.env[n.id]
            fail(n, 'unknown name')
        if isinstance(n, ast.Constant) and isinstance(n.value, int) and not isinstance(n.value, bool):
            return str(n.value), 'nat'
        if isinstance(n, ast.Attribute):
            base = self.dom(n.value)
            if n.attr == 'attrs':
                return f'(Dom.attrs {base})', 'attrs'
            if n.attr == 'shape':
                return f'(Dom.shape {base})', 'nats'
            fail(n, 'unknown attribute')
        if isinstance(n, ast.Subscript):
            if isinstance(n.value, ast.Attribute) and n.value.attr == 'config':
                base = self.dom(n.value.value)
                k, kt = self.expr(n.slice)
                if kt != 'attr':
                    fail(n, 'config key must be an attribute')
                return f'(Dom.cfg {base} {k})', 'nat'
            fail(n, 'unsupported subscript')
        if isinstance(n, ast.Call):
            return self.call(n)
        if isinstance(n, (ast.ListComp, ast.GeneratorExp)):
            return self.comp(n)
        if isinstance(n, ast.List) and len(n.elts) == 1:
            t, ty = self.expr(n.elts[0])
            if ty == 'attr':
                return f'[{t}]', 'attrs'
            fail(n, 'unsupported list literal')
        if isinstance(n, ast.BinOp) and isinstance(n.op, ast.Add):
            a, ta = self.expr(n.left)
            b, tb = self.expr(n.right)
            if ta == tb and ta in ('attrs', 'nats'):
                return f'({a} ++ {b})', ta
            fail(n, 'unsupported +')
        if isinstance(n, ast.BinOp) and isinstance(n.op, ast.Mult):
            a, ta = self.expr(n.left)
            b, tb = self.expr(n.right)
            if ta == tb == 'nat':
                return f'({a} * {b})', 'nat'
            fail(n, 'unsupported *')
        if isinstance(n, ast.UnaryOp) and isinstance(n.op, ast.Not):
            a, ta = self.expr(n.operand)
            if ta == 'bool':
                return f'(!{a})', 'bool'
            fail(n, 'not of a non-boolean')
        if isinstance(n, ast.Compare) and len(n.ops) == 1:
            op, l, r = n.ops[0], n.left, n.comparators[0]
            if isinstance(op, (ast.In, ast.NotIn)):
                a, ta = self.expr(l)
                xs, tx = self.expr(r)
                if ta == 'attr' and tx == 'attrs':
                    t = f'({xs}.contains {a})'
                    return (t if isinstance(op, ast.In) else f'(!{t})'), 'bool'
                fail(n, 'unsupported membership')
            if isinstance(op, ast.LtE) and all(isinstance(x, ast.Call) and isinstance(x.func, ast.Name) and x.func.id == 'set' and len(x.args) == 1 for x in (l, r)):
                a, ta = self.expr(l.args[0])
                b, tb = self.expr(r.args[0])
                if ta == tb == 'attrs':
                    return f'({a}.all (fun x => {b}.contains x))', 'bool'
            fail(n, 'unsupported comparison')
        fail(n, 'unsupported expression')

    def comp(self, n):
        if len(n.generators) != 1 or n.generators[0].is_async or not isinstance(n.generators[0].target, ast.Name):
            fail(n, 'unsupported comprehension')
        g = n.generators[0]
        xs, tx = self.expr(g.iter)
        if tx != 'attrs':
            fail(n, 'comprehension must range over a list of attributes')
        v = g.target.id
        inner = Tr(self.env)
        inner.env[v] = (v, 'attr')
        src = xs
        for c in g.ifs:
            ct, cty = inner.expr(c)
            if cty != 'bool':
                fail(c, 'filter must be boolean')
            src = f'({src}.filter (fun {v} => {ct}))'
        et, ety = inner.expr(n.elt)
        if ety == 'attr' and et == v:
            return src, 'attrs'
        if ety == 'nat':
            return f'({src}.map (fun {v} => {et}))', 'nats'
        if ety == 'attr':
            return f'({src}.map (fun {v} => {et}))', 'attrs'
        fail(n, 'unsupported element type')

    def call(self, n):
        f = n.func
        if isinstance(f, ast.Name):
            if f.id in ('tuple', 'list') and len(n.args) == 1 and not n.keywords:
                return self.expr(n.args[0])
            if f.id == 'Domain' and len(n.args) == 2:
                a, ta = self.expr(n.args[0])
                s, ts = self.expr(n.args[1])
                if ta == 'attrs' and ts == 'nats':
                    return f'(List.zip {a} {s})', 'dom'
                fail(n, 'Domain(attrs, shape) expected')
            if f.id == 'reduce' and len(n.args) == 3 and isinstance(n.args[0], ast.Lambda):
                lam = n.args[0]
                if len(lam.args.args) == 2 and isinstance(lam.body, ast.BinOp) and isinstance(lam.body.op, ast.Mult) \
                        and {getattr(lam.body.left, 'id', None), getattr(lam.body.right, 'id', None)} == {a.arg for a in lam.args.args}:
                    xs, tx = self.expr(n.args[1])
                    init, ti = self.expr(n.args[2])
                    if tx == 'nats' and ti == 'nat':
                        return f'({xs}.foldl (fun x y => x * y) {init})', 'nat'
                fail(n, 'only reduce(lambda x,y: x*y, shape, 1) is supported')
            if f.id == 'sorted' and len(n.args) == 1:
                xs, tx = self.expr(n.args[0])
                if tx != 'attrs':
                    fail(n, 'sorted of a non-attribute list')
                if not n.keywords:
                    return f'({xs}.mergeSort (fun a b => decide (a ≤ b)))', 'attrs'
                if len(n.keywords) == 1 and n.keywords[0].arg == 'key':
                    k = n.keywords[0].value
                    if isinstance(k, ast.Attribute) and k.attr == 'size' and isinstance(k.value, ast.Name) and k.value.id in DOMVARS:
                        # key=self.size is called with ONE attribute name: size(attrs=a) = self.project(a).size(), the string shorthand of project
                        return f'(Dom.sortBy (fun a => sizeOf {DOMVARS[k.value.id]} [a]) {xs})', 'attrs'
                fail(n, 'unsupported sort key')
            fail(n, 'unsupported function')
        if isinstance(f, ast.Attribute):
            if f.attr == 'index' and len(n.args) == 1:
                xs, tx = self.expr(f.value)
                a, ta = self.expr(n.args[0])
                if tx == 'attrs' and ta == 'attr':
                    return f'({xs}.idxOf {a})', 'nat'
                fail(n, 'unsupported index')
            if f.attr in ('project', 'transpose', 'marginalize') and len(n.args) == 1:
                base = self.dom(f.value)
                a, ta = self.expr(n.args[0])
                if ta != 'attrs':
                    fail(n, 'argument must be a list of attributes')
                return f'({f.attr} {base} {a})', 'dom'
            if f.attr == 'size' and not n.args:
                return f'(size {self.dom(f.value)})', 'nat'
            fail(n, 'unsupported method call')
        fail(n, 'unsupported call')


def is_str_guard(st):
    """if type(attrs) is str: attrs = [attrs]"""
    return (isinstance(st, ast.If) and not st.orelse and isinstance(st.test, ast.Compare) and len(st.test.ops) == 1
            and isinstance(st.test.ops[0], ast.Is) and ast.unparse(st.test.comparators[0]) == 'str'
            and len(st.body) == 1 and isinstance(st.body[0], ast.Assign))


def body_to_term(stmts, env, node):
    """a straight-line body (assignments, then return) -> (lean term, type)"""
    tr = Tr(env)
    lets = []
    for st in stmts:
        if isinstance(st, ast.Expr) and isinstance(st.value, ast.Constant) and isinstance(st.value.value, str):
            continue    # docstring
        if is_str_guard(st):
            continue
        if isinstance(st, ast.Assign) and len(st.targets) == 1 and isinstance(st.targets[0], ast.Name):
            t, ty = tr.expr(st.value)
            name = st.targets[0].id
            lets.append(f'let {name} := {t}')
            tr.env[name] = (name, ty)
            continue
        if isinstance(st, ast.Return):
            t, ty = tr.expr(st.value)
            return '\n  '.join(lets + [t]), ty
        fail(st, 'unsupported statement')
    fail(node, 'no return')


LEANTY = {'dom': 'Dom', 'attrs': 'List Attr', 'nats': 'List Nat', 'nat': 'Nat', 'bool': 'Bool'}


def translate(src):
    tree = ast.parse(src)
    cls = next((n for n in tree.body if isinstance(n, ast.ClassDef) and n.name == 'Domain'), None)
    if cls is None:
        raise Untranslatable('class Domain not found')
    fns = {n.name: n for n in cls.body if isinstance(n, ast.FunctionDef)}
    out = []

    def emit(name, params, term, ty, doc):
        ps = ' '.join(f'({p} : {LEANTY[t]})' for p, t in params)
        out.append(f'/-- `Domain.{doc}` -/\ndef {name} {ps} : {LEANTY[ty]} :=\n  {term}\n')

    def simple(pyname, leanname, params, want):
        fn = fns.get(pyname) or fail(cls, f'method {pyname} not found')
        got = [a.arg for a in fn.args.args]
        if got != ['self'] + [p for p, _ in params]:
            fail(fn, f'signature changed: {got}')
        env = {p: (p, t) for p, t in params}
        term, ty = body_to_term(fn.body, env, fn)
        if ty != want:
            fail(fn, f'returns {ty}, expected {want}')
        emit(leanname, [('d', 'dom')] + [(DOMVARS.get(p, p), t) for p, t in params], term, ty, pyname)

    # size: `if attrs == None: return <prod>` then `return self.project(attrs).size()`
    fn = fns.get('size') or fail(cls, 'method size not found')
    body = [s for s in fn.body if not (isinstance(s, ast.Expr) and isinstance(s.value, ast.Constant))]
    if not (len(body) == 2 and isinstance(body[0], ast.If) and ast.unparse(body[0].test) in ('attrs == None', 'attrs is None') and not body[0].orelse
            and isinstance(body[1], ast.Return)):
        fail(fn, 'size: expected `if attrs == None: return …` followed by `return …`')
    t0, ty0 = body_to_term(body[0].body, {}, fn)
    if ty0 != 'nat':
        fail(fn, 'size() must be a number')
    emit('size', [('d', 'dom')], t0, 'nat', 'size()')
    simple('project', 'project', [('attrs', 'attrs')], 'dom')
    t1, ty1 = body_to_term([body[1]], {'attrs': ('attrs', 'attrs')}, fn)
    emit('sizeOf', [('d', 'dom'), ('attrs', 'attrs')], t1, 'nat', 'size(attrs)')
    simple('marginalize', 'marginalize', [('attrs', 'attrs')], 'dom')
    simple('transpose', 'transpose', [('attrs', 'attrs')], 'dom')
    simple('axes', 'axes', [('attrs', 'attrs')], 'nats')
    simple('invert', 'invert', [('attrs', 'attrs')], 'attrs')
    simple('canonical', 'canonical', [('attrs', 'attrs')], 'attrs')
    # merge / contains take another domain
    for pyname, want in (('merge', 'dom'), ('contains', 'bool')):
        fn = fns.get(pyname) or fail(cls, f'method {pyname} not found')
        if [a.arg for a in fn.args.args] != ['self', 'other']:
            fail(fn, 'signature changed')
        term, ty = body_to_term(fn.body, {}, fn)
        if ty != want:
            fail(fn, f'returns {ty}')
        emit(pyname, [('d', 'dom'), ('o', 'dom')], term, ty, pyname)
    # sort: if how == 'size': attrs = … elif how == 'name': attrs = … ; return self.project(attrs)
    fn = fns.get('sort') or fail(cls, 'method sort not found')
    body = [s for s in fn.body if not (isinstance(s, ast.Expr) and isinstance(s.value, ast.Constant))]
    if not (len(body) == 2 and isinstance(body[0], ast.If) and isinstance(body[1], ast.Return)):
        fail(fn, 'sort: unexpected shape')
    branches, node = {}, body[0]
    while True:
        key = ast.unparse(node.test)
        if not key.startswith('how == '):
            fail(node, 'sort: unexpected test')
        branches[ast.literal_eval(key[len('how == '):])] = node.body
        if len(node.orelse) == 1 and isinstance(node.orelse[0], ast.If):
            node = node.orelse[0]
        elif not node.orelse:
            break
        else:
            fail(node, 'sort: unexpected else')
    if set(branches) != {'size', 'name'}:
        fail(fn, f'sort: branches {sorted(branches)}')
    for how, lname in (('size', 'sortSize'), ('name', 'sortName')):
        term, ty = body_to_term(branches[how] + [body[1]], {}, fn)
        if ty != 'dom':
            fail(fn, 'sort must return a domain')
        emit(lname, [('d', 'dom')], term, 'dom', f"sort('{how}')")
    # __init__: attrs, shape, config = dict(zip(attrs, shape))
    init = fns.get('__init__') or fail(cls, '__init__ not found')
    assigns = {ast.unparse(s.targets[0]): ast.unparse(s.value) for s in init.body if isinstance(s, ast.Assign) and len(s.targets) == 1}
    want = {'self.attrs': 'tuple(attrs)', 'self.shape': 'tuple(shape)', 'self.config': 'dict(zip(attrs, shape))'}
    if assigns != want:
        fail(init, f'__init__ stores {assigns}, the model assumes {want}')
    return out


HEADER = '''/- GENERATED by tools/py2dom.py from src/mbi/domain.py — do not edit -/
import PGM.Model.Domain
set_option linter.unusedVariables false
namespace PGM.DomG
open PGM

'''


def main():
    ap = argparse.ArgumentParser()
    ap.add_argument('--repo', default='/repo')
    ap.add_argument('--out', required=True)
    a = ap.parse_args()
    src = open(os.path.join(a.repo, 'src', 'mbi', 'domain.py')).read()
    try:
        defs = translate(src)
    except Untranslatable as e:
        print('py2dom: source outside the translatable subset:', e)
        return 1
    os.makedirs(a.out, exist_ok=True)
    with open(os.path.join(a.out, 'DomainG.lean'), 'w') as f:
        f.write(HEADER + '\n'.join(defs) + '\nend PGM.DomG\n')
    print(f'py2dom: {len(defs)} definitions')
    return 0


if __name__ == '__main__':
    sys.exit(main())
