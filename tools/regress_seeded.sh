#!/bin/bash
# tools/regress_seeded.sh [pattern]  — re-runs every seeded change (seeded/<id>/) against the check of the property it breaks
# (and the first check recorded as catching it), prints one line per change: CAUGHT / MISSED / INFRA.
cd "$(dirname "$0")/.."
pat="${1:-}"
for d in seeded/*${pat}*/; do
  id=$(basename "$d")
  checks=$(python3 -c "import json,sys; m=json.load(open('$d/meta.json')); c=[m['breaks_property']]+[x for x in m.get('caught_by',[]) if x!=m['breaks_property']][:1]; print(' '.join(dict.fromkeys(c)))")
  out=$(tools/try_mutant.sh "$d" $checks 2>&1)
  demo=$(echo "$out" | grep -o "demo(mutant) rc=[0-9]*" | head -1)
  tests=$(echo "$out" | grep -E "passed|failed" | head -1)
  verdict=""
  for c in $checks; do
    rc=$(echo "$out" | grep -o "\[$c rc=[0-9]*\]" | head -1)
    verdict="$verdict $rc"
  done
  status=MISSED
  echo "$verdict" | grep -q "rc=1" && status=CAUGHT
  echo "$verdict" | grep -q "rc=2" && ! echo "$verdict" | grep -q "rc=1" && status=INFRA
  echo "$status $id |$verdict | $demo | $tests"
done
