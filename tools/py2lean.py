#!/usr/bin/env python3
"""py2lean — translator from the scalar, loop-and-branch subset of Python to Lean 4.

Reads files under --repo (the working tree, as it is now) and writes Lean sources into --out:

  Cdp2adpF.lean / Cdp2adpR.lean   mechanisms/cdp2adp.py translated whole, at Float resp. ℝ
  SlicesF.lean  / SlicesR.lean    budget / calibration expressions sliced out of the mechanisms
                                  (assignments to named variables, arguments at named call sites)

The same AST is printed twice: once over `Float` (executable, core Lean only) and once over `ℝ`
(noncomputable, Mathlib) — the latter is the real-number reading of the program, which the
theorems are about; the former is run against the Python on a grid to validate this translator.

Subset: def with scalar parameters; Assign / AugAssign to names; if/elif/else; `for _ in range(n)`;
assert (collected into `<f>_pre`); return; docstrings / print ignored; expressions over
+ - * / ** unary-, comparisons, and/or/not, conditional expressions, min/max/abs,
math.{exp,log,log1p,sqrt}, np.{exp,log,sqrt}, calls to functions of the same module.
Anything else makes the translator fail loudly (exit 1).
"""
import argparse, ast, os, sys


class Unsupported(Exception):
    pass


PREC_ATOM = 100


class Printer:
    """expression / statement printer parameterised by the scalar type"""

    def __init__(self, real, module_funcs=(), prefix=''):
        self.real = real
        self.T = 'ℝ' if real else 'Float'
        self.module_funcs = set(module_funcs)
        self.prefix = prefix

    # ---- expressions -------------------------------------------------------------------
    def num(self, v):
        if isinstance(v, bool):
            raise Unsupported('bool constant in arithmetic')
        if isinstance(v, int):
            return f'({v} : {self.T})' if v >= 0 else f'(-{-v} : {self.T})'
        if isinstance(v, float):
            if v != v or v in (float('inf'), float('-inf')):
                raise Unsupported('non-finite literal')
            s = repr(v)
            if 'e' in s or 'E' in s:
                mant, ex = s.lower().split('e')
                if '.' not in mant:
                    mant += '.0'
                s = f'{mant}e{int(ex)}'
            if s.startswith('-'):
                return f'(-{s[1:]} : {self.T})'
            return f'({s} : {self.T})'
        raise Unsupported(f'constant {v!r}')

    def fname(self, node):
        if isinstance(node, ast.Attribute) and isinstance(node.value, ast.Name):
            return f'{node.value.id}.{node.attr}'
        if isinstance(node, ast.Name):
            return node.id
        raise Unsupported('callee ' + ast.dump(node))

    def expr(self, e):
        R = self.real
        if isinstance(e, ast.Constant):
            return self.num(e.value)
        if isinstance(e, ast.Name):
            return e.id
        if isinstance(e, ast.UnaryOp):
            if isinstance(e.op, ast.USub):
                return f'(-{self.expr(e.operand)})'
            if isinstance(e.op, ast.UAdd):
                return self.expr(e.operand)
            raise Unsupported('unary op')
        if isinstance(e, ast.BinOp):
            a, b = self.expr(e.left), self.expr(e.right)
            if isinstance(e.op, ast.Add):
                return f'({a} + {b})'
            if isinstance(e.op, ast.Sub):
                return f'({a} - {b})'
            if isinstance(e.op, ast.Mult):
                return f'({a} * {b})'
            if isinstance(e.op, ast.Div):
                return f'({a} / {b})'
            if isinstance(e.op, ast.Pow):
                if isinstance(e.right, ast.Constant) and isinstance(e.right.value, int) and e.right.value >= 0:
                    n = e.right.value
                    return f'({a} ^ ({n} : ℕ))' if R else f'(Float.pow {a} ({n} : Float))'
                return f'(Real.rpow {a} {b})' if R else f'(Float.pow {a} {b})'
            raise Unsupported('binary op ' + type(e.op).__name__)
        if isinstance(e, ast.IfExp):
            return f'(if {self.cond(e.test)} then {self.expr(e.body)} else {self.expr(e.orelse)})'
        if isinstance(e, ast.Call):
            f = self.fname(e.func)
            args = [self.expr(a) for a in e.args]
            if e.keywords:
                raise Unsupported('keyword arguments in scalar call ' + f)
            if f in ('math.exp', 'np.exp', 'numpy.exp'):
                return f'(Real.exp {args[0]})' if R else f'(Float.exp {args[0]})'
            if f in ('math.log', 'np.log', 'numpy.log'):
                if len(args) != 1:
                    raise Unsupported('log with base')
                return f'(Real.log {args[0]})' if R else f'(Float.log {args[0]})'
            if f in ('math.log1p', 'np.log1p'):
                return f'(Real.log (1 + {args[0]}))' if R else f'(PGM.FloatS.log1p {args[0]})'
            if f in ('math.sqrt', 'np.sqrt', 'numpy.sqrt'):
                return f'(Real.sqrt {args[0]})' if R else f'(Float.sqrt {args[0]})'
            if f == 'min' and len(args) == 2:
                return f'(min {args[0]} {args[1]})' if R else f'(PGM.Gen.fmin {args[0]} {args[1]})'
            if f == 'max' and len(args) == 2:
                return f'(max {args[0]} {args[1]})' if R else f'(PGM.Gen.fmax {args[0]} {args[1]})'
            if f == 'abs' and len(args) == 1:
                return f'(|{args[0]}|)' if R else f'(Float.abs {args[0]})'
            if f == 'float' and len(args) == 1:
                return args[0]
            if f in self.module_funcs:
                return '(' + ' '.join([self.prefix + f] + args) + ')'
            raise Unsupported('call to ' + f)
        raise Unsupported('expression ' + type(e).__name__)

    def cond(self, c):
        if isinstance(c, ast.Compare):
            if len(c.ops) != 1:
                parts = []
                left = c.left
                for op, right in zip(c.ops, c.comparators):
                    parts.append(self.cond(ast.Compare(left=left, ops=[op], comparators=[right])))
                    left = right
                return '(' + ' ∧ '.join(parts) + ')'
            a, b = self.expr(c.left), self.expr(c.comparators[0])
            op = c.ops[0]
            sym = {ast.Lt: '<', ast.LtE: '≤', ast.Gt: '>', ast.GtE: '≥', ast.Eq: '=', ast.NotEq: '≠'}.get(type(op))
            if sym is None:
                raise Unsupported('comparison ' + type(op).__name__)
            if not self.real and sym == '=':
                return f'({a} == {b})'
            if not self.real and sym == '≠':
                return f'({a} != {b})'
            return f'({a} {sym} {b})'
        if isinstance(c, ast.BoolOp):
            sym = ' ∧ ' if isinstance(c.op, ast.And) else ' ∨ '
            if not self.real:
                sym = ' && ' if isinstance(c.op, ast.And) else ' || '
            return '(' + sym.join(self.cond(v) for v in c.values) + ')'
        if isinstance(c, ast.UnaryOp) and isinstance(c.op, ast.Not):
            return f'(¬ {self.cond(c.operand)})' if self.real else f'(!{self.cond(c.operand)})'
        if isinstance(c, ast.Name):
            return f'({c.id} = true)' if self.real else c.id  # Boolean flag parameter
        if isinstance(c, ast.Constant) and isinstance(c.value, bool):
            return 'True' if c.value else 'False'
        raise Unsupported('condition ' + type(c).__name__)

    # ---- statements --------------------------------------------------------------------
    @staticmethod
    def assigned(stmts):
        """names assigned anywhere in stmts, in order of first assignment"""
        out = []

        def add(n):
            if n not in out:
                out.append(n)
        for s in stmts:
            if isinstance(s, ast.Assign):
                for t in s.targets:
                    if isinstance(t, ast.Name):
                        add(t.id)
                    elif isinstance(t, ast.Tuple):
                        for el in t.elts:
                            if isinstance(el, ast.Name):
                                add(el.id)
                            else:
                                raise Unsupported('assignment target')
                    else:
                        raise Unsupported('assignment target ' + type(t).__name__)
            elif isinstance(s, ast.AugAssign):
                if not isinstance(s.target, ast.Name):
                    raise Unsupported('augassign target')
                add(s.target.id)
            elif isinstance(s, ast.If):
                for n in Printer.assigned(s.body) + Printer.assigned(s.orelse):
                    add(n)
            elif isinstance(s, ast.For):
                for n in Printer.assigned(s.body):
                    add(n)
        return out

    @staticmethod
    def returns(stmts):
        """does every path through stmts end in return?"""
        for s in stmts:
            if isinstance(s, ast.Return):
                return True
            if isinstance(s, ast.If) and Printer.returns(s.body) and s.orelse and Printer.returns(s.orelse):
                return True
        return False

    @staticmethod
    def has_return(stmts):
        for s in stmts:
            if isinstance(s, ast.Return):
                return True
            if isinstance(s, ast.If) and (Printer.has_return(s.body) or Printer.has_return(s.orelse)):
                return True
            if isinstance(s, ast.For) and Printer.has_return(s.body):
                raise Unsupported('return inside loop')
        return False

    def proj(self, var, i, n):
        """i-th component (0-based) of an n-tuple held in `var`"""
        if n == 1:
            return var
        return var + '.2' * i + ('.1' if i < n - 1 else '')

    def unpack(self, pad, var, names):
        return ''.join(f'{pad}let {v} : {self.T} := {self.proj(var, i, len(names))}\n' for i, v in enumerate(names))

    def tup(self, names):
        if not names:
            return '()'
        return names[0] if len(names) == 1 else '(' + ', '.join(names) + ')'

    def block(self, stmts, tail, ind, defined):
        """translate stmts; `tail` is the expression the block evaluates to when control falls off
        the end (a tuple of variables, or None when the block must return)."""
        pad = '  ' * ind
        if not stmts:
            if tail is None:
                raise Unsupported('function may fall off the end without return')
            return pad + tail
        s, rest = stmts[0], stmts[1:]
        if isinstance(s, ast.Expr):
            if isinstance(s.value, ast.Constant) and isinstance(s.value.value, str):
                return self.block(rest, tail, ind, defined)
            if isinstance(s.value, ast.Call) and self.fname(s.value.func) == 'print':
                return self.block(rest, tail, ind, defined)
            raise Unsupported('expression statement')
        if isinstance(s, ast.Assert) or isinstance(s, ast.Pass):
            return self.block(rest, tail, ind, defined)
        if isinstance(s, ast.Return):
            if s.value is None:
                raise Unsupported('bare return')
            return pad + self.expr(s.value)
        if isinstance(s, ast.Assign):
            if len(s.targets) != 1:
                raise Unsupported('chained assignment')
            t = s.targets[0]
            if isinstance(t, ast.Name):
                line = f'{pad}let {t.id} : {self.T} := {self.expr(s.value)}\n'
                return line + self.block(rest, tail, ind, defined | {t.id})
            if isinstance(t, ast.Tuple) and isinstance(s.value, ast.Tuple) and len(t.elts) == len(s.value.elts):
                names = [el.id for el in t.elts]
                vals = [self.expr(v) for v in s.value.elts]
                line = f'{pad}let ({", ".join(names)}) : {" × ".join([self.T] * len(names))} := ({", ".join(vals)})\n'
                return line + self.block(rest, tail, ind, defined | set(names))
            raise Unsupported('assignment form')
        if isinstance(s, ast.AugAssign):
            op = {ast.Add: '+', ast.Sub: '-', ast.Mult: '*', ast.Div: '/'}.get(type(s.op))
            if op is None:
                raise Unsupported('augmented op')
            n = s.target.id
            line = f'{pad}let {n} : {self.T} := ({n} {op} {self.expr(s.value)})\n'
            return line + self.block(rest, tail, ind, defined)
        if isinstance(s, ast.If):
            c = self.cond(s.test)
            if self.returns(s.body) and not s.orelse:
                # early return
                return (f'{pad}if {c} then\n' + self.block(s.body, None, ind + 1, defined) + f'\n{pad}else\n'
                        + self.block(rest, tail, ind + 1, defined))
            if self.returns(s.body) and self.returns(s.orelse):
                return (f'{pad}if {c} then\n' + self.block(s.body, None, ind + 1, defined) + f'\n{pad}else\n'
                        + self.block(s.orelse, None, ind + 1, defined))
            if self.has_return(s.body) or self.has_return(s.orelse):
                # mixed: inline the continuation into both branches
                return (f'{pad}if {c} then\n' + self.block(s.body + rest, tail, ind + 1, defined) + f'\n{pad}else\n'
                        + self.block(list(s.orelse) + rest, tail, ind + 1, defined))
            vs = self.assigned([s])
            for v in vs:
                if v not in defined:
                    # variable first defined inside a branch: give it a neutral initial value
                    pass
            pre = ''.join(f'{pad}let {v} : {self.T} := {self.num(0)}\n' for v in vs if v not in defined)
            t = self.tup(vs)
            ty = ' × '.join([self.T] * len(vs))
            self.tmp_no += 1
            tv = f'br{self.tmp_no}'
            body = (f'{pad}let {tv} : {ty} :=\n{pad}  if {c} then\n' + self.block(s.body, t, ind + 2, defined | set(vs))
                    + f'\n{pad}  else\n' + self.block(list(s.orelse), t, ind + 2, defined | set(vs)) + '\n')
            body += self.unpack(pad, tv, vs)
            return pre + body + self.block(rest, tail, ind, defined | set(vs))
        if isinstance(s, ast.For):
            if s.orelse or not isinstance(s.target, ast.Name):
                raise Unsupported('for form')
            it = s.iter
            if not (isinstance(it, ast.Call) and self.fname(it.func) == 'range' and len(it.args) == 1):
                raise Unsupported('for over non-range')
            a = it.args[0]
            if isinstance(a, ast.Constant) and isinstance(a.value, int):
                n = str(a.value)
            elif isinstance(a, ast.Name):
                n = a.id
            else:
                raise Unsupported('range bound')
            vs = self.assigned(s.body)
            pre = ''.join(f'{pad}let {v} : {self.T} := {self.num(0)}\n' for v in vs if v not in defined)
            t = self.tup(vs)
            ty = ' × '.join([self.T] * len(vs))
            lv = s.target.id
            used = []
            for nd in ast.walk(ast.Module(body=s.body, type_ignores=[])):
                if isinstance(nd, ast.Name) and nd.id in defined and nd.id not in vs and nd.id not in used and nd.id != lv:
                    used.append(nd.id)
            used = [p for p in self.cur_order if p in used] + [u for u in used if u not in self.cur_order]
            self.loop_no += 1
            lname = f'{self.prefix}{self.cur_fn}_loop{self.loop_no}'
            head = 'noncomputable def' if self.real else 'def'
            sig = ' '.join(f'({p} : {"Bool" if p in self.cur_bools else self.T})' for p in used)
            aux = (f'/-- body of loop {self.loop_no} of `{self.cur_fn}` (state: {t}) -/\n'
                   f'{head} {lname} {sig} (st : {ty}) : {ty} :=\n' + self.unpack('  ', 'st', vs)
                   + self.block(s.body, t, 1, defined | set(vs)) + '\n')
            self.aux.append(aux)
            call = ' '.join([lname] + used)
            self.tmp_no += 1
            tv = f'lp{self.tmp_no}'
            body = f'{pad}let {tv} : {ty} := Nat.fold {n} (fun _ _ st => {call} st) {t}\n'
            body += self.unpack(pad, tv, vs)
            return pre + body + self.block(rest, tail, ind, defined | set(vs))
        raise Unsupported('statement ' + type(s).__name__)

    def asserts(self, fn):
        out = []
        for s in fn.body:
            if isinstance(s, ast.Assert):
                save = self.real
                out.append(self.cond(s.test))
        return out

    def function(self, fn, bool_params=()):
        params = [a.arg for a in fn.args.args]
        sig = ' '.join(f'({p} : {"Bool" if p in bool_params else self.T})' for p in params)
        head = 'noncomputable def' if self.real else 'def'
        self.cur_fn, self.cur_order, self.cur_bools = fn.name, params, bool_params
        self.loop_no, self.aux, self.tmp_no = 0, [], 0
        body = self.block(fn.body, None, 1, set(params))
        out = ''.join(a + '\n' for a in self.aux) + f'{head} {self.prefix}{fn.name} {sig} : {self.T} :=\n{body}\n'
        if self.real:
            pre = self.asserts(fn)
            out += f'\n/-- the `assert`s of `{fn.name}` -/\ndef {self.prefix}{fn.name}_pre {sig} : Prop :=\n  ' + (' ∧ '.join(pre) if pre else 'True') + '\n'
        return out


HEADER_F = '''/- GENERATED by tools/py2lean.py from {src} — do not edit -/
import PGM.Model.Scalar
namespace PGM.Gen
def fmin (x y : Float) : Float := if y < x then y else x
def fmax (x y : Float) : Float := if y > x then y else x
end PGM.Gen
set_option linter.unusedVariables false
namespace PGM.Gen.F
'''
HEADER_R = '''/- GENERATED by tools/py2lean.py from {src} — do not edit -/
import Mathlib.Analysis.SpecialFunctions.Log.Basic
import Mathlib.Analysis.SpecialFunctions.Sqrt
import Mathlib.Analysis.SpecialFunctions.Pow.Real
set_option linter.unusedVariables false
namespace PGM.Gen.R
'''


def translate_module(path, real, names=None):
    tree = ast.parse(open(path).read())
    fns = [n for n in tree.body if isinstance(n, ast.FunctionDef) and (names is None or n.name in names)]
    pr = Printer(real, module_funcs=[f.name for f in fns])
    return '\n'.join(pr.function(f) for f in fns), [f.name for f in fns]


# ---------------------------------------------------------------------------------------------
# slices: named budget / calibration expressions inside otherwise untranslatable functions

def find_func(tree, qual):
    """qual = 'f' or 'Class.method'"""
    parts = qual.split('.')
    body = tree.body
    node = None
    for p in parts:
        node = next((n for n in body if isinstance(n, (ast.FunctionDef, ast.ClassDef)) and n.name == p), None)
        if node is None:
            raise Unsupported(f'function {qual} not found')
        body = node.body
    return node


def free_names(e):
    out = []
    for n in ast.walk(e):
        if isinstance(n, ast.Name) and n.id not in out and n.id not in ('np', 'math', 'min', 'max', 'abs', 'float', 'len'):
            out.append(n.id)
        if isinstance(n, ast.Attribute) and isinstance(n.value, ast.Name) and n.value.id == 'self':
            pass
    return out


class SelfRewriter(ast.NodeTransformer):
    """self.rho -> self_rho ; len(x) -> len_x (an opaque natural-number-valued parameter)"""

    def visit_Attribute(self, node):
        if isinstance(node.value, ast.Name) and node.value.id == 'self':
            return ast.copy_location(ast.Name(id='self_' + node.attr, ctx=ast.Load()), node)
        return self.generic_visit(node)

    def visit_Subscript(self, node):
        # privacy_calibrator.ana_gaussian_mech(eps, delta)['sigma'] -> opaque parameter sigma_ana
        if isinstance(node.value, ast.Call) and 'ana_gaussian_mech' in ast.unparse(node.value.func):
            return ast.copy_location(ast.Name(id='sigma_ana', ctx=ast.Load()), node)
        return self.generic_visit(node)

    def visit_Call(self, node):
        if isinstance(node.func, ast.Attribute) and node.func.attr == 'max' and not node.args and isinstance(node.func.value, ast.Name):
            return ast.copy_location(ast.Name(id=node.func.value.id + '_max', ctx=ast.Load()), node)
        if isinstance(node.func, ast.Name) and node.func.id == 'len' and len(node.args) == 1:
            a = node.args[0]
            nm = 'len_' + ''.join(ch if ch.isalnum() else '_' for ch in ast.unparse(a))
            return ast.copy_location(ast.Name(id=nm, ctx=ast.Load()), node)
        return self.generic_visit(node)


def all_nodes(fn):
    for n in ast.walk(fn):
        yield n


def slice_assign(fn, var, nth=0):
    hits = []
    for n in all_nodes(fn):
        if isinstance(n, ast.Assign) and any(isinstance(t, ast.Name) and t.id == var for t in n.targets):
            hits.append((n.lineno, n.value))
        if isinstance(n, ast.AugAssign) and isinstance(n.target, ast.Name) and n.target.id == var:
            hits.append((n.lineno, ast.BinOp(left=ast.Name(id=var, ctx=ast.Load()), op=n.op, right=n.value)))
    hits.sort(key=lambda h: h[0])
    if nth >= len(hits):
        raise Unsupported(f'assignment #{nth} to {var} not found in {fn.name}')
    return hits[nth][1], len(hits)


def slice_callarg(fn, callee, arg, nth=0):
    hits = []
    for n in all_nodes(fn):
        if isinstance(n, ast.Call):
            try:
                name = ast.unparse(n.func)
            except Exception:
                continue
            if name == callee:
                hits.append(n)
    hits.sort(key=lambda n: (n.lineno, n.col_offset))
    if nth >= len(hits):
        raise Unsupported(f'call #{nth} to {callee} not found in {fn.name}')
    c = hits[nth]
    if isinstance(arg, int):
        if arg >= len(c.args):
            raise Unsupported(f'call to {callee} has no positional argument {arg}')
        return c.args[arg], len(hits)
    for kw in c.keywords:
        if kw.arg == arg:
            return kw.value, len(hits)
    raise KeyError(arg)


SLICES = None  # loaded from tools/slices.json


def translate_slices(repo, real, spec):
    out = []
    names = []
    cache = {}
    for item in spec:
        path = os.path.join(repo, item['file'])
        if path not in cache:
            cache[path] = ast.parse(open(path).read())
        fn = find_func(cache[path], item['func'])
        if item['kind'] == 'assign':
            e, cnt = slice_assign(fn, item['var'], item.get('nth', 0))
        elif item['kind'] == 'callarg':
            try:
                e, cnt = slice_callarg(fn, item['callee'], item['arg'], item.get('nth', 0))
            except KeyError:
                if 'default' not in item:
                    raise Unsupported(f"{item['name']}: call to {item['callee']} passes no {item['arg']}")
                e, cnt = ast.parse(item['default'], mode='eval').body, item.get('expect_count', 1)
                if 'expect_count' in item:
                    cnt = item['expect_count']
        elif item['kind'] == 'if_test':
            ifs = sorted([n for n in all_nodes(fn) if isinstance(n, ast.If)], key=lambda n: n.lineno)
            if item.get('nth', 0) >= len(ifs):
                raise Unsupported(f"{item['name']}: if #{item.get('nth', 0)} not found")
            t = SelfRewriter().visit(ast.fix_missing_locations(ast.parse(ast.unparse(ifs[item.get('nth', 0)].test), mode='eval').body))
            params = item['params']
            extra = [p for p in free_names(t) if p not in params]
            if extra:
                raise Unsupported(f"{item['name']}: unexpected free variables {extra}")
            pr = Printer(real)
            sig = ' '.join(f'({p} : {pr.T})' for p in params)
            src = ast.unparse(t).replace('-/', '- /')
            ty = 'Prop' if real else 'Bool'
            out.append(f'/-- `{item["file"]}` `{item["func"]}` branch condition: `{src}` -/\ndef {item["name"]} {sig} : {ty} :=\n  {pr.cond(t)}\n')
            names.append(item['name'])
            continue
        elif item['kind'] == 'function':
            fn2 = SelfRewriter().visit(ast.fix_missing_locations(ast.parse(ast.unparse(fn)).body[0]))
            fn2.args.args = [a for a in fn2.args.args if a.arg != 'self']
            extra = item.get('extra_params', [])
            fn2.args.args = [ast.arg(arg=x) for x in extra] + fn2.args.args
            fn2.name = item['name']
            pr = Printer(real)
            out.append(f'/-- `{item["file"]}` `{item["func"]}` translated whole -/\n' + pr.function(fn2, bool_params=item.get('bool_params', ())))
            names.append(item['name'])
            continue
        elif item['kind'] == 'count_assign':
            _, cnt = slice_assign(fn, item['var'], 0)
            e = ast.Constant(value=cnt)
        elif item['kind'] == 'count_call':
            _, cnt = slice_callarg(fn, item['callee'], 0, 0) if False else (None, sum(
                1 for n in all_nodes(fn) if isinstance(n, ast.Call) and ast.unparse(n.func) == item['callee']))
            e = ast.Constant(value=cnt)
        else:
            raise Unsupported('slice kind ' + item['kind'])
        if 'tuple_index' in item:
            if not isinstance(e, ast.Tuple) or item['tuple_index'] >= len(e.elts):
                raise Unsupported(f"{item['name']}: expected a tuple argument")
            e = e.elts[item['tuple_index']]
        if 'expect_count' in item and cnt != item['expect_count']:
            raise Unsupported(f"{item['name']}: expected {item['expect_count']} occurrence(s), found {cnt}")
        e = SelfRewriter().visit(ast.fix_missing_locations(ast.parse(ast.unparse(e), mode='eval').body))
        bools = item.get('bool_params', [])
        params = [n for n in free_names(e)]
        order = item.get('params')
        if order is not None:
            extra = [p for p in params if p not in order]
            if extra:
                raise Unsupported(f"{item['name']}: unexpected free variables {extra} (declared {order})")
            params = order
        pr = Printer(real)
        T = pr.T
        sig = ' '.join(f'({p} : {"Bool" if p in bools else T})' for p in params)
        head = 'noncomputable def' if real else 'def'
        src = ast.unparse(e).replace('-/', '- /')
        if item.get('result_bool'):
            if isinstance(e, ast.Name) and e.id in bools:
                body = e.id
            elif isinstance(e, ast.Constant) and isinstance(e.value, bool):
                body = 'true' if e.value else 'false'
            else:
                raise Unsupported(f"{item['name']}: Boolean argument of unsupported form {src}")
            out.append(f'/-- `{item["file"]}` `{item["func"]}`: `{src}` -/\ndef {item["name"]} {sig} : Bool :=\n  {body}\n')
            names.append(item['name'])
            continue
        out.append(f'/-- `{item["file"]}` `{item["func"]}`: `{src}` -/\n{head} {item["name"]} {sig} : {T} :=\n  {pr.expr(e)}\n')
        names.append(item['name'])
    return '\n'.join(out), names


def main():
    ap = argparse.ArgumentParser()
    ap.add_argument('--repo', default='/repo')
    ap.add_argument('--out', required=True)
    args = ap.parse_args()
    os.makedirs(args.out, exist_ok=True)
    here = os.path.dirname(os.path.abspath(__file__))
    import json
    spec = json.load(open(os.path.join(here, 'slices.json'))) if os.path.exists(os.path.join(here, 'slices.json')) else []
    ok = True
    results = {}
    try:
        src = os.path.join(args.repo, 'mechanisms', 'cdp2adp.py')
        for real, name, hdr in ((False, 'Cdp2adpF', HEADER_F), (True, 'Cdp2adpR', HEADER_R)):
            body, fns = translate_module(src, real)
            ns_end = 'end PGM.Gen.R' if real else 'end PGM.Gen.F'
            results[name] = hdr.format(src='mechanisms/cdp2adp.py') + '\n' + body + '\n' + ns_end + '\n'
        for real, name in ((False, 'SlicesF'), (True, 'SlicesR')):
            body, names = translate_slices(args.repo, real, spec)
            if real:
                hdr = HEADER_R.format(src='mechanisms/*.py (slices)')
                results[name] = hdr + '\n' + body + '\nend PGM.Gen.R\n'
            else:
                hdr = ('/- GENERATED by tools/py2lean.py from mechanisms/*.py (slices) — do not edit -/\n'
                       'import PGM.Generated.Cdp2adpF\nset_option linter.unusedVariables false\nnamespace PGM.Gen.F\n')
                results[name] = hdr + '\n' + body + '\nend PGM.Gen.F\n'
    except Unsupported as e:
        print('py2lean: source outside the translatable subset:', e, file=sys.stderr)
        ok = False
    except SyntaxError as e:
        print('py2lean: syntax error in source:', e, file=sys.stderr)
        ok = False
    if not ok:
        return 1
    for name, text in results.items():
        p = os.path.join(args.out, name + '.lean')
        old = open(p).read() if os.path.exists(p) else None
        if old != text:
            with open(p, 'w') as f:
                f.write(text)
    return 0


if __name__ == '__main__':
    sys.exit(main())
