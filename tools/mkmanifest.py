#!/usr/bin/env python3
"""Regenerates /verif/MANIFEST.json from the registry below (keeps it valid at all times)."""
import json, os
V = os.path.dirname(os.path.dirname(os.path.abspath(__file__)))
ids = [json.loads(l)['id'] for l in open(os.path.join(V, 'properties.jsonl'))]

# pid -> (technique, level text, level note, design anchor); absent => not_applicable (reason)
CLAIMED = json.load(open(os.path.join(V, 'tools', 'claims.json')))

checks, na = [], []
for pid in ids:
    c = CLAIMED.get(pid)
    if c and c.get('claimed'):
        checks.append({
            'property_id': pid,
            'quick_cmd': f'./check {pid} --tier quick',
            'thorough_cmd': f'./check {pid} --tier thorough',
            'evidence_file': f'/verif/evidence/{pid}.json',
            'replay_cmd_template': f'./check {pid} --replay {{path}}',
            'engine': 'lean4-proof+correspondence',
            'level_claimed': {'category': 'proof', 'text': c['text'], 'design_ref': f'DESIGN.md#{pid.lower()}'},
            'level_note': c['note'],
            'technique': c['technique'],
        })
    else:
        na.append({'property_id': pid, 'reason': (c or {}).get('reason', 'check under construction in this round; not claimed yet')})

m = {
    'version': 1,
    'setup_cmd': './setup.sh',
    'hooks': {
        'guard': 'PRIVATE_PGM_VERIF',
        'enable': 'no source hooks are needed: the harness imports /repo/src and /repo/mechanisms in-process (PYTHONPATH) and wraps numpy/pandas entry points from outside; PRIVATE_PGM_VERIF=1 is exported by ./check but guards nothing in /repo',
        'baseline_off_cmd': 'cd /repo && /venv/bin/python -m pytest -ra -q -p no:cacheprovider --timeout=900 --continue-on-collection-errors',
        'source_commits': [],
        'add_only': True,
    },
    'engines': [{
        'name': 'lean4-proof+correspondence',
        'path': '/verif/lean',
        'serves_properties': [c['property_id'] for c in checks],
        'kind_free_text': 'Lean 4 model + theorems (lake build, #print axioms audit), tied to /repo by sixteen translators regenerated on each run (tools/py2*.py: cdp2adp and mechanism slices, mechanism flows, domain, dataset, clique_vector, factor, graphical_model core and query/sampling paths, junction_tree, inference solvers, totals, estimator shell, factor_graph, region_graph, local_inference, public_inference; per-property selection in tools/ties.json) and by a differential correspondence run of the compiled model driver against the Python implementation',
    }],
    'checks': checks,
    'not_applicable': na,
    'notes': 'See DESIGN.md. Every check: regenerate -> lake build -> axiom audit -> correspondence -> verdict; known findings in known_findings.json.',
}
json.dump(m, open(os.path.join(V, 'MANIFEST.json'), 'w'), indent=1)
print(len(checks), 'claimed;', len(na), 'not applicable')
