#!/usr/bin/env python3
"""tools/py2pub.py --repo R --out DIR

Translates `src/mbi/public_inference.py` (public-data reweighting) into Lean definitions (`DIR/PublicG.lean`, namespace
`PGM.PubG`), statement by statement, over the scalar interface `Scalar α` (vectors are `List α`) and the substrate of the
hand models (`Dataset`, `Factor`, `CliqueVec`, `Loss.Meas`, `Loss.matVec/matTVec/dot/absS/signS`).
`PGM/Properties/C19G.lean` proves every generated definition equal to the hand model `PGM/Model/Public.lean` the C19
theorems are about, and re-states those theorems for the generated definitions.

Generated definitions
  entropicMirrorDescent_loop1   the body of the `for _ in range(iters)` loop, state `(logP, loss, dL, alpha, begun)`
  entropicMirrorDescent         `entropic_mirror_descent(loss_and_grad, x0, total, iters)`
  initWeights                   `PublicInference.__init__`: the value of `self.weights`
  marginalLossL2 / L1 / Fn      `PublicInference._marginal_loss(marginals)` (metric=None) with `self.metric` = a string other
                                than 'L1' / 'L1' / a callable (a parameter); `self.measurements` is a parameter
  lossAndGrad_loop1, lossAndGrad   the closure `loss_and_grad(weights)` of `estimate`, lifted: its free variables
                                (`self._marginal_loss`, `self.public_data`, `self.measurements`, `cliques`) are parameters
  estimateGiven / estimateNone  `PublicInference.estimate(measurements, total)` with `total` given / `None`; the result is
                                the pair (returned Dataset, `self.weights` afterwards); `self.weights` at entry is a parameter

Statements
  x = e ; a, b = e1, e2 ; a, b = <call returning a pair> ; self.attr = e      -> `let` (sequential: a dead assignment is
       translated like any other and shadowed by the next one)
  x op= e                            -> `let x := x op e`; on an array this is numpy's IN-PLACE update, accepted only when the
       array was created in this scope and no other name was bound to it (otherwise the translator stops: aliasing)
  d[k] += e                          -> `CliqueVec.set d k (Factor.iadd (CliqueVec.get d k) e)` (`Factor.__iadd__`)
  for _ in range(n) / for Q, y, noise, cl in <measurements> / for cl in <CliqueVector>
                                     -> `List.foldl (<fn>_loopK free-variables) state items`; the state is the tuple of the
       variables assigned in the body that are read before being assigned in it or read after the loop, in the order of
       first assignment in the function; a variable that the body only reads (e.g. the stale `P`) is NOT state: it is a
       parameter of the body, fixed for the whole loop
  if c: A else: B                    -> `let out := if c then (A; tuple) else (B; tuple)` over the variables assigned in a
       branch and needed later
  if <test decided by the variant>   -> the branch taken (`total is None`, `metric is None`, `callable(metric)`,
       `metric == 'L1'`, `hasattr(<ndarray>, 'sign')`), also in `a if c else b`
  def f(args): ...  (closure)        -> a separate definition; its free variables must not be re-assigned after the `def`
  return e                           -> the result
  docstrings are skipped; anything else stops the translator (exit 1).
Expressions (typed; `scalar`, `vec`, `mat`, `nat`, `bool`, dataset / factor / clique-vector values)
  float and int literals -> exact scalar terms built from `Scalar.one` (0.5 = 1/(1+1)); + - * / between scalars and
  vectors (a scalar operand is broadcast: `List.map`; two vectors: `List.zipWith`; numpy raises on unequal lengths, the
  zip truncates -- equal lengths are the caller's obligation as in the hand model); `np.log/np.exp` (scalar or
  element-wise), `np.nextafter(0, 1)` -> the parameter `eps0`; `x.sum()` -> `Scalar.sum` (left to right), `x.mean()` ->
  `sum / ofNat length`, `a.dot(b)`, `a @ b` (vector.vector `Loss.dot`, matrix.vector `Loss.matVec`, `Q.T @ v`
  `Loss.matTVec` with the column count read off the vector `Q` was applied to), `logsumexp(v)` -> `Scalar.lse`,
  `abs`, `np.sign`, `np.ones(n)`, `np.zeros(n)`, `x.size`, `a >= b` -> `geG a b = le0 (b - a)` (false on nan),
  `not b`, `float(x)`; `Dataset(df, domain, w)` -> `Dataset.ofTable`, `D.df` -> `frame D`, `D.domain`, `D.records`,
  `D.project(cl)`, `D.df.values` (the rows), `CliqueVector.from_data(D, cliques)` -> `fromData` (its source is compared
  with the expected text), `cv[cl]`, `{cl: e for cl in cv}`, `[M[-1] for M in ms]`, `Factor.zeros(d)`, `Factor(d, v)`,
  `f.datavector()`, `f.domain`, `f.values[tuple(idx.T)]` -> `gather` (one entry per row of `idx`),
  `entropic_mirror_descent(f, x, t)` (the default `iters` is read from the signature), `estimate_total(measurements)`
  -> the parameter `estimateTotal` (translated by tools/py2total.py, C09G), `self._marginal_loss(mu)`.
Facts about other code the reading relies on are re-read from source on every run (`check_sources`): dataset.py
  (`__init__` stores `domain`, `df.loc[:, domain.attrs]`, `weights`; `records` is a property; `project`), clique_vector.py
  (`class CliqueVector(dict)`, the text of `from_data`), factor.py (`zeros`, `__iadd__`, `datavector(flatten=True)`,
  `self.values = values.reshape(domain.shape)`), and `estimate_total(measurements)` in public_inference.py itself.
"""
import argparse, ast, os, re, sys
from fractions import Fraction

FILE = 'public_inference.py'


class Untranslatable(Exception):
    pass


def fail(node, why):
    where = f'{FILE} line {getattr(node, "lineno", "?")}' if isinstance(node, ast.AST) else str(node)
    text = (ast.unparse(node) if isinstance(node, ast.AST) else '').split('\n')[0]
    raise Untranslatable(f'{where}: {why}' + (f': {text[:160]}' if text else ''))


LEANTY = {'scalar': 'α', 'nat': 'Nat', 'bool': 'Bool', 'vec': 'List α', 'mat': 'List (List α)',
          'meas': 'Loss.Meas α', 'measlist': 'List (Loss.Meas α)', 'factor': 'Factor α', 'cv': 'CliqueVec α',
          'clique': 'JT.Clique', 'cliques': 'List JT.Clique', 'dom': 'Dom', 'dataset': 'Dataset α', 'table': 'Dataset.Table',
          'rows': 'List (List Int)', 'ndarr': 'NdArr α', 'objective': 'List α → α × List α', 'pair': 'α × List α',
          'cvpair': 'α × CliqueVec α', 'metricfn': 'CliqueVec α → α × CliqueVec α',
          'mloss': 'List (Loss.Meas α) → CliqueVec α → α × CliqueVec α', 'totalfn': 'List (Loss.Meas α) → α',
          'result': 'Dataset α × List α'}
KEYWORDS = {'at', 'from', 'fun', 'end', 'open', 'in', 'let', 'do', 'then', 'else', 'if', 'match', 'with', 'where', 'have',
            'show', 'by', 'def', 'instance', 'export', 'local', 'item', 'st', 'out', 'α', 'eps0', 'mloss', 'estimateTotal'}
CALLABLE = object()       # the value of `self.metric` in the callable variant


def lname(x):
    if x.startswith('self.'):
        return 'self_' + x[5:]
    if x in KEYWORDS or x.startswith('tmp_') or x.startswith('r_'):
        fail(x, f'the python variable `{x}` clashes with a name the translation reserves')
    return x


class V:
    """a translated value: lean term, type, and what the translator knows about it"""

    def __init__(self, t, ty, fresh=False, const=None, isconst=False, cols=None, inner=None, src=None):
        self.t, self.ty, self.fresh, self.const, self.isconst, self.cols, self.inner = t, ty, fresh, const, isconst, cols, inner
        self.src = src          # the function parameter this value is (still) a plain copy of


def enc_nat(n):
    if n == 1:
        return 'Scalar.one'
    h = enc_nat(n // 2)
    d = f'(Scalar.add {h} {h})'
    return d if n % 2 == 0 else f'(Scalar.add {d} Scalar.one)'


def enc_lit(q, node):
    if q < 0:
        return f'(Scalar.neg {enc_lit(-q, node)})'
    if q == 0:
        return 'Scalar.zero'
    if q.denominator == 1:
        if q.numerator > 1 << 20:
            fail(node, 'integer literal too large for the doubling encoding')
        return enc_nat(q.numerator)
    if q.denominator > 1 << 20 or q.denominator & (q.denominator - 1):
        fail(node, 'numeric literal is not a small dyadic rational (no exact scalar term for it)')
    return f'(Scalar.div {enc_nat(q.numerator)} {enc_nat(q.denominator)})'


def ind(text, k=2):
    return '\n'.join((' ' * k + l if l else l) for l in text.split('\n'))


def is_doc(st):
    return isinstance(st, ast.Expr) and isinstance(st.value, ast.Constant) and isinstance(st.value.value, str)


def self_attr(n):
    if isinstance(n, ast.Attribute) and isinstance(n.value, ast.Name) and n.value.id == 'self':
        return 'self.' + n.attr
    return None


# ---------------------------------------------------------------------------------------------------------------------
# read / write sets

class Flow:
    def __init__(self, fn, method_reads):
        self.method_reads = method_reads       # `self.m` (a method) -> the self attributes it reads
        self.order = {}
        for name in self.assigned_in_order(fn.body):
            self.order.setdefault(name, len(self.order))
        for a in fn.args.args:
            self.order.setdefault(a.arg, -1)

    def reads_expr(self, e):
        out = set()
        if e is None:
            return out
        for m in ast.walk(e):
            if isinstance(m, ast.Name) and isinstance(m.ctx, ast.Load) and m.id != 'self':
                out.add(m.id)
            p = self_attr(m)
            if p and isinstance(m.ctx, ast.Load):
                out.add(p)
                out |= self.method_reads.get(p, set())
        return out

    def targets(self, t):
        if isinstance(t, ast.Name):
            return [t.id], set()
        if isinstance(t, (ast.Tuple, ast.List)):
            w, r = [], set()
            for e in t.elts:
                w2, r2 = self.targets(e)
                w += w2
                r |= r2
            return w, r
        if isinstance(t, ast.Subscript):
            w, r = self.targets(t.value)
            return w, r | set(w) | self.reads_expr(t.slice)
        p = self_attr(t)
        if p:
            return [p], set()
        fail(t, 'unsupported assignment target')

    def stmt_rw(self, st):
        """-> (exposed reads, definite writes, possible writes)"""
        if isinstance(st, ast.Assign):
            r = self.reads_expr(st.value)
            w = []
            for t in st.targets:
                w2, r2 = self.targets(t)
                w += w2
                r |= r2
            return r, set(w), set(w)
        if isinstance(st, ast.AugAssign):
            w, r2 = self.targets(st.target)
            return self.reads_expr(st.value) | r2 | set(w), set(w), set(w)
        if isinstance(st, ast.Expr):
            if is_doc(st):
                return set(), set(), set()
            fail(st, 'an expression statement (a call for its effect) is not in the translatable subset')
        if isinstance(st, ast.Return):
            return self.reads_expr(st.value), set(), set()
        if isinstance(st, ast.If):
            r0 = self.reads_expr(st.test)
            r1, d1, p1 = self.block_rw(st.body)
            r2, d2, p2 = self.block_rw(st.orelse)
            return r0 | r1 | r2, d1 & d2, p1 | p2
        if isinstance(st, ast.For):
            if st.orelse:
                fail(st, '`for ... else` is not in the translatable subset')
            tw, _ = self.targets(st.target)
            r1, d1, p1 = self.block_rw(st.body)
            return self.reads_expr(st.iter) | (r1 - set(tw)), set(), p1 | set(tw)
        if isinstance(st, ast.FunctionDef):
            ps = {a.arg for a in st.args.args}
            r1, d1, p1 = self.block_rw(st.body)
            return r1 - ps, {st.name}, {st.name}
        fail(st, f'unsupported statement ({type(st).__name__})')

    def block_rw(self, stmts):
        reads, definite, possible = set(), set(), set()
        for st in stmts:
            r, d, p = self.stmt_rw(st)
            reads |= (r - definite)
            definite |= d
            possible |= p
        return reads, definite, possible

    def assigned_in_order(self, stmts):
        out = []
        for st in stmts:
            if isinstance(st, ast.If):
                out += self.assigned_in_order(st.body) + self.assigned_in_order(st.orelse)
            elif isinstance(st, ast.For):
                out += self.targets(st.target)[0] + self.assigned_in_order(st.body)
            elif isinstance(st, ast.Assign):
                for t in st.targets:
                    out += self.targets(t)[0]
            elif isinstance(st, ast.AugAssign):
                out += self.targets(st.target)[0]
            elif isinstance(st, ast.FunctionDef):
                out.append(st.name)
        return out


# ---------------------------------------------------------------------------------------------------------------------

class Tr:
    """translator of one function under one variant"""

    def __init__(self, fn, lean, glob, consts=None, method_reads=None):
        self.fn, self.lean, self.glob = fn, lean, glob
        self.flow = Flow(fn, method_reads or {})
        self.consts = dict(consts or {})
        self.extra = []          # contract parameters used (eps0, mloss, estimateTotal), in order of first use
        self.aux = []            # auxiliary definitions (loop bodies, lifted closures) emitted before the main one
        self.nloop = 0
        self.ntmp = 0
        self.params = []         # (lean name, type) of the main definition

    def use(self, p):
        if p not in self.extra:
            self.extra.append(p)

    # ---- coercions
    def scalar(self, v, node):
        if v.ty == 'scalar':
            return v.t
        if v.ty == 'intlit':
            return enc_lit(Fraction(v.const), node)
        if v.ty == 'nat':
            return f'(Scalar.ofNat {v.t})'
        fail(node, f'a scalar is needed here, found {v.ty}')

    def typed(self, n, env, *tys):
        v = self.expr(n, env)
        if v.ty not in tys:
            fail(n, f'expected {" or ".join(tys)}, found {v.ty}')
        return v

    def decided(self, n, env):
        """the python truth value of a test the variant decides, else None"""
        if isinstance(n, ast.Compare) and len(n.ops) == 1:
            L, R = n.left, n.comparators[0]
            if isinstance(n.ops[0], (ast.Is, ast.IsNot)) and isinstance(R, ast.Constant) and R.value is None:
                v = self.expr(L, env)
                if v.isconst:
                    r = v.const is None
                    return r if isinstance(n.ops[0], ast.Is) else not r
                if v.ty == 'none':
                    return isinstance(n.ops[0], ast.Is)
                return not isinstance(n.ops[0], ast.Is)      # a translated value is never None
            if isinstance(n.ops[0], (ast.Eq, ast.NotEq)) and isinstance(R, ast.Constant) and isinstance(R.value, str):
                v = self.expr(L, env)
                if v.isconst:
                    r = (v.const == R.value) if v.const is not CALLABLE else False
                    return r if isinstance(n.ops[0], ast.Eq) else not r
                fail(n, 'comparison of a run-time value with a string')
        if isinstance(n, ast.Call) and isinstance(n.func, ast.Name) and not n.keywords:
            if n.func.id == 'callable' and len(n.args) == 1:
                v = self.expr(n.args[0], env)
                if v.isconst:
                    return v.const is CALLABLE
                if v.ty in ('objective', 'metricfn'):
                    return True
                fail(n, '`callable` of a run-time value')
            if n.func.id == 'hasattr' and len(n.args) == 2 and isinstance(n.args[1], ast.Constant):
                v = self.expr(n.args[0], env)
                if v.ty == 'vec' and n.args[1].value == 'sign':
                    return False                     # numpy arrays have no attribute `sign` (torch tensors do)
                fail(n, '`hasattr` outside the known case `hasattr(<ndarray>, "sign")`')
        return None

    # ---- expressions
    def expr(self, n, env):
        if isinstance(n, ast.Constant):
            c = n.value
            if c is None:
                return V(None, 'none', const=None, isconst=True)
            if isinstance(c, bool):
                return V('true' if c else 'false', 'bool')
            if isinstance(c, int):
                return V(str(c), 'intlit', const=c)
            if isinstance(c, float):
                return V(enc_lit(Fraction(c), n), 'scalar')
            if isinstance(c, str):
                return V(None, 'str', const=c, isconst=True)
            fail(n, 'unsupported literal')
        if isinstance(n, ast.Name):
            if n.id in env:
                return env[n.id]
            fail(n, f'unknown name `{n.id}`')
        if isinstance(n, ast.Attribute):
            return self.attribute(n, env)
        if isinstance(n, ast.BinOp):
            return self.binop(n, env)
        if isinstance(n, ast.UnaryOp):
            if isinstance(n.op, ast.Not):
                d = self.decided(n.operand, env)
                if d is not None:
                    fail(n, '`not` of a test the variant decides is only supported directly in an `if`')
                v = self.typed(n.operand, env, 'bool')
                return V(f'(!{v.t})', 'bool')
            if isinstance(n.op, ast.USub):
                v = self.expr(n.operand, env)
                if v.ty == 'intlit':
                    return V(str(-v.const), 'intlit', const=-v.const)
                if v.ty == 'scalar':
                    return V(f'(Scalar.neg {v.t})', 'scalar')
                if v.ty == 'vec':
                    return V(f'(List.map Scalar.neg {v.t})', 'vec', fresh=True)
            fail(n, 'unsupported unary operation')
        if isinstance(n, ast.Compare):
            return self.compare(n, env)
        if isinstance(n, ast.Call):
            return self.call(n, env)
        if isinstance(n, ast.Subscript):
            return self.subscript(n, env)
        if isinstance(n, ast.IfExp):
            d = self.decided(n.test, env)
            if d is None:
                fail(n, 'a conditional expression whose test the variant does not decide')
            return self.expr(n.body if d else n.orelse, env)
        if isinstance(n, ast.ListComp):
            return self.listcomp(n, env)
        if isinstance(n, ast.DictComp):
            return self.dictcomp(n, env)
        if isinstance(n, ast.Tuple) and len(n.elts) == 2:
            a, b = self.expr(n.elts[0], env), self.expr(n.elts[1], env)
            if a.ty == 'scalar' and b.ty == 'vec':
                return V(f'({a.t}, {b.t})', 'pair')
            if a.ty == 'scalar' and b.ty == 'cv':
                return V(f'({a.t}, {b.t})', 'cvpair')
            fail(n, f'unsupported pair ({a.ty}, {b.ty})')
        fail(n, f'unsupported expression ({type(n).__name__})')

    def attribute(self, n, env):
        p = self_attr(n)
        if p:
            if p in self.consts:
                c = self.consts[p]
                return V(None, 'const', const=c, isconst=True)
            if p in env:
                return env[p]
            fail(n, f'`{p}` is not available here')
        if isinstance(n.value, ast.Name) and n.value.id in ('np', 'Factor', 'CliqueVector', 'Dataset'):
            fail(n, 'a library function used as a value')
        b = self.expr(n.value, env)
        a = n.attr
        if b.ty == 'dataset':
            if a == 'records':
                return V(f'(Dataset.records {b.t})', 'nat')
            if a == 'df':
                return V(f'(frame {b.t})', 'table')
            if a == 'domain':
                return V(f'(Dataset.dom {b.t})', 'dom')
        if b.ty == 'table' and a == 'values':
            return V(f'(Dataset.Table.rows {b.t})', 'rows')
        if b.ty == 'factor':
            if a == 'domain':
                return V(f'(Factor.dom {b.t})', 'dom')
            if a == 'values':
                return V(f'(Factor.vals {b.t})', 'ndarr')
        if b.ty == 'vec' and a == 'size':
            return V(f'(List.length {b.t})', 'nat')
        if b.ty == 'mat' and a == 'T':
            return V(None, 'matT', inner=b)
        if b.ty == 'rows' and a == 'T':
            return V(None, 'rowsT', inner=b)
        fail(n, f'unsupported attribute `.{a}` of a {b.ty}')

    def subscript(self, n, env):
        b = self.expr(n.value, env)
        if b.ty == 'cv':
            k = self.typed(n.slice, env, 'clique')
            return V(f'(CliqueVec.get {b.t} {k.t})', 'factor')
        if b.ty == 'ndarr':
            k = self.expr(n.slice, env)
            if k.ty != 'idxtuple':
                fail(n, 'an array is indexed by `tuple(idx.T)` only')
            return V(f'(gather {b.t} {k.inner.t})', 'vec', fresh=True)
        if b.ty == 'meas':
            k = self.expr(n.slice, env)
            if k.ty != 'intlit':
                fail(n, 'a measurement tuple is indexed by a literal only')
            fields = ['Q', 'y', 'noise', 'proj']
            tys = ['mat', 'vec', 'scalar', 'clique']
            if not -4 <= k.const < 4:
                fail(n, 'index out of range for the 4-tuple (Q, y, noise, proj)')
            i = k.const % 4
            return V(f'(Loss.Meas.{fields[i]} {b.t})', tys[i])
        fail(n, f'unsupported subscript of a {b.ty}')

    ARITH = {ast.Add: 'add', ast.Sub: 'sub', ast.Mult: 'mul', ast.Div: 'div'}

    def binop(self, n, env):
        if isinstance(n.op, ast.MatMult):
            L, R = self.expr(n.left, env), self.expr(n.right, env)
            if L.ty == 'vec' and R.ty == 'vec':
                return V(f'(Loss.dot {L.t} {R.t})', 'scalar')
            if L.ty == 'mat' and R.ty == 'vec':
                if isinstance(n.left, ast.Name):
                    L.cols = f'(List.length {R.t})'     # numpy checks `Q.shape[1] == len(x)` here
                return V(f'(Loss.matVec {L.t} {R.t})', 'vec', fresh=True)
            if L.ty == 'matT' and R.ty == 'vec':
                if L.inner.cols is None:
                    fail(n, '`Q.T @ v` before `Q @ x`: the number of columns of `Q` is not known')
                return V(f'(Loss.matTVec {L.inner.t} {L.inner.cols} {R.t})', 'vec', fresh=True)
            fail(n, f'unsupported `@` between {L.ty} and {R.ty}')
        op = self.ARITH.get(type(n.op)) or fail(n, 'unsupported binary operator')
        return self.arith(op, self.expr(n.left, env), self.expr(n.right, env), n)

    def arith(self, op, L, R, n):
        sc = ('scalar', 'intlit', 'nat')
        if L.ty == 'intlit' and R.ty == 'intlit':
            fail(n, 'integer arithmetic on literals is not in the translatable subset')
        if L.ty in sc and R.ty in sc:
            return V(f'(Scalar.{op} {self.scalar(L, n)} {self.scalar(R, n)})', 'scalar')
        if L.ty == 'vec' and R.ty in sc:
            return V(f'(List.map (fun v => Scalar.{op} v {self.scalar(R, n)}) {L.t})', 'vec', fresh=True)
        if L.ty in sc and R.ty == 'vec':
            return V(f'(List.map (fun v => Scalar.{op} {self.scalar(L, n)} v) {R.t})', 'vec', fresh=True)
        if L.ty == 'vec' and R.ty == 'vec':
            return V(f'(List.zipWith Scalar.{op} {L.t} {R.t})', 'vec', fresh=True)
        fail(n, f'unsupported arithmetic between {L.ty} and {R.ty}')

    def compare(self, n, env):
        if self.decided(n, env) is not None:
            fail(n, 'a test the variant decides is only supported directly in an `if`')
        if len(n.ops) != 1:
            fail(n, 'chained comparison')
        L, R = self.expr(n.left, env), self.expr(n.comparators[0], env)
        a, b = self.scalar(L, n), self.scalar(R, n)
        if isinstance(n.ops[0], ast.GtE):
            return V(f'(geG {a} {b})', 'bool')
        if isinstance(n.ops[0], ast.LtE):
            return V(f'(geG {b} {a})', 'bool')
        if isinstance(n.ops[0], ast.Gt):
            return V(f'(Scalar.gt0 (Scalar.sub {a} {b}))', 'bool')
        if isinstance(n.ops[0], ast.Lt):
            return V(f'(Scalar.gt0 (Scalar.sub {b} {a}))', 'bool')
        fail(n, 'unsupported comparison')

    def listcomp(self, n, env):
        if len(n.generators) != 1 or n.generators[0].ifs or n.generators[0].is_async or not isinstance(n.generators[0].target, ast.Name):
            fail(n, 'unsupported comprehension')
        g = n.generators[0]
        it = self.typed(g.iter, env, 'measlist')
        x = lname(g.target.id)
        env2 = dict(env)
        env2[g.target.id] = V(x, 'meas')
        e = self.expr(n.elt, env2)
        if e.ty != 'clique':
            fail(n, f'a list of {e.ty} is not in the translatable subset')
        return V(f'(List.map (fun ({x} : {LEANTY["meas"]}) => {e.t}) {it.t})', 'cliques', fresh=True)

    def dictcomp(self, n, env):
        if len(n.generators) != 1 or n.generators[0].ifs or n.generators[0].is_async or not isinstance(n.generators[0].target, ast.Name):
            fail(n, 'unsupported comprehension')
        g = n.generators[0]
        it = self.typed(g.iter, env, 'cv')
        x = lname(g.target.id)
        if not (isinstance(n.key, ast.Name) and n.key.id == g.target.id):
            fail(n, 'the key of the dict comprehension must be the loop variable')
        env2 = dict(env)
        env2[g.target.id] = V(x, 'clique')
        e = self.typed(n.value, env2, 'factor')
        # iterating a dict yields its (distinct) keys in insertion order
        return V(f'(List.map (fun ({x} : JT.Clique) => ({x}, {e.t})) (List.map Prod.fst {it.t}))', 'cv', fresh=e.fresh)

    def args(self, n, k):
        if n.keywords or len(n.args) != k or any(isinstance(a, ast.Starred) for a in n.args):
            fail(n, f'expected exactly {k} positional argument(s)')
        return n.args

    def call(self, n, env):
        f = n.func
        src = ast.unparse(f)
        # --- module-level functions
        if src in ('np.log', 'np.exp', 'np.sign', 'abs'):
            self.glob.need(src, n)
            v = self.expr(self.args(n, 1)[0], env)
            g = {'np.log': 'Scalar.log', 'np.exp': 'Scalar.exp', 'np.sign': 'Loss.signS', 'abs': 'Loss.absS'}[src]
            if v.ty == 'vec':
                return V(f'(List.map {g} {v.t})', 'vec', fresh=True)
            return V(f'({g} {self.scalar(v, n)})', 'scalar')
        if src == 'np.nextafter':
            a, b = self.args(n, 2)
            if not (isinstance(a, ast.Constant) and a.value == 0 and isinstance(b, ast.Constant) and b.value == 1
                    and type(a.value) is int and type(b.value) is int):
                fail(n, '`np.nextafter` is read as the contract `eps0` only for the arguments (0, 1)')
            self.use('eps0')
            return V('eps0', 'scalar')
        if src in ('np.ones', 'np.zeros'):
            v = self.typed(self.args(n, 1)[0], env, 'nat')
            return V(f'(List.replicate {v.t} Scalar.{"one" if src == "np.ones" else "zero"})', 'vec', fresh=True)
        if src == 'logsumexp':
            self.glob.need('logsumexp', n)
            v = self.typed(self.args(n, 1)[0], env, 'vec')
            return V(f'(Scalar.lse {v.t})', 'scalar')
        if src == 'float':
            v = self.expr(self.args(n, 1)[0], env)
            return V(self.scalar(v, n), 'scalar')
        if src == 'tuple':
            v = self.typed(self.args(n, 1)[0], env, 'rowsT')
            return V(None, 'idxtuple', inner=v.inner)
        if src == 'Dataset':
            self.glob.need('Dataset', n)
            a, b, c = self.args(n, 3)
            df, dom, w = self.typed(a, env, 'table'), self.typed(b, env, 'dom'), self.typed(c, env, 'vec')
            return V(f'(Dataset.ofTable {df.t} {dom.t} (some {w.t}))', 'dataset')
        if src == 'Factor':
            self.glob.need('Factor', n)
            a, b = self.args(n, 2)
            d, v = self.typed(a, env, 'dom'), self.typed(b, env, 'vec')
            return V(f'(Factor.mk\' {d.t} (NdArr.mk [List.length {v.t}] (List.toArray {v.t})))', 'factor', fresh=True)
        if src == 'Factor.zeros':
            self.glob.need('Factor', n)
            d = self.typed(self.args(n, 1)[0], env, 'dom')
            return V(f'(Factor.zeros {d.t})', 'factor', fresh=True)
        if src == 'CliqueVector':
            self.glob.need('CliqueVector', n)
            return self.typed(self.args(n, 1)[0], env, 'cv')
        if src == 'CliqueVector.from_data':
            self.glob.need('CliqueVector', n)
            a, b = self.args(n, 2)
            d, c = self.typed(a, env, 'dataset'), self.typed(b, env, 'cliques')
            return V(f'(fromData {d.t} {c.t})', 'cv', fresh=True)
        if src == 'entropic_mirror_descent':
            emd = self.glob.emd
            if emd is None:
                fail(n, '`entropic_mirror_descent` has not been translated')
            a, b, c = self.args(n, 3)
            g, x, t = self.typed(a, env, 'objective'), self.typed(b, env, 'vec'), self.expr(c, env)
            for p in emd['extra']:
                self.use(p)
            ex = ' '.join(emd['extra'])
            return V(f'(entropicMirrorDescent {g.t} {x.t} {self.scalar(t, n)} {ex} {emd["iters"]})', 'vec', fresh=True)
        if src == 'estimate_total':
            self.glob.need_estimate_total(n)
            m = self.typed(self.args(n, 1)[0], env, 'measlist')
            self.use('estimateTotal')
            return V(f'(estimateTotal {m.t})', 'scalar')
        if src == 'self._marginal_loss':
            mu = self.typed(self.args(n, 1)[0], env, 'cv')       # one positional argument: `metric=None`
            if 'self.measurements' not in env:
                fail(n, '`self._marginal_loss` is called before `self.measurements` is assigned')
            self.use('mloss')
            return V(f'(mloss {env["self.measurements"].t} {mu.t})', 'cvpair')
        # --- calls of values / methods
        if isinstance(f, ast.Name):
            if f.id in env:
                g = env[f.id]
                if g.isconst and g.const is CALLABLE:
                    mu = self.typed(self.args(n, 1)[0], env, 'cv')
                    self.use('metric')
                    return V(f'(metric {mu.t})', 'cvpair')
                if g.ty == 'objective':
                    x = self.typed(self.args(n, 1)[0], env, 'vec')
                    return V(f'({g.t} {x.t})', 'pair')
            fail(n, f'unsupported call of `{f.id}`')
        if isinstance(f, ast.Attribute):
            b = self.expr(f.value, env)
            m = f.attr
            if b.ty == 'vec':
                if m == 'sum':
                    self.args(n, 0)
                    return V(f'(Scalar.sum {b.t})', 'scalar')
                if m == 'mean':
                    self.args(n, 0)
                    return V(f'(Scalar.div (Scalar.sum {b.t}) (Scalar.ofNat (List.length {b.t})))', 'scalar')
                if m == 'dot':
                    w = self.typed(self.args(n, 1)[0], env, 'vec')
                    return V(f'(Loss.dot {b.t} {w.t})', 'scalar')
            if b.ty == 'dataset' and m == 'project':
                c = self.typed(self.args(n, 1)[0], env, 'clique')
                return V(f'(Dataset.project {b.t} {c.t})', 'dataset')
            if b.ty == 'factor' and m == 'datavector':
                self.args(n, 0)
                return V(f'(Factor.datavector {b.t})', 'vec', fresh=True)
            fail(n, f'unsupported method `.{m}` of a {b.ty}')
        fail(n, 'unsupported call')

    # ---- statements
    def tuple_ty(self, names, env):
        return ' × '.join(f'({LEANTY[env[x].ty]})' if '×' in LEANTY[env[x].ty] or '→' in LEANTY[env[x].ty] else LEANTY[env[x].ty] for x in names)

    @staticmethod
    def proj(base, i, k):
        if k == 1:
            return base
        return base + '.2' * i + ('.1' if i < k - 1 else '')

    def bind(self, env, name, v, lets):
        """bind python variable `name` to the value v; emits a `let` for run-time values"""
        if v.isconst or v.ty in ('none', 'str', 'const'):
            env[name] = V(None, 'const', const=v.const, isconst=True)
            return
        if v.ty not in LEANTY:
            fail(name, f'a value of kind {v.ty} cannot be stored in a variable')
        x = lname(name)
        if '\n' in v.t:
            lets.append(f'let {x} : {LEANTY[v.ty]} :=\n{ind(v.t)}')
        else:
            lets.append(f'let {x} : {LEANTY[v.ty]} := {v.t}')
        env[name] = V(x, v.ty, fresh=v.fresh, cols=v.cols, src=v.src)

    def alias_guard(self, env, value_node):
        """binding a name to an existing array makes both names aliases: neither may be updated in place afterwards"""
        if isinstance(value_node, ast.Name) and value_node.id in env:
            old = env[value_node.id]
            env[value_node.id] = V(old.t, old.ty, fresh=False, const=old.const, isconst=old.isconst, cols=old.cols, src=old.src)

    def block(self, stmts, env, live_out, kont, ret):
        """Lean text of `stmts` followed by `kont(env)`; `ret(value_node, env)` gives the text of a `return`"""
        env = dict(env)
        lets = []
        for i, st in enumerate(stmts):
            rest = stmts[i + 1:]
            live = self.flow.block_rw(rest)[0] | live_out
            if is_doc(st):
                continue
            if isinstance(st, ast.Return):
                return '\n'.join(lets + [ret(st.value, env)])
            if isinstance(st, ast.Assign):
                self.assign(st, env, lets)
                continue
            if isinstance(st, ast.AugAssign):
                self.augassign(st, env, lets)
                continue
            if isinstance(st, ast.FunctionDef):
                self.closure(st, env, rest)
                continue
            if isinstance(st, ast.If):
                d = self.decided(st.test, env)
                if d is not None:
                    return '\n'.join(lets + [self.block((st.body if d else st.orelse) + rest, env, live_out, kont, ret)])
                self.if_(st, env, live, lets)
                continue
            if isinstance(st, ast.For):
                self.for_(st, env, live, lets)
                continue
            fail(st, f'unsupported statement ({type(st).__name__})')
        return '\n'.join(lets + [kont(env)])

    def assign(self, st, env, lets):
        if len(st.targets) != 1:
            fail(st, 'chained assignment')
        t = st.targets[0]
        if isinstance(t, ast.Name) or self_attr(t):
            name = t.id if isinstance(t, ast.Name) else self_attr(t)
            v = self.expr(st.value, env)
            if isinstance(st.value, ast.Name):
                v = V(v.t, v.ty, fresh=False, const=v.const, isconst=v.isconst, cols=v.cols, src=v.src)
            self.alias_guard(env, st.value)
            self.bind(env, name, v, lets)
            return
        if isinstance(t, ast.Tuple) and all(isinstance(e, ast.Name) for e in t.elts):
            names = [e.id for e in t.elts]
            if len(set(names)) != len(names):
                fail(st, 'a name occurs twice among the targets')
            if isinstance(st.value, ast.Tuple):
                if len(st.value.elts) != len(names):
                    fail(st, 'tuple assignment of unequal lengths')
                vals = [self.expr(e, env) for e in st.value.elts]          # all right-hand sides first
                for e in st.value.elts:
                    self.alias_guard(env, e)
                tmp = []
                for v in vals:
                    self.ntmp += 1
                    x = f'tmp_{self.ntmp}'
                    if v.ty not in LEANTY:
                        fail(st, f'a value of kind {v.ty} in a tuple assignment')
                    lets.append(f'let {x} : {LEANTY[v.ty]} := {v.t}')
                    tmp.append(V(x, v.ty, fresh=False, cols=v.cols))
                for name, v in zip(names, tmp):
                    self.bind(env, name, v, lets)
                return
            v = self.expr(st.value, env)
            if v.ty in ('pair', 'cvpair') and len(names) == 2:
                self.ntmp += 1
                r = f'r_{self.ntmp}'
                lets.append(f'let {r} : {LEANTY[v.ty]} := {v.t}')
                self.bind(env, names[0], V(f'{r}.1', 'scalar'), lets)
                # the second component is whatever the callee handed back: a dict of this call's own factors for
                # `_marginal_loss`, an array that may be shared for an arbitrary objective
                self.bind(env, names[1], V(f'{r}.2', 'vec' if v.ty == 'pair' else 'cv', fresh=(v.ty == 'cvpair')), lets)
                return
            fail(st, f'cannot unpack a {v.ty} into {len(names)} names')
        fail(st, 'unsupported assignment target')

    def augassign(self, st, env, lets):
        op = self.ARITH.get(type(st.op)) or fail(st, 'unsupported augmented assignment')
        t = st.target
        if isinstance(t, ast.Name):
            if t.id not in env:
                fail(st, f'`{t.id}` is not defined')
            cur = env[t.id]
            r = self.expr(st.value, env)
            if cur.ty == 'vec':
                if not cur.fresh:
                    fail(st, f'in-place update of the array `{t.id}`, which may be shared with another name or with the caller (aliasing)')
                if r.ty == 'vec' and isinstance(st.value, ast.Name) and st.value.id == t.id:
                    fail(st, 'in-place update of an array by itself')
            elif cur.ty not in ('scalar',):
                fail(st, f'augmented assignment to a {cur.ty}')
            v = self.arith(op, cur, r, st)
            if v.ty != cur.ty:
                fail(st, f'augmented assignment changes the kind of `{t.id}` from {cur.ty} to {v.ty}')
            v.fresh = cur.fresh
            self.bind(env, t.id, v, lets)
            return
        if isinstance(t, ast.Subscript) and isinstance(t.value, ast.Name) and t.value.id in env and env[t.value.id].ty == 'cv':
            if op != 'add':
                fail(st, 'only `+=` on a factor in a dict is supported')
            d = env[t.value.id]
            if not d.fresh:
                fail(st, f'in-place `+=` on a factor of `{t.value.id}`, whose factors may be shared (aliasing)')
            k = self.typed(t.slice, env, 'clique')
            r = self.typed(st.value, env, 'factor')
            v = V(f'(CliqueVec.set {d.t} {k.t} (Factor.iadd (CliqueVec.get {d.t} {k.t}) {r.t}))', 'cv', fresh=True)
            self.bind(env, t.value.id, v, lets)
            return
        fail(st, 'unsupported augmented assignment target')

    def ordered(self, names):
        return sorted(names, key=lambda x: (self.flow.order.get(x, 1 << 30), x))

    def free_params(self, stmts, env, exclude):
        """variables of `env` mentioned in `stmts` (run-time values only), parameters first"""
        r = set()
        for s in stmts:
            for m in ast.walk(s):
                r |= self.flow.reads_expr(m) if isinstance(m, ast.expr) else set()
        names = [x for x in self.ordered(r) if x in env and x not in exclude and env[x].ty in LEANTY]
        return names

    def if_(self, st, env, live, lets):
        c = self.typed(st.test, env, 'bool')
        _, _, p1 = self.flow.block_rw(st.body)
        _, _, p2 = self.flow.block_rw(st.orelse)
        ws = self.ordered([w for w in (p1 | p2) if w in live])
        for w in ws:
            if w not in env:
                fail(st, f'`{w}` is assigned in one branch only and used afterwards')
        if not ws:
            # nothing observable is assigned: check the branches anyway
            self.block(st.body, env, set(), lambda e: '()', self.no_return)
            self.block(st.orelse, env, set(), lambda e: '()', self.no_return)
            return
        k = len(ws)

        def tup(e):
            for w in ws:
                if e[w].ty != env[w].ty:
                    fail(st, f'`{w}` changes kind in a branch ({env[w].ty} -> {e[w].ty})')
            return '(' + ', '.join(e[w].t for w in ws) + ')' if k > 1 else e[ws[0]].t
        a = self.block(st.body, env, set(ws), tup, self.no_return)
        b = self.block(st.orelse, env, set(ws), tup, self.no_return)
        self.ntmp += 1
        out = f'out_{self.ntmp}' if k > 1 else None
        ty = self.tuple_ty(ws, env)
        text = f'if {c.t} then\n{ind(a)}\nelse\n{ind(b)}'
        if k == 1:
            x = lname(ws[0])
            lets.append(f'let {x} : {ty} :=\n{ind(text)}')
            env[ws[0]] = V(x, env[ws[0]].ty, fresh=False, cols=env[ws[0]].cols)
        else:
            lets.append(f'let {out} : {ty} :=\n{ind(text)}')
            for i, w in enumerate(ws):
                x = lname(w)
                lets.append(f'let {x} : {LEANTY[env[w].ty]} := {self.proj(out, i, k)}')
                env[w] = V(x, env[w].ty, fresh=False, cols=env[w].cols)

    def no_return(self, v, e):
        fail(v if isinstance(v, ast.AST) else self.fn, '`return` inside a branch or a loop is not in the translatable subset')

    def for_(self, st, env, live, lets, shared=False):
        # --- the iterable
        it = st.iter
        if isinstance(it, ast.Call) and isinstance(it.func, ast.Name) and it.func.id == 'range':
            n = self.typed(self.args(it, 1)[0], env, 'nat')
            items, ity, kind = f'(List.range {n.t})', 'Nat', 'nat'
        else:
            v = self.expr(it, env)
            if v.ty == 'measlist':
                items, ity, kind = v.t, LEANTY['meas'], 'meas'
            elif v.ty == 'cv':
                items, ity, kind = f'(List.map Prod.fst {v.t})', 'JT.Clique', 'clique'     # iterating a dict: its keys
            else:
                fail(st, f'a loop over a {v.ty} is not in the translatable subset')
        tw, _ = self.flow.targets(st.target)
        # --- the state
        r1, _, p1 = self.flow.block_rw(st.body)
        state = self.ordered([w for w in p1 if w not in tw and (w in r1 or w in live)])
        for w in state:
            if w not in env:
                fail(st, f'`{w}` is used after the loop (or across iterations) but is not defined before it')
            if env[w].ty not in LEANTY:
                fail(st, f'the loop variable `{w}` is not a run-time value')
        if not state:
            fail(st, 'a loop without effect on the translated state')
        k = len(state)
        free = self.free_params(st.body, env, set(state) | set(tw))
        self.nloop += 1
        bname = f'{self.lean}_loop{self.nloop}'
        sty = self.tuple_ty(state, env)
        # --- the body, as its own definition
        benv = dict(env)
        blets = []
        for x in free:
            benv[x] = V(lname(x), env[x].ty, fresh=False, cols=env[x].cols)
        for i, w in enumerate(state):
            x = lname(w)
            blets.append(f'let {x} : {LEANTY[env[w].ty]} := {self.proj("st", i, k)}')
            # an array created before the loop and re-created (never re-bound to a shared one) by every iteration stays
            # private; otherwise it may be shared from the second iteration on
            benv[w] = V(x, env[w].ty, fresh=env[w].fresh and not shared, cols=env[w].cols)
        if kind == 'nat':
            if not isinstance(st.target, ast.Name):
                fail(st, 'unsupported loop target')
            benv[st.target.id] = V('item', 'nat')
        elif kind == 'clique':
            if not isinstance(st.target, ast.Name):
                fail(st, 'unsupported loop target')
            blets.append(f'let {lname(st.target.id)} : JT.Clique := item')
            benv[st.target.id] = V(lname(st.target.id), 'clique')
        else:
            if not (isinstance(st.target, ast.Tuple) and len(st.target.elts) == 4 and all(isinstance(e, ast.Name) for e in st.target.elts)):
                fail(st, 'a measurement is unpacked into exactly four names')
            for e, fld, ty in zip(st.target.elts, ['Q', 'y', 'noise', 'proj'], ['mat', 'vec', 'scalar', 'clique']):
                blets.append(f'let {lname(e.id)} : {LEANTY[ty]} := item.{fld}')
                benv[e.id] = V(lname(e.id), ty)

        lost = []

        def tup(e):
            for w in state:
                if e[w].ty != env[w].ty:
                    fail(st, f'`{w}` changes kind in the loop ({env[w].ty} -> {e[w].ty})')
                if benv[w].fresh and not e[w].fresh:
                    lost.append(w)
            return '(' + ', '.join(e[w].t for w in state) + ')' if k > 1 else e[state[0]].t
        saved = (self.nloop, self.ntmp, list(self.aux), list(self.extra))
        body = self.block(st.body, benv, set(state), tup, self.no_return)
        if lost and not shared:
            self.nloop, self.ntmp, self.aux, self.extra = saved[0] - 1, saved[1], saved[2], saved[3]
            return self.for_(st, env, live, lets, shared=True)
        new_extra = [p for p in self.extra if re.search(r'(?<![A-Za-z0-9_.])' + p + r'(?![A-Za-z0-9_])', body)]
        ps = ' '.join([f'({p} : {EXTRA_TY[p]})' for p in new_extra] + [f'({lname(x)} : {LEANTY[env[x].ty]})' for x in free])
        doc = f'body of the loop at {FILE}:{st.lineno} (`{ast.unparse(st).splitlines()[0]}`); state ({", ".join(state)})'
        self.aux.append((bname, f'/-- {doc} -/\ndef {bname} {ps} (st : {sty}) (item : {ity}) : {sty} :=\n{ind(chr(10).join(blets + [body]))}\n', new_extra))
        call = ' '.join([bname] + ['§' + p for p in new_extra] + [env[x].t for x in free])
        init = '(' + ', '.join(env[w].t for w in state) + ')' if k > 1 else env[state[0]].t
        self.ntmp += 1
        s = f'st_{self.ntmp}'
        lets.append(f'let {s} : {sty} := List.foldl ({call}) {init} {items}')
        for i, w in enumerate(state):
            x = lname(w)
            lets.append(f'let {x} : {LEANTY[env[w].ty]} := {self.proj(s, i, k)}')
            env[w] = V(x, env[w].ty, fresh=env[w].fresh and not shared, cols=env[w].cols)

    def closure(self, st, env, rest):
        """a nested `def`: lifted to a definition of its own over its free variables"""
        a = st.args
        if a.vararg or a.kwarg or a.kwonlyargs or a.posonlyargs or a.defaults or st.decorator_list or len(a.args) != 1:
            fail(st, 'a nested function with one plain parameter is expected')
        if self.glob.closure_name(st.name) is None:
            fail(st, f'no name is reserved for the nested function `{st.name}`')
        lean = self.glob.closure_name(st.name)
        reads, _, _ = self.flow.block_rw(st.body)
        reads -= {a.args[0].arg}
        free = [x for x in self.ordered(reads) if x in env and env[x].ty in LEANTY]
        unknown = [x for x in reads if x not in env and x not in self.flow.method_reads and x not in self.glob.modules
                   and x not in self.glob.BUILTINS]
        if unknown:
            fail(st, f'the nested function reads {sorted(unknown)}, not available at its definition')
        later = self.flow.block_rw(rest)[2] & set(reads)
        if later:
            fail(st, f'{sorted(later)} is re-assigned after the definition of `{st.name}` (the closure would see the new value)')
        sub = Tr(st, lean, self.glob, self.consts, self.flow.method_reads)
        cenv = {x: V(lname(x), env[x].ty, fresh=False, cols=env[x].cols) for x in free}
        for x, v in env.items():
            if v.isconst:
                cenv[x] = v
        cenv[a.args[0].arg] = V(lname(a.args[0].arg), 'vec', fresh=False)

        def ret(v, e):
            if v is None:
                fail(st, 'no return value')
            r = sub.expr(v, e)
            if r.ty != 'pair':
                fail(v, f'`{st.name}` returns {r.ty}')
            return r.t
        body = sub.block(st.body, cenv, set(), lambda e: fail(st, 'no return value'), ret)
        for p in sub.extra:
            self.use(p)
        ps = ' '.join([f'({p} : {EXTRA_TY[p]})' for p in sub.extra] + [f'({lname(x)} : {LEANTY[env[x].ty]})' for x in free]
                      + [f'({lname(a.args[0].arg)} : List α)'])
        doc = f'the nested function `{st.name}` ({FILE}:{st.lineno}), lifted over its free variables'
        self.aux += sub.aux
        self.aux.append((lean, f'/-- {doc} -/\ndef {lean} {ps} : α × List α :=\n{ind(body)}\n', list(sub.extra)))
        call = ' '.join([lean] + ['§' + p for p in sub.extra] + [env[x].t for x in free])
        env[st.name] = V(f'({call})', 'objective')


EXTRA_TY = {'eps0': 'α', 'mloss': LEANTY['mloss'], 'estimateTotal': LEANTY['totalfn'], 'metric': LEANTY['metricfn']}
EXTRA_DOC = {'eps0': '`eps0` = `np.nextafter(0, 1)`', 'mloss': '`mloss ms mu` = `self._marginal_loss(mu)` while `self.measurements` is `ms`',
             'estimateTotal': '`estimateTotal` = `estimate_total` (tools/py2total.py, `TotalG.estimateTotal_public`, C09G)',
             'metric': '`metric` = the callable `self.metric`'}


# ---------------------------------------------------------------------------------------------------------------------

PRELUDE = '''/-- `x >= y` on floats, as `y - x <= 0` (false on nan) -/
def geG (x y : α) : Bool := Scalar.le0 (Scalar.sub y x)

/-- `D.df` of a dataset value: the frame `__init__` stored, `df.loc[:, domain.attrs]` -/
def frame (D : Dataset α) : Dataset.Table := { cols := Dom.attrs D.dom, rows := D.rows }

/-- `CliqueVector.from_data(data, cliques)` (clique_vector.py; its text is compared with the expected one on every run):
`ans = {}; for cl in cliques: mu = data.project(cl); ans[cl] = Factor(mu.domain, mu.datavector())` -/
def fromData (data : Dataset α) (cliques : List JT.Clique) : CliqueVec α :=
  List.foldl (fun (ans : CliqueVec α) (cl : JT.Clique) =>
    let mu : Dataset α := Dataset.project data cl
    let x : List α := Dataset.datavector mu
    CliqueVec.set ans cl (Factor.mk' (Dataset.dom mu) (NdArr.mk [List.length x] (List.toArray x)))) ([] : CliqueVec α) cliques

/-- `values[tuple(idx.T)]`: numpy integer-array indexing with one index array per axis -- one entry per row of `idx`,
read at that row's cell.  (numpy raises `IndexError` outside `[-n, n)` and counts negative entries from the end;
neither is modelled: records are cells of the domain.) -/
def gather (a : NdArr α) (idx : List (List Int)) : List α := List.map (fun r => NdArr.get a (List.map Int.toNat r)) idx
'''

HEADER = '''/- GENERATED by tools/py2pub.py from src/mbi/public_inference.py — do not edit
   Statement-level translation of `entropic_mirror_descent`, `PublicInference.__init__`, `PublicInference.estimate`
   (with its closure `loss_and_grad`) and `PublicInference._marginal_loss`.  Contract parameters:
   `eps0` = `np.nextafter(0, 1)`; `mloss ms mu` = `self._marginal_loss(mu)` while `self.measurements` is `ms`
   (instantiated by `marginalLossL2` / `marginalLossL1` / `marginalLossFn metric`); `estimateTotal` = `estimate_total`
   (translated by tools/py2total.py: `TotalG.estimateTotal_public`, C09G).  A loop is a `List.foldl` of its body, which is
   a definition of its own (`*_loopK`): the state tuple holds exactly the variables the body re-assigns. -/
import PGM.Model.Loss
import PGM.Model.Dataset
set_option linter.unusedVariables false
namespace PGM.PubG
open PGM
variable {α : Type} [Scalar α]

'''

FROM_DATA = '''
def from_data(data, cliques):
    from mbi import Factor
    ans = {}
    for cl in cliques:
        mu = data.project(cl)
        ans[cl] = Factor(mu.domain, mu.datavector())
    return CliqueVector(ans)
'''


def find(body, kind, name, where):
    return next((n for n in body if isinstance(n, kind) and n.name == name), None) or fail(where, f'{name} not found')


def signature(fn, args, defaults=None):
    a = fn.args
    if [x.arg for x in a.args] != args or a.vararg or a.kwarg or a.kwonlyargs or a.posonlyargs or fn.decorator_list:
        fail(fn, f'signature changed: {[x.arg for x in a.args]}')
    ds = dict(zip(args[len(args) - len(a.defaults):], a.defaults))
    if set(ds) != set(defaults or {}):
        fail(fn, f'the parameters with defaults are no longer {sorted(defaults or {})}')
    for p, want in (defaults or {}).items():
        d = ds.get(p)
        if not (isinstance(d, ast.Constant) and d.value == want and type(d.value) is type(want)):
            fail(fn, f'the default of `{p}` is no longer {want!r}')
    return fn


class Glob:
    """module-level facts of public_inference.py"""

    def __init__(self, tree):
        self.tree = tree
        self.emd = None
        self.imports = {}
        self.modules = set()
        for n in tree.body:
            if isinstance(n, ast.Import):
                for a in n.names:
                    self.imports[a.asname or a.name] = a.name
                    self.modules.add(a.asname or a.name)
            if isinstance(n, ast.ImportFrom):
                for a in n.names:
                    self.imports[a.asname or a.name] = f'{n.module}.{a.name}'
                    self.modules.add(a.asname or a.name)
        self.toplevel = {n.name for n in tree.body if isinstance(n, (ast.FunctionDef, ast.ClassDef))}
        self.modules |= self.toplevel
        for b in self.BUILTINS:
            if b in self.imports or b in self.toplevel:
                fail(FILE, f'the builtin `{b}` is redefined at module level')

    BUILTINS = {'tuple', 'abs', 'float', 'range', 'callable', 'hasattr'}

    WANT = {'np': 'numpy', 'logsumexp': 'scipy.special.logsumexp', 'Dataset': 'mbi.Dataset', 'Factor': 'mbi.Factor',
            'CliqueVector': 'mbi.CliqueVector'}

    def need(self, src, node):
        root = src.split('.')[0]
        if root == 'abs':
            if 'abs' in self.imports or 'abs' in self.toplevel:
                fail(node, '`abs` is no longer the builtin')
            return
        if self.imports.get(root) != self.WANT[root] or root in self.toplevel:
            fail(node, f'`{root}` is no longer `{self.WANT[root]}`')

    def need_estimate_total(self, node):
        fn = find(self.tree.body, ast.FunctionDef, 'estimate_total', FILE)
        signature(fn, ['measurements'])

    def closure_name(self, name):
        return {'loss_and_grad': 'lossAndGrad'}.get(name)


def check_sources(repo):
    def cls_of(fname, cname):
        tree = ast.parse(open(os.path.join(repo, 'src', 'mbi', fname)).read())
        return find(tree.body, ast.ClassDef, cname, fname)

    def meth(c, name, fname):
        return find(c.body, ast.FunctionDef, name, fname)
    # dataset.py
    ds = cls_of('dataset.py', 'Dataset')
    init = meth(ds, '__init__', 'dataset.py')
    if [a.arg for a in init.args.args] != ['self', 'df', 'domain', 'weights']:
        fail('dataset.py', 'Dataset.__init__ is no longer (self, df, domain, weights=None)')
    srcs = [ast.unparse(s) for s in init.body]
    for want in ('self.domain = domain', 'self.df = df.loc[:, domain.attrs]', 'self.weights = weights'):
        if want not in srcs:
            fail('dataset.py', f'Dataset.__init__ no longer contains `{want}`')
    rec = meth(ds, 'records', 'dataset.py')
    if [ast.unparse(d) for d in rec.decorator_list] != ['property'] or [ast.unparse(s) for s in rec.body] != ['return self.df.shape[0]']:
        fail('dataset.py', 'Dataset.records is no longer the property `self.df.shape[0]`')
    pr = meth(ds, 'project', 'dataset.py')
    if [a.arg for a in pr.args.args] != ['self', 'cols']:
        fail('dataset.py', 'Dataset.project is no longer (self, cols)')
    dv = meth(ds, 'datavector', 'dataset.py')
    if [a.arg for a in dv.args.args] != ['self', 'flatten'] or [ast.unparse(d) for d in dv.args.defaults] != ['True']:
        fail('dataset.py', 'Dataset.datavector is no longer (self, flatten=True)')
    # clique_vector.py
    cv = cls_of('clique_vector.py', 'CliqueVector')
    if [ast.unparse(b) for b in cv.bases] != ['dict']:
        fail('clique_vector.py', 'CliqueVector is no longer a subclass of dict (iteration / indexing are read as dict operations)')
    fd = meth(cv, 'from_data', 'clique_vector.py')
    want = ast.parse(FROM_DATA).body[0]
    if [ast.unparse(d) for d in fd.decorator_list] != ['staticmethod'] or \
            ast.dump(ast.Module(body=fd.body, type_ignores=[])) != ast.dump(ast.Module(body=want.body, type_ignores=[])) or \
            ast.dump(fd.args) != ast.dump(want.args):
        fail('clique_vector.py', 'the text of CliqueVector.from_data changed (it is read as the contract `fromData`)')
    cinit = meth(cv, '__init__', 'clique_vector.py')
    if 'dict.__init__(self, dictionary)' not in [ast.unparse(s) for s in cinit.body]:
        fail('clique_vector.py', 'CliqueVector.__init__ no longer initialises the dict from its argument')
    # factor.py
    fc = cls_of('factor.py', 'Factor')
    finit = meth(fc, '__init__', 'factor.py')
    if 'self.values = values.reshape(domain.shape)' not in [ast.unparse(s) for s in finit.body] or 'self.domain = domain' not in [ast.unparse(s) for s in finit.body]:
        fail('factor.py', 'Factor.__init__ no longer stores `domain` and `values.reshape(domain.shape)`')
    z = meth(fc, 'zeros', 'factor.py')
    if [ast.unparse(s) for s in z.body] != ['return Factor(domain, np.zeros(domain.shape))']:
        fail('factor.py', 'Factor.zeros changed')
    ia = meth(fc, '__iadd__', 'factor.py')
    if [ast.unparse(s) for s in ia.body[-3:]] != ['factor2 = other.expand(self.domain)', 'self.values += factor2.values', 'return self']:
        fail('factor.py', 'Factor.__iadd__ changed')
    fdv = meth(fc, 'datavector', 'factor.py')
    if [a.arg for a in fdv.args.args] != ['self', 'flatten'] or [ast.unparse(d) for d in fdv.args.defaults] != ['True']:
        fail('factor.py', 'Factor.datavector is no longer (self, flatten=True)')


def emit(name, doc, params, ret, body):
    ps = ' '.join(f'({p} : {t})' for p, t in params)
    return f'/-- {doc} -/\ndef {name} {ps} : {ret} :=\n{ind(body)}\n'


def finish(text):
    return text.replace('§', '')


def translate(src, repo):
    tree = ast.parse(src)
    glob = Glob(tree)
    check_sources(repo)
    out = []

    def flush(tr):
        for _, text, _ in tr.aux:
            out.append(finish(text))

    # ---- entropic_mirror_descent
    fn = signature(find(tree.body, ast.FunctionDef, 'entropic_mirror_descent', FILE), ['loss_and_grad', 'x0', 'total', 'iters'], {'iters': 250})
    tr = Tr(fn, 'entropicMirrorDescent', glob)
    env = {'loss_and_grad': V('loss_and_grad', 'objective'), 'x0': V('x0', 'vec'), 'total': V('total', 'scalar'), 'iters': V('iters', 'nat')}

    def ret_vec(v, e, tr=tr, fn=fn):
        if v is None:
            fail(fn, 'no return value')
        r = tr.expr(v, e)
        if r.ty != 'vec':
            fail(v, f'`{fn.name}` returns {r.ty}')
        return r.t
    body = tr.block(fn.body, env, set(), lambda e: fail(fn, 'no return value'), ret_vec)
    flush(tr)
    ps = [('loss_and_grad', LEANTY['objective']), ('x0', 'List α'), ('total', 'α')] + [(p, EXTRA_TY[p]) for p in tr.extra] + [('iters', 'Nat')]
    out.append(finish(emit('entropicMirrorDescent', f'`entropic_mirror_descent(loss_and_grad, x0, total, iters)` ({FILE}:{fn.lineno}); ' + '; '.join(EXTRA_DOC[p] for p in tr.extra),
                           ps, 'List α', body)))
    glob.emd = {'extra': list(tr.extra), 'iters': '250'}

    cls = find(tree.body, ast.ClassDef, 'PublicInference', FILE)
    if cls.bases or cls.decorator_list:
        fail(cls, 'class PublicInference has base classes or decorators')

    # ---- __init__
    fn = signature(find(cls.body, ast.FunctionDef, '__init__', FILE), ['self', 'public_data', 'metric'], {'metric': 'L2'})
    tr = Tr(fn, 'initWeights', glob)
    env = {'public_data': V('public_data', 'dataset', src='public_data'), 'metric': V('metric_', 'opaque', src='metric_')}

    def after_init(e, fn=fn):
        for attr, want in (('self.public_data', 'public_data'), ('self.metric', 'metric_')):
            if attr not in e or e[attr].src != want:
                fail(fn, f'`{attr}` is no longer the constructor\'s argument')
        if 'self.weights' not in e or e['self.weights'].ty != 'vec':
            fail(fn, '`self.weights` is not assigned an array')
        return e['self.weights'].t
    LEANTY['opaque'] = 'Unit'
    body = tr.block(fn.body, env, {'self.weights', 'self.public_data', 'self.metric'}, after_init, lambda v, e: fail(fn, '`return` in __init__'))
    del LEANTY['opaque']
    body = '\n'.join(l for l in body.split('\n') if 'metric_' not in l)
    flush(tr)
    out.append(finish(emit('initWeights', f'`PublicInference.__init__` ({FILE}:{fn.lineno}): the value of `self.weights` (`self.public_data`, `self.metric` are the arguments)',
                           [('public_data', 'Dataset α')] + [(p, EXTRA_TY[p]) for p in tr.extra], 'List α', body)))

    # ---- _marginal_loss, three variants
    fn = signature(find(cls.body, ast.FunctionDef, '_marginal_loss', FILE), ['self', 'marginals', 'metric'], {'metric': None})
    reads = {self_attr(m) for m in ast.walk(fn) if self_attr(m)}
    if not reads <= {'self.metric', 'self.measurements'}:
        fail(fn, f'`_marginal_loss` uses {sorted(reads)}: only `self.metric` and `self.measurements` are parameters of its translation')
    for metric, lean in (('L2', 'marginalLossL2'), ('L1', 'marginalLossL1'), (CALLABLE, 'marginalLossFn')):
        tr = Tr(fn, lean, glob, {'self.metric': metric})
        env = {'marginals': V('marginals', 'cv'), 'metric': V(None, 'const', const=None, isconst=True),
               'self.measurements': V('measurements', 'measlist')}

        def ret(v, e, tr=tr, fn=fn):
            if v is None:
                fail(fn, 'no return value')
            r = tr.expr(v, e)
            if r.ty != 'cvpair':
                fail(v, f'`_marginal_loss` returns {r.ty}')
            return r.t
        body = tr.block(fn.body, env, set(), lambda e: fail(fn, 'no return value'), ret)
        flush(tr)
        what = 'a callable' if metric is CALLABLE else ("'L1'" if metric == 'L1' else "a string other than 'L1' (the default 'L2')")
        out.append(finish(emit(lean, f'`PublicInference._marginal_loss(marginals)` ({FILE}:{fn.lineno}) when `self.metric` is {what}; `measurements` is `self.measurements`',
                               [(p, EXTRA_TY[p]) for p in tr.extra] + [('measurements', LEANTY['measlist']), ('marginals', LEANTY['cv'])], LEANTY['cvpair'], body)))

    # ---- estimate, two variants (with the closure loss_and_grad)
    fn = signature(find(cls.body, ast.FunctionDef, 'estimate', FILE), ['self', 'measurements', 'total'], {'total': None})
    closure_done = False
    for given, lean in ((True, 'estimateGiven'), (False, 'estimateNone')):
        tr = Tr(fn, lean, glob, {}, {'self._marginal_loss': set(reads)})
        env = {'measurements': V('measurements', 'measlist'), 'self.public_data': V('public_data', 'dataset', src='public_data'),
               'self.weights': V('self_weights', 'vec'), 'self._marginal_loss': V(None, 'method'),
               'self.metric': V(None, 'method'),
               'total': V('total', 'scalar') if given else V(None, 'const', const=None, isconst=True)}

        def ret(v, e, tr=tr, fn=fn):
            if v is None:
                fail(fn, 'no return value')
            r = tr.expr(v, e)
            if r.ty != 'dataset':
                fail(v, f'`estimate` returns {r.ty}')
            if e['self.public_data'].src != 'public_data':
                fail(fn, '`self.public_data` is re-assigned in `estimate`')
            return f'({r.t}, {e["self.weights"].t})'
        body = tr.block(fn.body, env, {'self.weights'}, lambda e: fail(fn, 'no return value'), ret)
        if not closure_done:
            flush(tr)
            closure_done = True
            first_aux = [t for _, t, _ in tr.aux]
        elif [t for _, t, _ in tr.aux] != first_aux:
            fail(fn, 'the nested function translates differently in the two variants of `estimate`')
        order = [p for p in ('mloss', 'estimateTotal') if p in tr.extra]
        ps = [(p, EXTRA_TY[p]) for p in order] + [('public_data', 'Dataset α'), ('self_weights', 'List α'), ('measurements', LEANTY['measlist'])] \
            + ([('total', 'α')] if given else []) + [(p, EXTRA_TY[p]) for p in tr.extra if p not in order]
        doc = f'`PublicInference.estimate(measurements, total)` ({FILE}:{fn.lineno}) with `total` ' + ('given' if given else '= None') + \
            '; the result is (returned Dataset, `self.weights` afterwards); `self_weights` is `self.weights` at entry; ' + '; '.join(EXTRA_DOC[p] for p in tr.extra)
        out.append(finish(emit(lean, doc, ps, LEANTY['result'], body)))
    return out


def main():
    ap = argparse.ArgumentParser()
    ap.add_argument('--repo', default='/repo')
    ap.add_argument('--out', required=True)
    a = ap.parse_args()
    try:
        src = open(os.path.join(a.repo, 'src', 'mbi', FILE)).read()
        defs = translate(src, a.repo)
    except Untranslatable as e:
        print('py2pub: source outside the translatable subset:', e)
        return 1
    except (OSError, SyntaxError) as e:
        print('py2pub: source outside the translatable subset:', f'cannot read/parse the source: {e}')
        return 1
    os.makedirs(a.out, exist_ok=True)
    with open(os.path.join(a.out, 'PublicG.lean'), 'w') as f:
        f.write(HEADER + PRELUDE + '\n' + '\n'.join(defs) + '\nend PGM.PubG\n')
    print(f'py2pub: {len(defs)} definitions')
    return 0


if __name__ == '__main__':
    sys.exit(main())
