#!/venv/bin/python
"""trial edits of public_inference.py: each must stop the translator or break a named gen_* theorem"""
import os, re, shutil, subprocess, sys
W = '/root/work/py2pub'
R = '/root/work/py2pub_repo'
SRC = '/repo/src/mbi/public_inference.py'
DST = R + '/src/mbi/public_inference.py'
GEN = W + '/lean/PGM/Generated/PublicG.lean'
EDITS = [
 # (label, old, new, harmless?)
 ('E01 acceptance uses fresh P (P = Q on accept)', "            logP = logQ\n", "            logP = logQ\n            P = Q\n", False),
 ('E02 drop centring', "        dL = dL - dL.mean()\n", "", False),
 ('E03 step sign', "logQ = logP - alpha*dL", "logQ = logP + alpha*dL", False),
 ('E04 >= to >', "if loss - new_loss >= 0.5*alpha", "if loss - new_loss > 0.5*alpha", False),
 ('E05 constant 0.5 -> 0.25 in test', ">= 0.5*alpha*dL.dot(P-Q)", ">= 0.25*alpha*dL.dot(P-Q)", False),
 ('E06 swap P-Q', "alpha*dL.dot(P-Q)", "alpha*dL.dot(Q-P)", False),
 ('E07 drop begun guard', "if not begun: alpha *= 2", "alpha *= 2", False),
 ('E08 halving -> 0.25', "            alpha *= 0.5\n", "            alpha *= 0.25\n", False),
 ('E09 forget begun = True', "            begun = True\n", "            begun = False\n", False),
 ('E10 renormalise with sum instead of logsumexp', "logQ += np.log(total) - logsumexp(logQ)", "logQ += np.log(total) - np.log(logQ.sum())", False),
 ('E11 return exp(logQ)-like: return P', "    return np.exp(logP)\n", "    return P\n", False),
 ('E12 start: drop eps guard (m6 clean-up)', "np.log(x0+np.nextafter(0,1)) + np.log(total)", "np.log(x0) + np.log(total)", False),
 ('E13 in-place normalisation of x0 (m2)', "    P = x0 * total / x0.sum()\n", "    x0 *= total / x0.sum()\n    P = x0\n", False),
 ('E14 keep loss on accept (wrong variable)', "loss, dL = new_loss, new_dL", "loss, dL = loss, new_dL", False),
 ('E15 init weights zeros', "self.weights = np.ones(self.public_data.records)", "self.weights = np.zeros(self.public_data.records)", False),
 ('E16 L1 branch loses c (m1)', "grad = c*(Q.T @ sign)", "grad = Q.T @ sign", False),
 ('E17 L2 loss constant', "loss += 0.5*(diff @ diff)", "loss += (diff @ diff)", False),
 ('E18 residual sign', "diff = c*(Q @ x - y)", "diff = c*(y - Q @ x)", False),
 ('E19 gradient = instead of +=', "gradient[cl] += Factor(mu.domain, grad)", "gradient[cl] = Factor(mu.domain, grad)", False),
 ('E20 gather from wrong dataset (public_data instead of est)', "idx = est.project(cl).df.values", "idx = self.public_data.project(cl).df.values", True),
 ('E21 dweights overwritten', "dweights += dL[cl].values[tuple(idx.T)]", "dweights = dL[cl].values[tuple(idx.T)]", False),
 ('E22 estimate ignores given total', "        if total is None:\n            total = estimate_total(measurements)", "        total = estimate_total(measurements)", False),
 ('E23 iters default 250 -> 25', "iters=250", "iters=25", False),
 ('E24 returned dataset carries old weights', "        self.weights = entropic_mirror_descent(loss_and_grad, self.weights, total)\n        return Dataset(self.public_data.df, self.public_data.domain, self.weights)",
        "        w = self.weights\n        self.weights = entropic_mirror_descent(loss_and_grad, self.weights, total)\n        return Dataset(self.public_data.df, self.public_data.domain, w)", False),
 ('E25 cliques from first field', "cliques = [M[-1] for M in measurements]", "cliques = [M[-2] for M in measurements]", False),
 ('E26 measurements assigned after descent (closure sees old list)', "        self.measurements = measurements\n", "", False),
 ('E27 range(iters+1)', "for _ in range(iters):", "for _ in range(iters+1):", False),
 ('E28 mean -> sum in centring', "dL = dL - dL.mean()", "dL = dL - dL.sum()", False),
 ('E29 double when begun (inverted flag)', "if not begun: alpha *= 2", "if begun: alpha *= 2", False),
 ('E30 test compares new_loss - loss', "if loss - new_loss >=", "if new_loss - loss >=", False),
 ('E31 Q from logP', "        Q = np.exp(logQ)\n", "        Q = np.exp(logP)\n", False),
 ('E32 closure tabulates self.weights not weights', "est = Dataset(self.public_data.df, self.public_data.domain, weights)", "est = Dataset(self.public_data.df, self.public_data.domain, self.weights)", False),
 ('E33 starting point not scaled to total', "    P = x0 * total / x0.sum()\n", "    P = x0 / x0.sum()\n", False),
 ('E34 loss_and_grad returns gradient of first clique only (return inside loop)', "                dweights += dL[cl].values[tuple(idx.T)]\n", "                dweights += dL[cl].values[tuple(idx.T)]\n                return loss, dweights\n", False),
 ('E35 logsumexp rebound to another function', "from scipy.special import logsumexp", "from numpy import logaddexp as logsumexp", False),
 # harmless rewrites
 ('H1 rename local new_loss -> nl', None, None, True),
 ('H2 reorder alpha = 1.0 / begun = False', "    alpha = 1.0\n    begun = False\n", "    begun = False\n    alpha = 1.0\n", True),
 ('H3 remove the dead statement P = np.exp(logP)', "    P = np.exp(logP)\n", "", True),
 ('H4 x = mu.datavector() before c = 1.0/noise', "            c = 1.0/noise\n            x = mu.datavector()\n", "            x = mu.datavector()\n            c = 1.0/noise\n", True),
 ('H5 alpha *= 0.5 -> alpha = alpha * 0.5', "            alpha *= 0.5\n", "            alpha = alpha * 0.5\n", True),
]

def run(cmd, **kw):
    p = subprocess.run(cmd, stdout=subprocess.PIPE, stderr=subprocess.STDOUT, text=True, **kw)
    return p.returncode, p.stdout

only = sys.argv[1:]
for label, old, new, harmless in EDITS:
    if only and not any(label.startswith(o) for o in only):
        continue
    src = open(SRC).read()
    if label.startswith('H1'):
        out = re.sub(r'\bnew_loss\b', 'nl', src)
    else:
        if src.count(old) < 1:
            print(label, '-> EDIT DOES NOT APPLY'); continue
        out = src.replace(old, new, 1) if not label.startswith('E16') else src.replace(old, new)
    open(DST, 'w').write(out)
    subprocess.run(['/venv/bin/python', '-c', f'import ast;ast.parse(open("{DST}").read())'], check=True)
    tmp = '/tmp/pubtrial'
    shutil.rmtree(tmp, ignore_errors=True)
    rc, o = run(['/venv/bin/python', W + '/tools/py2pub.py', '--repo', R, '--out', tmp])
    if rc != 0:
        print(f'{label} -> TRANSLATOR STOPS: {o.strip()[:230]}'); continue
    shutil.copy(tmp + '/PublicG.lean', GEN)
    rc, o = run(['lake', 'build', 'PGM.Properties.C19G'], cwd=W + '/lean')
    if rc == 0:
        print(f'{label} -> PASSES' + (' (harmless rewrite)' if harmless else '  <<<<<< NOT CAUGHT'))
    else:
        lines = [int(x) for x in re.findall(r'error: PGM/Properties/C19G.lean:(\d+):', o)]
        genfail = 'PublicG.lean' in ''.join(re.findall(r'error: (PGM/Generated[^\n]*)', o))
        text = open(W + '/lean/PGM/Properties/C19G.lean').read().split('\n')
        names = []
        for ln in lines:
            k = ln - 1
            if text[k].startswith('/--'):          # the error is reported at the docstring: the declaration follows
                while not re.match(r'(theorem|example|def)\b', text[k]):
                    k += 1
            while not re.match(r'(theorem|example|def)\b', text[k]):
                k -= 1
            m = re.match(r'(theorem|example|def)\s*(\S*)', text[k])
            names.append(m.group(2) if m.group(2) not in ('', ':') else f'example@{k+1}')
        names = list(dict.fromkeys(names))
        print(f'{label} -> BREAKS {names}' + (' [generated file does not compile]' if genfail else ''))
shutil.copy(SRC, DST)
run(['/venv/bin/python', W + '/tools/py2pub.py', '--repo', '/repo', '--out', W + '/lean/PGM/Generated'])
