#!/usr/bin/env python3
"""tools/py2sel.py --repo R --out DIR

Translates the PRIVATE SELECTION sites of the four shipped mechanisms, statement by statement from the AST, into
Lean definitions over an abstract scalar type `K` (`DIR/SelectG.lean`, namespace `PGM.SelectG`, core Lean only):

    mechanisms/mechanism.py     Mechanism.exponential_mechanism   once per dynamic type of `qualities` (dict / array)
                                                                  and of `base_measure` (None / given)
    mechanisms/aim.py           AIM.worst_approximated (+ its locals errors / sensitivity / max_sensitivity),
                                hypothetical_model_size, filter_candidates,
                                the selection statements of AIM.run (small_candidates = ..; cl = ..)
                                [compile_workload is NOT translated: the theorems hold for arbitrary real weights]
    mechanisms/mwem+pgm.py      worst_approximated (+ locals errors / sensitivity), the call in mwem_pgm
    mechanisms/mst.py           exponential_mechanism, select (+ locals weights / epsilon, loop bodies), the call in MST
    mechanisms/adaptive_grid.py exponential_mechanism, select (+ locals weights / epsilon, loop bodies), the call in adagrid

`PGM/Properties/C05S.lean` proves, for the generated definitions, that every score moves by at most the sensitivity
the generated code hands to its exponential mechanism when the private answer vectors move by at most 1 (2) in L1,
and that the log-probability of every candidate then moves by at most the epsilon of the call.

What is a parameter of the generated definitions (a *contract*):
  np : NpOps K        np.exp, np.log, np.sqrt, np.pi, np.inf, np.finfo(np.float64).max;
                      `softmax(v)` and `exp(v - logsumexp(v))` are `exp(vᵢ − log Σ exp vⱼ)` (header: `softmaxL`, `lse`)
  g : GraphOps A DS   DisjointSet() / .union / .connected, number of nx.connected_components,
                      GraphicalModel(domain, cliques).size, downward_closure of a clique list
  a model object      `m.project(cl).datavector()` -> `m_dv cl`, `m.domain.size(cl)` -> `m_size cl`, `m.cliques`
  a dataset object    `data.project(cl).datavector()` -> `data_dv cl` (THE PRIVATE INPUT), `data.domain.attrs`
  dicts of arrays     `answers[cl]` -> `answers cl` (the private input of AIM / MWEM+PGM)
  draws : Nat → Nat   in `select`, the outcome of the k-th draw (k = number of draws made so far); every draw is
                      appended to a transcript that the definition returns next to the Python return value
A draw `prng.choice(n, p=p)` / `np.random.choice(n, p=p)` is the value `choice n p : Draw K`; `keys[draw]` is the pair
`(keys, draw)`.

The translatable subset (anything else stops the translator with file:line -- a broken obligation):
  statements   x = e ; d[k] = e (dict) ; `for v in <dict | list | range(n)>:` / `for a, b in <list of pairs>:` (-> List.foldl
               of a NAMED loop-body definition over the tuple of the outer variables the body re-assigns) ;
               `if c:` with a condition decided by the dynamic type (isinstance(x, dict), x is None) or a run-time test
               re-binding existing variables ; `return e` as last statement ; T.add_edge(*e) / T.add_nodes_from(l) /
               ds.union(*e) on locally created nx.Graph() / DisjointSet() ; docstrings, print(..)
  expressions  names, int / float literals, True/False/None ; + - * / with numpy broadcasting (scalar/array) ; unary - ;
               `a if c else b` ; == <= < >= > ; not / or ; `in` on lists ; abs, max(list), len, sum(generator) ;
               np.sqrt, np.pi, np.inf, np.finfo(np.float64).max, np.linalg.norm(v, 1), np.abs, np.exp, np.log,
               v.sum(), v.max(), v.size, np.array([]), np.array(e), np.append(v, e), np.arange(n), softmax, logsumexp ;
               d[k], list(d.keys()), d.values(), list(e) ; list comprehensions with one generator and at most one `if` ;
               [a, b], [a, b] + l, l + [c], e + tuple(l) ; itertools.combinations(l, 2) ; isinstance(x, dict) ;
               data.domain.invert(l) (by the body of Domain.invert, re-read from src/mbi/domain.py and compared) ;
               calls of other translated functions (positional / keyword arguments bound through the callee's
               signature as read from the source, defaults included ; `self.f` resolved through the class and its
               single base class, both re-read from source).
  `self.<attr>` other than `self.prng` and method calls is object state carried across calls: outside the subset.
  The default values of scalar / flag parameters of the translated functions are emitted as `<name>_default_<param>`.
  `Mechanism.generalized_exponential_mechanism` / `permute_and_flip` are not called by any shipped mechanism: not translated.
"""
import argparse, ast, os, sys


class Untranslatable(Exception):
    pass


CUR = {'file': '?'}


def fail(node, why):
    line = getattr(node, 'lineno', '?')
    text = ast.unparse(node) if isinstance(node, ast.AST) else str(node)
    if len(text) > 160:
        text = text[:157] + '...'
    raise Untranslatable(f'{CUR["file"]}:{line} {why}: {text}')


# ---------------------------------------------------------------------------------------------------------
# types.  Strings for the simple ones, tuples for the parametrised ones.
K, Z, B, ARR = 'K', 'Z', 'B', 'ARR'            # scalar, python int, bool, 1-d float array (List K)
NONE, PRNG, SELF, OPAQUE, DRAW, ENGINE, GRAPH, DS = 'NONE', 'PRNG', 'SELF', 'OPAQUE', 'DRAW', 'ENGINE', 'GRAPH', 'DS'


def KEY(t): return ('KEY', t)                  # opaque hashable of Lean type t
def LIST(e): return ('LIST', e)                # python list / tuple of e
def DICT(k): return ('DICT', k)                # dict key-type -> scalar   (insertion ordered association list)
def FUN(k): return ('FUN', k)                  # read-only dict key -> array
def MODEL(k): return ('MODEL', k)              # GraphicalModel: answers for cliques of type k
def DATA(k): return ('DATA', k)                # Dataset
def KEYED(k): return ('KEYED', k)              # keys[draw]


CL = KEY('C')
ATTR = KEY('A')
PAIR = KEY('A × A')
ALIST = LIST(ATTR)


def lean_ty(t):
    if t == K: return 'K'
    if t == Z: return 'Int'
    if t == B: return 'Bool'
    if t == ARR: return 'List K'
    if t == DRAW: return 'Draw K'
    if t == GRAPH: return 'List A × List (A × A)'
    if t == DS: return 'DS'
    if isinstance(t, tuple):
        if t[0] == 'KEY': return t[1]
        if t[0] == 'LIST':
            inner = lean_ty(t[1])
            return f'List ({inner})' if ' ' in inner else f'List {inner}'
        if t[0] == 'DICT': return f'List ({par_ty(t[1])} × K)'
        if t[0] == 'KEYED': return f'{lean_ty(LIST(t[1]))} × Draw K'
        if t[0] == 'PROD': return ' × '.join(par_ty(x) for x in t[1])
    raise Untranslatable(f'internal: no Lean type for {t}')


def par_ty(t):
    s = lean_ty(t)
    return f'({s})' if ' ' in s else s


def binders(name, t):
    """Lean binders of a Python variable of type t (objects expand into their contract functions)"""
    if isinstance(t, tuple) and t[0] == 'HASMODEL':
        return binders(name + '_model', t[1])
    if not (t in (K, Z, B, ARR, DRAW, GRAPH, DS) or (isinstance(t, tuple) and t[0] in ('KEY', 'LIST', 'DICT', 'FUN', 'MODEL', 'DATA', 'KEYED'))):
        return []
    if isinstance(t, tuple) and t[0] == 'FUN':
        return [(name, f'{par_ty(t[1])} → List K')]
    if isinstance(t, tuple) and t[0] == 'MODEL':
        k = par_ty(LIST(t[1])) if t[1] == ATTR else par_ty(t[1])
        return [(name + '_dv', f'{k} → List K'), (name + '_size', f'{k} → K'), (name + '_cliques', f'List {k}')]
    if isinstance(t, tuple) and t[0] == 'DATA':
        return [(name + '_dv', 'List A → List K'), (name + '_attrs', 'List A')]
    return [(name, lean_ty(t))]


class Val:
    def __init__(self, lean, ty, lit=None):
        self.lean, self.ty, self.lit = lean, ty, lit


def as_K(v, node):
    if v.ty == K:
        return v.lean
    if v.ty == Z:
        if v.lit is not None:
            return f'(({v.lit} : Int) : K)'
        return f'(({v.lean} : Int) : K)'
    fail(node, f'expected a scalar, got {v.ty}')


def lit_float(x):
    s = repr(float(x))
    if 'e' in s or 'inf' in s or 'nan' in s:
        raise Untranslatable(f'float literal {s}')
    return f'({s} : K)'


# ---------------------------------------------------------------------------------------------------------
class Fn:
    """one generated definition in the making"""
    def __init__(self, gen, spec, fdef, cls=None):
        self.gen, self.spec, self.fdef, self.cls = gen, spec, fdef, cls
        self.name = spec['name']
        self.env = {}
        self.params = []              # [(python name, type)]
        self.extra = []               # loop-body definitions emitted before this one
        self.nloop = 0
        self.oracle = spec.get('oracle', False)
        self.locals_order = []        # non-parameter names bound so far, in order
        self.local_defs = {}          # python name -> nested FunctionDef

    # ---- binders -----------------------------------------------------------------------------------------
    def header_binders(self):
        bs = ['(np : NpOps K)']
        if self.spec.get('graph'):
            bs.append('(g : GraphOps C DS K)' if self.spec.get('graph') == 'C' else '(g : GraphOps A DS K)')
        for n, t in self.params:
            for bn, bt in binders(n, t):
                bs.append(f'({bn} : {bt})')
        if self.oracle:
            bs.append('(draws : Nat → Nat)')
        return bs

    def header_args(self):
        a = ['np']
        if self.spec.get('graph'):
            a.append('g')
        for n, t in self.params:
            a += [bn for bn, _ in binders(n, t)]
        if self.oracle:
            a.append('draws')
        return a

    # ---- expressions ---------------------------------------------------------------------------------------
    def expr(self, n):
        if isinstance(n, ast.Name):
            if n.id in self.env:
                return self.env[n.id]
            fail(n, 'unknown name (not a parameter / local of the translated function)')
        if isinstance(n, ast.Constant):
            v = n.value
            if v is None: return Val(None, NONE)
            if v is True: return Val('true', B)
            if v is False: return Val('false', B)
            if isinstance(v, int): return Val(f'({v} : Int)', Z, lit=v)
            if isinstance(v, float): return Val(lit_float(v), K)
            fail(n, 'literal')
        if isinstance(n, ast.BinOp): return self.binop(n)
        if isinstance(n, ast.UnaryOp):
            if isinstance(n.op, ast.USub):
                v = self.expr(n.operand)
                if v.ty == ARR: return Val(f'({v.lean}.map (fun t => -t))', ARR)
                if v.ty == Z: return Val(f'(-{v.lean})', Z)
                return Val(f'(-{as_K(v, n)})', K)
            if isinstance(n.op, ast.Not):
                v = self.want(n.operand, B)
                return Val(f'(!{v.lean})', B)
            fail(n, 'unary operator')
        if isinstance(n, ast.IfExp):
            c = self.want(n.test, B)
            a, b = self.expr(n.body), self.expr(n.orelse)
            if a.ty == b.ty and a.ty in (Z, B):
                return Val(f'(if {c.lean} = true then {a.lean} else {b.lean})', a.ty)
            return Val(f'(if {c.lean} = true then {as_K(a, n)} else {as_K(b, n)})', K)
        if isinstance(n, ast.Compare): return self.compare(n)
        if isinstance(n, ast.BoolOp):
            vs = [self.want(x, B) for x in n.values]
            op = ' || ' if isinstance(n.op, ast.Or) else ' && '
            return Val('(' + op.join(v.lean for v in vs) + ')', B)
        if isinstance(n, ast.Attribute): return self.attribute(n)
        if isinstance(n, ast.Subscript): return self.subscript(n)
        if isinstance(n, ast.Call): return self.call(n)
        if isinstance(n, ast.ListComp): return self.listcomp(n)
        if isinstance(n, ast.DictComp): return self.dictcomp(n)
        if isinstance(n, ast.Dict) and not n.keys:
            return Val(None, ('EMPTYDICT',))
        if isinstance(n, ast.List) and not n.elts:
            return Val('[]', ('EMPTYLIST',))
        if isinstance(n, (ast.List, ast.Tuple)):
            vs = [self.expr(x) for x in n.elts]
            if isinstance(n, ast.Tuple) and len(vs) == 2 and all(v.ty == ATTR for v in vs):
                return Val(f'({vs[0].lean}, {vs[1].lean})', PAIR)
            if vs and all(v.ty == vs[0].ty for v in vs) and isinstance(vs[0].ty, tuple) and vs[0].ty[0] == 'KEY':
                return Val('[' + ', '.join(v.lean for v in vs) + ']', LIST(vs[0].ty))
            fail(n, 'list / tuple display (only displays of attributes or cliques)')
        fail(n, 'expression form')

    def want(self, n, ty):
        v = self.expr(n)
        if v.ty != ty:
            fail(n, f'expected {ty}, got {v.ty}')
        return v

    def binop(self, n):
        ops = {ast.Add: '+', ast.Sub: '-', ast.Mult: '*', ast.Div: '/'}
        a, b = self.expr(n.left), self.expr(n.right)
        # list concatenation / tuple extension
        if isinstance(n.op, ast.Add) and isinstance(a.ty, tuple) and a.ty[0] == 'LIST' and a.ty == b.ty:
            return Val(f'({a.lean} ++ {b.lean})', a.ty)
        if isinstance(n.op, ast.Add) and a.ty == PAIR and b.ty == ALIST:
            return Val(f'([{a.lean}.1, {a.lean}.2] ++ {b.lean})', ALIST)
        if isinstance(n.op, ast.Pow):
            if b.ty == Z and b.lit is not None and b.lit >= 0:
                if a.ty == Z:
                    return Val(f'({a.lean} ^ {b.lit})', Z)
                return Val(f'(powNat {as_K(a, n)} {b.lit})', K)
            fail(n, '** with an exponent that is not a literal natural number')
        if type(n.op) not in ops:
            fail(n, 'binary operator')
        op = ops[type(n.op)]
        if a.ty == Z and b.ty == Z and op != '/':
            return Val(f'({a.lean} {op} {b.lean})', Z)
        if a.ty == ARR and b.ty == ARR:
            return Val(f'(List.zipWith (fun s t => s {op} t) {a.lean} {b.lean})', ARR)
        if a.ty == ARR:
            return Val(f'({a.lean}.map (fun t => t {op} {as_K(b, n)}))', ARR)
        if b.ty == ARR:
            return Val(f'({b.lean}.map (fun t => {as_K(a, n)} {op} t))', ARR)
        return Val(f'({as_K(a, n)} {op} {as_K(b, n)})', K)

    def compare(self, n):
        if len(n.ops) != 1:
            fail(n, 'chained comparison')
        op, l, r = n.ops[0], n.left, n.comparators[0]
        if isinstance(op, (ast.Is, ast.IsNot)):
            if not (isinstance(r, ast.Constant) and r.value is None):
                fail(n, '`is` other than `is None`')
            v = self.expr(l)
            res = (v.ty == NONE) == isinstance(op, ast.Is)
            return Val('true' if res else 'false', B, lit=res)
        if isinstance(op, (ast.In, ast.NotIn)):
            a, b = self.expr(l), self.expr(r)
            if not (isinstance(b.ty, tuple) and b.ty[0] == 'LIST' and b.ty[1] == a.ty):
                fail(n, f'`in` needs a list of the element type, got {a.ty} in {b.ty}')
            s = f'(decide ({a.lean} ∈ {b.lean}))'
            return Val(s if isinstance(op, ast.In) else f'(!{s})', B)
        a, b = self.expr(l), self.expr(r)
        sym = {ast.Eq: '=', ast.LtE: '≤', ast.Lt: '<', ast.GtE: '≥', ast.Gt: '>'}.get(type(op))
        if sym is None:
            fail(n, 'comparison operator')
        if a.ty == Z and b.ty == Z:
            return Val(f'(decide ({a.lean} {sym} {b.lean}))', B)
        return Val(f'(decide ({as_K(a, n)} {sym} {as_K(b, n)}))', B)

    def attribute(self, n):
        s = ast.unparse(n)
        if s == 'np.pi': return Val('np.pi', K)
        if s == 'np.inf': return Val('np.inf', K)
        if s == 'np.random': return Val(None, PRNG)
        if isinstance(n.value, ast.Name) and n.value.id == 'self' and self.env.get('self', Val(None, None)).ty == SELF:
            if n.attr == 'prng': return Val(None, PRNG)
            fail(n, 'attribute of `self`: object state that survives the call is outside the subset (only self.prng and method calls are)')
        v = self.expr(n.value) if not (isinstance(n.value, ast.Name) and n.value.id in ('np', 'nx', 'itertools')) else None
        if v is None:
            fail(n, 'library attribute')
        if n.attr == 'size' and v.ty == ARR:
            return Val(f'({v.lean}.length : Int)', Z)
        if n.attr == 'edges' and v.ty == GRAPH:
            return Val(f'{v.lean}.2', LIST(PAIR))
        if n.attr == 'domain' and isinstance(v.ty, tuple) and v.ty[0] in ('MODEL', 'DATA'):
            return Val(v.lean, ('DOMAIN', v.ty))
        if n.attr == 'attrs' and isinstance(v.ty, tuple) and v.ty[0] == 'DOMAIN' and v.ty[1][0] == 'DATA':
            return Val(f'{v.lean}_attrs', ALIST)
        if n.attr == 'cliques' and isinstance(v.ty, tuple) and v.ty[0] == 'MODEL':
            return Val(f'{v.lean}_cliques', LIST(self.model_key(v.ty)))
        if n.attr == 'size' and v.ty == ('GM',):
            return Val(f'(g.gm_size {v.lean})', K)
        if n.attr == 'model' and isinstance(v.ty, tuple) and v.ty[0] == 'HASMODEL':
            return Val(f'{v.lean}_model', v.ty[1])
        fail(n, f'attribute .{n.attr} of a value of type {v.ty}')

    @staticmethod
    def model_key(t):
        return ALIST if t[1] == ATTR else t[1]

    def subscript(self, n):
        base = self.expr(n.value)
        idx = self.expr(n.slice)
        if isinstance(base.ty, tuple) and base.ty[0] == 'DICT':
            if idx.ty != base.ty[1]:
                fail(n, f'dict key of type {idx.ty}, expected {base.ty[1]}')
            return Val(f'(dictGet {base.lean} {idx.lean})', K)
        if isinstance(base.ty, tuple) and base.ty[0] == 'FUN':
            if idx.ty != base.ty[1]:
                fail(n, f'key of type {idx.ty}, expected {base.ty[1]}')
            return Val(f'({base.lean} {idx.lean})', ARR)
        if isinstance(base.ty, tuple) and base.ty[0] == 'LIST' and idx.ty == DRAW:
            return Val(f'({base.lean}, {idx.lean})', KEYED(base.ty[1]))
        if isinstance(base.ty, tuple) and base.ty[0] == 'LIST' and idx.ty == ('IDX',):
            return Val(f'(listGet {base.lean} {idx.lean})', base.ty[1])
        fail(n, f'subscript of {base.ty} by {idx.ty}')

    # ---- calls ---------------------------------------------------------------------------------------------
    def call(self, n):
        f = n.func
        fs = ast.unparse(f)
        args, kws = n.args, {k.arg: k.value for k in n.keywords}
        if any(k.arg is None for k in n.keywords):
            fail(n, '**kwargs')

        def only(k, *kwnames):
            if len(args) != k or set(kws) - set(kwnames):
                fail(n, f'{fs}: expected {k} positional argument(s)')

        if fs == 'isinstance':
            only(2); v = self.expr(args[0])
            if ast.unparse(args[1]) != 'dict': fail(n, 'isinstance test other than `dict`')
            res = isinstance(v.ty, tuple) and v.ty[0] == 'DICT'
            return Val('true' if res else 'false', B, lit=res)
        if fs == 'abs':
            only(1); v = self.expr(args[0])
            return Val(f'(absK {as_K(v, n)})', K)
        if fs == 'np.sqrt':
            only(1); return Val(f'(np.sqrt {as_K(self.expr(args[0]), n)})', K)
        if fs in ('np.exp', 'np.log'):
            only(1); v = self.expr(args[0])
            if v.ty == ARR: return Val(f'({v.lean}.map {fs})', ARR)
            return Val(f'({fs} {as_K(v, n)})', K)
        if fs == 'np.abs':
            only(1); v = self.want(args[0], ARR)
            return Val(f'({v.lean}.map absK)', ARR)
        if fs == 'np.linalg.norm':
            only(2); v = self.want(args[0], ARR); p = self.expr(args[1])
            if p.lit != 1: fail(n, 'np.linalg.norm with an order other than the literal 1')
            return Val(f'(npSum ({v.lean}.map absK))', K)
        if fs == 'np.array':
            only(1)
            if isinstance(args[0], ast.List) and not args[0].elts:
                return Val('([] : List K)', ARR)
            v = self.expr(args[0])
            if v.ty == ARR: return v
            fail(n, f'np.array of {v.ty}')
        if fs == 'np.append':
            only(2); v = self.want(args[0], ARR); x = self.expr(args[1])
            return Val(f'({v.lean} ++ [{as_K(x, n)}])', ARR)
        if fs == 'np.arange':
            only(1); v = self.want(args[0], Z)
            return Val(f'(List.range ({v.lean}).toNat)', LIST(KEY('Nat')))
        if fs == 'np.finfo':
            fail(n, 'np.finfo outside np.finfo(np.float64).max')
        if fs == 'softmax':
            only(1); v = self.want(args[0], ARR)
            return Val(f'(softmaxL np {v.lean})', ARR)
        if fs == 'logsumexp':
            only(1); v = self.want(args[0], ARR)
            return Val(f'(lse np {v.lean})', K)
        if fs == 'len':
            only(1); v = self.expr(args[0])
            if v.ty == ARR or (isinstance(v.ty, tuple) and v.ty[0] in ('LIST', 'DICT')):
                return Val(f'({v.lean}.length : Int)', Z)
            if isinstance(v.ty, tuple) and v.ty[0] == 'DOMAIN' and v.ty[1][0] == 'DATA':
                return Val(f'({v.lean}_attrs.length : Int)', Z)
            if v.ty == ('NCOMP',):
                return Val(f'(({v.lean} : Nat) : Int)', Z)
            fail(n, f'len of {v.ty}')
        if fs == 'max':
            only(1); v = self.want(args[0], ARR)
            return Val(f'(pyMaxList {v.lean})', K)
        if fs == 'sum':
            only(1)
            g = args[0]
            if not isinstance(g, ast.GeneratorExp):
                fail(n, 'sum of something other than a generator expression')
            v = self.listcomp(g)
            if v.ty == LIST(KEY('Int')) or v.ty == ('LIST', Z):
                return Val(f'(intSum {v.lean})', Z)
            if v.ty == ARR:
                return Val(f'(npSum {v.lean})', K)
            fail(n, f'sum over {v.ty}')
        if fs in ('list', 'tuple'):
            only(1); v = self.expr(args[0])
            if v.ty == ('CC',): return Val(v.lean, ('NCOMP',))
            if isinstance(v.ty, tuple) and v.ty[0] == 'LIST': return v
            fail(n, f'{fs}() of {v.ty}')
        if fs == 'set':
            only(1); v = self.expr(args[0])
            if v.ty in (CL,): return Val(v.lean, ('SET', 'C'))
            fail(n, f'set() of {v.ty}')
        if fs == 'itertools.combinations':
            only(2); v = self.want(args[0], ALIST); k = self.expr(args[1])
            if k.lit != 2: fail(n, 'itertools.combinations with r other than the literal 2')
            return Val(f'(comb2 {v.lean})', LIST(PAIR))
        if fs == 'nx.Graph':
            only(0); return Val('(([] : List A), ([] : List (A × A)))', GRAPH)
        if fs == 'DisjointSet':
            only(0); return Val('g.ds_empty', DS)
        if fs == 'nx.connected_components':
            only(1); v = self.want(args[0], GRAPH)
            return Val(f'(g.ncomp {v.lean})', ('CC',))
        if fs == 'FactoredInference':
            for a in list(args) + list(kws.values()):
                if not (isinstance(a, ast.Constant) or ast.unparse(a) == 'data.domain'):
                    fail(n, 'FactoredInference(..) argument other than data.domain / a literal')
            return Val(None, ENGINE)
        if fs == 'GraphicalModel':
            only(2); d = self.expr(args[0]); c = self.expr(args[1])
            if not (isinstance(d.ty, tuple) and d.ty[0] == 'DOMAIN'): fail(n, 'GraphicalModel(domain, ..)')
            if c.ty != LIST(CL): fail(n, 'GraphicalModel(.., cliques)')
            return Val(c.lean, ('GM',))
        if fs == 'downward_closure' and 'downward_closure' not in self.gen.by_func.get(self.spec['file'], {}):
            only(1); v = self.expr(args[0])
            if v.ty != LIST(CL): fail(n, f'downward_closure of {v.ty}')
            return Val(f'(g.downward_closure {v.lean})', LIST(CL))
        if fs == 'print':
            fail(n, 'print as an expression')
        # methods
        if isinstance(f, ast.Attribute):
            m = f.attr
            if isinstance(f.value, ast.Name) and f.value.id == 'self' and self.env.get('self', Val(None, None)).ty == SELF:
                return self.user_call(n, ('method', self.cls.name, m), args, kws)
            if m == 'choice':
                p = self.expr(f.value)
                if p.ty != PRNG: fail(n, f'.choice on {p.ty}')
                only(1, 'p')
                if 'p' not in kws: fail(n, 'choice without p=')
                size = self.want(args[0], Z); pv = self.want(kws['p'], ARR)
                return Val(f'(choice {size.lean} {pv.lean})', DRAW)
            if m == 'datavector' and not args and not kws and isinstance(f.value, ast.Call) \
                    and isinstance(f.value.func, ast.Attribute) and f.value.func.attr == 'project':
                obj = self.expr(f.value.func.value)
                if len(f.value.args) != 1 or f.value.keywords: fail(n, 'project(..) arguments')
                k = self.expr(f.value.args[0])
                if isinstance(obj.ty, tuple) and obj.ty[0] == 'MODEL':
                    if k.ty != self.model_key(obj.ty): fail(n, f'project({k.ty}) on a model over {obj.ty[1]}')
                    return Val(f'({obj.lean}_dv {k.lean})', ARR)
                if isinstance(obj.ty, tuple) and obj.ty[0] == 'DATA':
                    if k.ty != ALIST: fail(n, f'data.project({k.ty})')
                    return Val(f'({obj.lean}_dv {k.lean})', ARR)
                fail(n, f'.project(..).datavector() on {obj.ty}')
            v = self.expr(f.value)
            if m == 'size' and isinstance(v.ty, tuple) and v.ty[0] == 'DOMAIN' and v.ty[1][0] == 'MODEL':
                only(1); k = self.expr(args[0])
                if k.ty != self.model_key(v.ty[1]): fail(n, f'domain.size({k.ty})')
                return Val(f'({v.lean}_size {k.lean})', K)
            if m == 'invert' and isinstance(v.ty, tuple) and v.ty[0] == 'DOMAIN' and v.ty[1][0] == 'DATA':
                only(1); k = self.want(args[0], ALIST)
                self.gen.check_domain_invert(n)
                return Val(f'({v.lean}_attrs.filter (fun a => !(decide (a ∈ {k.lean}))))', ALIST)
            if m == 'sum' and v.ty == ARR:
                only(0); return Val(f'(npSum {v.lean})', K)
            if m == 'max' and v.ty == ARR:
                only(0); return Val(f'(pyMaxList {v.lean})', K)
            if m == 'keys' and isinstance(v.ty, tuple) and v.ty[0] == 'DICT':
                only(0); return Val(f'(dictKeys {v.lean})', LIST(v.ty[1]))
            if m == 'values' and isinstance(v.ty, tuple) and v.ty[0] == 'DICT':
                only(0); return Val(f'(dictValues {v.lean})', ARR)
            if m == 'connected' and v.ty == DS:
                e = self.star_pair(n)
                return Val(f'(g.ds_connected {v.lean} {e}.1 {e}.2)', B)
            if m == 'estimate' and v.ty == ENGINE:
                only(1); a = self.expr(args[0])
                if a.ty != OPAQUE: fail(n, 'engine.estimate(..) of something other than the measurement log')
                return Val(None, ('ESTIMATE',))
            if m == 'max' and fs == 'np.finfo(np.float64).max':
                pass
            fail(n, f'method .{m} on a value of type {v.ty}')
        if isinstance(f, ast.Name):
            if f.id in self.local_defs:
                return self.inline_local(n, self.local_defs[f.id], args, kws)
            if not any(isinstance(d, ast.FunctionDef) and d.name == f.id for d in self.gen.tree(self.spec['file']).body):
                fail(n, f'call of `{f.id}`, which is neither in the translatable subset nor a function of this file')
            return self.user_call(n, ('func', self.spec['file'], f.id), args, kws)
        fail(n, 'call')

    def star_pair(self, n):
        if len(n.args) != 1 or n.keywords or not isinstance(n.args[0], ast.Starred):
            fail(n, 'expected a single starred pair argument (*e)')
        e = self.want(n.args[0].value, PAIR)
        return e.lean

    def inline_local(self, n, fdef, args, kws):
        """call of a nested `def` with a single `return e`: e with the parameters substituted"""
        if kws or len(args) != len(fdef.args.args) or len(fdef.body) != 1 or not isinstance(fdef.body[0], ast.Return):
            fail(n, 'call of a nested function that is not a one-line `return e` with positional parameters')
        saved = dict(self.env)
        for a, p in zip(args, fdef.args.args):
            self.env[p.arg] = self.expr(a)
        v = self.expr(fdef.body[0].value)
        self.env = saved
        return v

    def user_call(self, n, key, args, kws):
        gen = self.gen
        if key[0] == 'method':
            fdef, cls, file = gen.resolve_method(n, self.spec['file'], key[1], key[2])
            pnames = [a.arg for a in fdef.args.args][1:]
            defaults = fdef.args.defaults
            where = (file, cls, key[2])
        else:
            file = key[1]
            fdef = gen.find_func(n, file, None, key[2])
            pnames = [a.arg for a in fdef.args.args]
            defaults = fdef.args.defaults
            where = (file, None, key[2])
        if fdef.args.vararg or fdef.args.kwarg or fdef.args.kwonlyargs:
            fail(fdef, 'callee with *args / **kwargs / keyword-only parameters')
        bound = {}
        if len(args) > len(pnames):
            fail(n, 'too many positional arguments')
        for p, a in zip(pnames, args):
            if isinstance(a, ast.Starred): fail(n, 'starred argument')
            bound[p] = self.expr(a)
        for k, a in kws.items():
            if k not in pnames or k in bound:
                fail(n, f'keyword argument {k} does not bind a free parameter of the callee')
            bound[k] = self.expr(a)
        dstart = len(pnames) - len(defaults)
        for i, p in enumerate(pnames):
            if p not in bound:
                if i < dstart:
                    fail(n, f'parameter {p} of the callee is not bound')
                saved, self.env = self.env, {}
                try:
                    bound[p] = self.expr(defaults[i - dstart])     # defaults are closed expressions
                finally:
                    self.env = saved
        variant = gen.pick_variant(n, where, pnames, bound)
        out = [variant['name'], 'np']
        if variant.get('graph'):
            out.append('g')
        for p in pnames:
            want_t = variant['params'][p]
            v = bound[p]
            if want_t == K:
                out.append(as_K(v, n))
            elif isinstance(want_t, tuple) and want_t[0] in ('MODEL', 'DATA'):
                out += [f'{v.lean}{suffix}' for suffix in (('_dv', '_size', '_cliques') if want_t[0] == 'MODEL' else ('_dv', '_attrs'))]
            elif v.ty == ('EMPTYLIST',):
                out.append(f'([] : {lean_ty(want_t)})')
            elif binders(p, want_t):
                out.append(v.lean)
        for p, t in variant.get('model_locals', []):
            if p not in self.env or self.env[p].ty != t:
                fail(n, f'the callee takes its model {p} as a parameter; the calling site must declare a free variable {p} of that type')
            out += [bn for bn, _ in binders(self.env[p].lean, t)]
        if variant.get('oracle'):
            if not self.oracle:
                fail(n, 'call of a function that draws, from a function without a draw oracle')
            out.append('draws')
        return Val('(' + ' '.join(out) + ')', variant['ret'])

    # ---- comprehensions ------------------------------------------------------------------------------------
    def comp_source(self, gen_):
        if gen_.is_async or len(gen_.ifs) > 1:
            fail(gen_.iter, 'comprehension with more than one condition')
        it = self.expr(gen_.iter)
        if isinstance(it.ty, tuple) and it.ty[0] == 'DICT':
            it = Val(f'(dictKeys {it.lean})', LIST(it.ty[1]))
        if not (isinstance(it.ty, tuple) and it.ty[0] == 'LIST'):
            fail(gen_.iter, f'comprehension over {it.ty}')
        if isinstance(gen_.target, ast.Tuple) and len(gen_.target.elts) == 2 and gen_.target.elts[1].id == '_' and it.ty[1] == ('WPAIR',):
            return it, gen_.target.elts[0].id, CL, lambda s: f'{s}.1'
        if not isinstance(gen_.target, ast.Name):
            fail(gen_.target, 'comprehension target')
        return it, gen_.target.id, it.ty[1], lambda s: s

    def listcomp(self, n):
        if len(n.generators) != 1:
            fail(n, 'comprehension with several generators')
        g_ = n.generators[0]
        it, var, ety, proj = self.comp_source(g_)
        saved = dict(self.env)
        self.env[var] = Val(proj(var), ety)
        src = it.lean
        if g_.ifs:
            c = self.want(g_.ifs[0], B)
            src = f'({src}.filter (fun {var} => {c.lean}))'
        e = self.expr(n.elt)
        self.env = saved
        if isinstance(n.elt, ast.Name) and n.elt.id == var and proj(var) == var:
            return Val(src, it.ty)
        if e.ty == K:
            return Val(f'({src}.map (fun {var} => {e.lean}))', ARR)
        if e.ty == Z:
            return Val(f'({src}.map (fun {var} => {e.lean}))', ('LIST', Z))
        if isinstance(e.ty, tuple) and e.ty[0] in ('KEY', 'LIST'):
            return Val(f'({src}.map (fun {var} => {e.lean}))', LIST(e.ty))
        fail(n, f'comprehension element of type {e.ty}')

    def dictcomp(self, n):
        if len(n.generators) != 1:
            fail(n, 'comprehension with several generators')
        g_ = n.generators[0]
        it, var, ety, proj = self.comp_source(g_)
        if g_.ifs: fail(n, 'dict comprehension with a condition')
        saved = dict(self.env)
        self.env[var] = Val(proj(var), ety)
        k = self.expr(n.key); v = self.expr(n.value)
        self.env = saved
        if not (isinstance(n.key, ast.Name) and n.key.id == var):
            fail(n, 'dict comprehension whose key is not the loop variable')
        return Val(f'(dictOfList ({it.lean}.map (fun {var} => ({k.lean}, {as_K(v, n)}))))', DICT(k.ty))

    # ---- statements ----------------------------------------------------------------------------------------
    def bind(self, name, val, lines, ind):
        if val.ty in (NONE, PRNG, OPAQUE, ENGINE, ('EMPTYDICT',)):
            self.env[name] = val
            return
        if val.ty == ('ESTIMATE',):
            want = dict(self.spec.get('model_locals', {})).get(name)
            if want is None:
                fail(name, 'engine.estimate(..) bound to a name that is not declared as a model parameter of the site')
            return                                            # already a parameter of the definition
        if name in dict(self.spec.get('model_locals', {})):
            fail(name, 'model parameter of the site re-bound')
        lines.append(f'{ind}let {name} : {lean_ty(val.ty)} := {val.lean}')
        self.env[name] = Val(name, val.ty)
        if name not in self.locals_order:
            self.locals_order.append(name)

    def assigned(self, stmts):
        out = []
        def add(x):
            if x not in out: out.append(x)
        for s in stmts:
            for sub in ast.walk(s):
                if isinstance(sub, ast.Assign):
                    for t in sub.targets:
                        if isinstance(t, ast.Name): add(t.id)
                        elif isinstance(t, ast.Subscript) and isinstance(t.value, ast.Name): add(t.value.id)
                        elif isinstance(t, ast.Tuple):
                            for e in t.elts:
                                if isinstance(e, ast.Name): add(e.id)
                elif isinstance(sub, ast.AugAssign) and isinstance(sub.target, ast.Name):
                    add(sub.target.id)
                elif isinstance(sub, ast.Expr) and isinstance(sub.value, ast.Call) and isinstance(sub.value.func, ast.Attribute) \
                        and isinstance(sub.value.func.value, ast.Name) and sub.value.func.attr in ('add_edge', 'add_nodes_from', 'union'):
                    add(sub.value.func.value.id)
        return out

    def has_draw(self, stmts):
        for s in stmts:
            for sub in ast.walk(s):
                if isinstance(sub, ast.Call):
                    fs = ast.unparse(sub.func)
                    if fs.endswith('exponential_mechanism') or fs.endswith('.choice'):
                        return True
        return False

    def stmts(self, body, lines, ind, top=False):
        """translate statements; returns the Val of a `return` if the block ends in one"""
        for i, s in enumerate(body):
            last = i == len(body) - 1
            if isinstance(s, ast.Expr) and isinstance(s.value, ast.Constant) and isinstance(s.value.value, str):
                continue
            if isinstance(s, ast.Expr) and isinstance(s.value, ast.Call) and ast.unparse(s.value.func) == 'print':
                continue
            if isinstance(s, ast.FunctionDef):
                self.local_defs[s.name] = s
                continue
            if isinstance(s, ast.Return):
                if not (top and last):
                    fail(s, 'return that is not the last statement of the function')
                if s.value is None:
                    fail(s, 'bare return')
                return self.expr(s.value)
            if isinstance(s, ast.Assign):
                self.assign(s, lines, ind)
                continue
            if isinstance(s, ast.Expr) and isinstance(s.value, ast.Call):
                self.mutate(s, lines, ind)
                continue
            if isinstance(s, ast.For):
                self.for_loop(s, lines, ind)
                continue
            if isinstance(s, ast.If):
                self.if_stmt(s, lines, ind)
                continue
            fail(s, 'statement form')
        return None

    def assign(self, s, lines, ind):
        if len(s.targets) != 1:
            fail(s, 'chained assignment')
        t = s.targets[0]
        if isinstance(t, ast.Name):
            if isinstance(s.value, ast.Attribute) and ast.unparse(s.value) == 'np.finfo(np.float64).max':
                self.bind(t.id, Val('np.fmax', K), lines, ind)
                return
            v = self.expr(s.value)
            if v.ty == DRAW or (isinstance(v.ty, tuple) and v.ty[0] == 'KEYED'):
                self.draw_bind(s, t.id, v, lines, ind)
                return
            if v.ty in (('CC',), ('NCOMP',), ('GM',), ('SET', 'C')) or (isinstance(v.ty, tuple) and v.ty[0] == 'DOMAIN'):
                self.env[t.id] = v
                return
            self.bind(t.id, v, lines, ind)
            return
        if isinstance(t, ast.Subscript) and isinstance(t.value, ast.Name):
            d = self.expr(t.value)
            if d.ty == ('EMPTYDICT',):
                k = self.expr(t.slice)
                d = Val(f'([] : List ({par_ty(k.ty)} × K))', DICT(k.ty))
            if not (isinstance(d.ty, tuple) and d.ty[0] == 'DICT'):
                fail(s, f'item assignment on {d.ty}')
            k = self.expr(t.slice)
            if k.ty != d.ty[1]:
                fail(s, f'dict key of type {k.ty}, expected {d.ty[1]}')
            v = self.expr(s.value)
            self.bind(t.value.id, Val(f'(dictSet {d.lean} {k.lean} {as_K(v, s)})', d.ty), lines, ind)
            return
        fail(s, 'assignment target')

    def draw_bind(self, s, name, v, lines, ind):
        """`idx = <draw>`: the draw goes to the transcript, the index comes from the oracle"""
        if not self.oracle:
            # mwem: `key = np.random.choice(..)` followed by `return workload[key]`
            self.env[name] = v
            return
        if v.ty != DRAW:
            fail(s, 'keyed draw bound to a name in a function with a draw oracle')
        tr = self.env['transcript_']
        lines.append(f'{ind}let {name} : Nat := draws {tr.lean}.length')
        lines.append(f'{ind}let transcript_ : List (Draw K) := {tr.lean} ++ [{v.lean}]')
        self.env[name] = Val(name, ('IDX',))
        self.env['transcript_'] = Val('transcript_', LIST(DRAW))

    def mutate(self, s, lines, ind):
        c = s.value
        f = c.func
        if not (isinstance(f, ast.Attribute) and isinstance(f.value, ast.Name)):
            fail(s, 'expression statement')
        obj = self.expr(f.value)
        name = f.value.id
        if obj.ty == GRAPH and f.attr == 'add_nodes_from':
            if len(c.args) != 1 or c.keywords: fail(s, 'add_nodes_from arguments')
            l = self.want(c.args[0], ALIST)
            self.bind(name, Val(f'({obj.lean}.1 ++ {l.lean}, {obj.lean}.2)', GRAPH), lines, ind)
            return
        if obj.ty == GRAPH and f.attr == 'add_edge':
            e = self.star_pair(c)
            self.bind(name, Val(f'({obj.lean}.1, {obj.lean}.2 ++ [{e}])', GRAPH), lines, ind)
            return
        if obj.ty == DS and f.attr == 'union':
            e = self.star_pair(c)
            self.bind(name, Val(f'(g.ds_union {obj.lean} {e}.1 {e}.2)', DS), lines, ind)
            return
        fail(s, f'method call statement .{f.attr} on {obj.ty}')

    def state_pack(self, names):
        if len(names) == 1:
            return self.env[names[0]].lean, lean_ty(self.env[names[0]].ty)
        return '(' + ', '.join(self.env[x].lean for x in names) + ')', ' × '.join(par_ty(self.env[x].ty) for x in names)

    @staticmethod
    def proj(i, k, base='st'):
        if k == 1: return base
        return base + '.2' * i + ('.1' if i < k - 1 else '')

    def for_loop(self, s, lines, ind):
        if s.orelse:
            fail(s, 'for/else')
        # source
        it_node = s.iter
        if isinstance(it_node, ast.Call) and ast.unparse(it_node.func) == 'range':
            if len(it_node.args) != 1: fail(s, 'range with several arguments')
            nv = self.want(it_node.args[0], Z)
            src, ety, ity = f'(List.range ({nv.lean}).toNat)', ('IDXVAR',), 'Nat'
        else:
            it = self.expr(it_node)
            if isinstance(it.ty, tuple) and it.ty[0] == 'DICT':
                src, ety = f'(dictKeys {it.lean})', it.ty[1]
            elif isinstance(it.ty, tuple) and it.ty[0] == 'LIST':
                src, ety = it.lean, it.ty[1]
            else:
                fail(s, f'for over {it.ty}')
            ity = lean_ty(ety)
        # dicts created empty before the loop and first written inside: their key type is that of the first write
        if isinstance(s.target, ast.Name):
            tvars = {s.target.id: Val(s.target.id, ety)}
        elif isinstance(s.target, ast.Tuple) and len(s.target.elts) == 2 and ety == PAIR and all(isinstance(e, ast.Name) for e in s.target.elts):
            tvars = {e.id: Val(e.id, ATTR) for e in s.target.elts}
        else:
            fail(s, 'loop target')
        written = self.assigned(s.body)
        for x in [v for v in list(self.env) if v in written]:               # in the order the empty dicts were created
            if x in self.env and self.env[x].ty == ('EMPTYDICT',):
                w = [b for b in ast.walk(s) if isinstance(b, ast.Assign) and isinstance(b.targets[0], ast.Subscript)
                     and isinstance(b.targets[0].value, ast.Name) and b.targets[0].value.id == x]
                saved = dict(self.env)
                self.env.update(tvars)
                try:
                    kt = self.expr(w[0].targets[0].slice).ty
                except Untranslatable:
                    fail(w[0], f'key of the first write to the empty dict {x} is not made of the loop variables')
                self.env = saved
                self.bind(x, Val(f'([] : List ({par_ty(kt)} × K))', DICT(kt)), lines, ind)
        # state
        draws_here = self.oracle and self.has_draw(s.body)
        outer = [x for x in self.assigned(s.body) if x in self.env and binders(x, self.env[x].ty)]
        order = [p for p, _ in self.params] + self.locals_order
        outer.sort(key=lambda v: order.index(v) if v in order else len(order))      # order of first binding, not of the writes in the body
        if draws_here:
            outer.append('transcript_')
        if not outer:
            fail(s, 'loop that changes no outer variable')
        st_lean, st_ty = self.state_pack(outer)
        self.nloop += 1
        bname = f'{self.name}_loop{self.nloop}'
        # free locals of the body = every local bound so far (kept simple and stable: all of them, in order)
        free = [x for x in self.locals_order if x in self.env and x not in outer and binders(x, self.env[x].ty)
                and any(isinstance(m, ast.Name) and m.id == x for b in s.body for m in ast.walk(b))]
        saved_env = dict(self.env)
        blines = []
        k = len(outer)
        for i, x in enumerate(outer):
            blines.append(f'  let {x} : {lean_ty(self.env[x].ty)} := {self.proj(i, k)}')
            self.env[x] = Val(x, self.env[x].ty)
        for x in free:
            self.env[x] = Val(x, self.env[x].ty)
        # loop variable
        if isinstance(s.target, ast.Name):
            self.env[s.target.id] = Val('it', ety)
            blines.append(f'  let {s.target.id} : {ity} := it')
            self.env[s.target.id] = Val(s.target.id, ety)
        elif isinstance(s.target, ast.Tuple) and len(s.target.elts) == 2 and ety == PAIR \
                and all(isinstance(e, ast.Name) for e in s.target.elts):
            a, b = (e.id for e in s.target.elts)
            blines.append(f'  let {a} : A := it.1')
            blines.append(f'  let {b} : A := it.2')
            self.env[a] = Val(a, ATTR); self.env[b] = Val(b, ATTR)
        else:
            fail(s, 'loop target')
        saved_order = list(self.locals_order)
        r = self.stmts(s.body, blines, '  ')
        assert r is None
        # outer variables must keep their types
        for x in outer:
            if self.env[x].ty != saved_env[x].ty:
                fail(s, f'loop changes the type of {x}')
        res, _ = self.state_pack(outer)
        blines.append(f'  {res}')
        fbind = ' '.join(f'({x} : {lean_ty(saved_env[x].ty)})' for x in free)
        hdr = ' '.join(self.header_binders())
        self.extra.append(
            f'/-- body of the loop `for {ast.unparse(s.target)} in {ast.unparse(s.iter)}:` ({self.spec["file"]}:{s.lineno}) of `{self.fdef.name}` -/\n'
            f'def {bname} {self.spec["tyvars"]} {hdr} {fbind} (st : {st_ty}) (it : {ity}) : {st_ty} :=\n' + '\n'.join(blines) + '\n')
        self.env = saved_env
        self.locals_order = saved_order
        call = ' '.join([bname] + self.header_args() + [saved_env[x].lean for x in free])
        lines.append(f'{ind}let st := {src}.foldl ({call}) {st_lean}')
        for i, x in enumerate(outer):
            lines.append(f'{ind}let {x} : {lean_ty(saved_env[x].ty)} := {self.proj(i, k)}')
            self.env[x] = Val(x, saved_env[x].ty)

    def if_stmt(self, s, lines, ind):
        c = self.want(s.test, B)
        if c.lit is not None:                                   # decided by the dynamic types
            r = self.stmts(s.body if c.lit else s.orelse, lines, ind)
            assert r is None
            return
        names = self.assigned(s.body + s.orelse)
        for x in names:
            if x not in self.env or not binders(x, self.env[x].ty):
                fail(s, f'run-time `if` that introduces the new variable {x}')
        before = {x: self.env[x] for x in names}
        outs = []
        for branch in (s.body, s.orelse):
            saved_env, saved_order = dict(self.env), list(self.locals_order)
            bl = []
            r = self.stmts(branch, bl, ind + '    ')
            assert r is None
            for x in names:
                if self.env[x].ty != before[x].ty:
                    fail(s, f'`if` changes the type of {x}')
            res, _ = self.state_pack(names)
            outs.append('\n'.join(bl + [f'{ind}    {res}']))
            self.env, self.locals_order = saved_env, saved_order
        _, ty = self.state_pack(names)
        lines.append(f'{ind}let br : {ty} :=\n{ind}  if {c.lean} = true then\n{outs[0]}\n{ind}  else\n{outs[1]}')
        k = len(names)
        for i, x in enumerate(names):
            lines.append(f'{ind}let {x} : {lean_ty(before[x].ty)} := {self.proj(i, k, "br")}')
            self.env[x] = Val(x, before[x].ty)


# ---------------------------------------------------------------------------------------------------------
class Gen:
    def __init__(self, repo):
        self.repo = repo
        self.trees = {}
        self.variants = {}            # (file, cls, func) -> [variant spec]
        self.by_func = {}
        self.facts = set()
        self.out = []

    def tree(self, file):
        if file not in self.trees:
            CUR['file'] = file
            with open(os.path.join(self.repo, file)) as fh:
                self.trees[file] = ast.parse(fh.read())
        return self.trees[file]

    def check_domain_invert(self, node):
        """`data.domain.invert(attrs)` is translated by the body of Domain.invert, re-read from src/mbi/domain.py"""
        saved = CUR['file']
        f = self.find_func(node, 'src/mbi/domain.py', 'Domain', 'invert')
        CUR['file'] = saved
        body = [s for s in f.body if not (isinstance(s, ast.Expr) and isinstance(s.value, ast.Constant))]
        if [a.arg for a in f.args.args] != ['self', 'attrs'] or len(body) != 1 \
                or ast.unparse(body[0]) != 'return [a for a in self.attrs if a not in attrs]':
            fail(f, 'src/mbi/domain.py Domain.invert is no longer `return [a for a in self.attrs if a not in attrs]` (fact used for data.domain.invert)')

    def find_class(self, node, file, cname):
        cs = [c for c in self.tree(file).body if isinstance(c, ast.ClassDef) and c.name == cname]
        if len(cs) != 1:
            fail(node, f'class {cname} not found exactly once in {file}')
        return cs[0]

    def find_func(self, node, file, cname, fname):
        body = self.tree(file).body if cname is None else self.find_class(node, file, cname).body
        fs = [f for f in body if isinstance(f, ast.FunctionDef) and f.name == fname]
        if len(fs) != 1:
            fail(node, f'function {fname} not defined exactly once in {file}' + (f' class {cname}' if cname else ''))
        if fs[0].decorator_list:
            fail(fs[0], 'decorated function')
        return fs[0]

    def resolve_method(self, node, file, cname, m):
        """method resolution through the class and its single base class (both read from source)"""
        c = self.find_class(node, file, cname)
        own = [f for f in c.body if isinstance(f, ast.FunctionDef) and f.name == m]
        if own:
            return self.find_func(node, file, cname, m), cname, file
        if len(c.bases) != 1 or not isinstance(c.bases[0], ast.Name):
            fail(c, 'class without a single named base class')
        base = c.bases[0].id
        for imp in self.tree(file).body:
            if isinstance(imp, ast.ImportFrom) and any((a.asname or a.name) == base for a in imp.names):
                a = next(a for a in imp.names if (a.asname or a.name) == base)
                bfile = imp.module.replace('.', '/') + '.py'
                return self.find_func(node, bfile, a.name, m), a.name, bfile
        fail(c, f'base class {base} is not imported by a from-import')

    def pick_variant(self, node, where, pnames, bound):
        vs = self.variants.get(where)
        if not vs:
            fail(node, f'call of {where[2]} ({where[0]}), which is not a translated function')
        for v in vs:
            ok = True
            for p in pnames:
                want_t, got = v['params'][p], bound[p].ty
                if want_t == K and got in (K, Z):
                    continue
                if got == ('EMPTYLIST',) and isinstance(want_t, tuple) and want_t[0] == 'LIST':
                    continue
                if want_t != got:
                    ok = False
            if ok:
                return v
        fail(node, f'no translated variant of {where[2]} for argument types ' + ', '.join(f'{p}: {bound[p].ty}' for p in pnames))

    # ---- one site ------------------------------------------------------------------------------------------
    def site(self, spec):
        CUR['file'] = spec['file']
        fdef = self.find_func(spec['file'], spec['file'], spec.get('cls'), spec['func'])
        cls = self.find_class(fdef, spec['file'], spec['cls']) if spec.get('cls') else None
        pnames = [a.arg for a in fdef.args.args]
        if fdef.args.vararg or fdef.args.kwarg or fdef.args.kwonlyargs:
            fail(fdef, 'function with *args / **kwargs / keyword-only parameters')
        if set(pnames) != set(spec['params']) | ({'self'} if cls else set()):
            fail(fdef, f'parameter list of {spec["func"]} changed: expected {sorted(spec["params"])}')
        where = (spec['file'], spec.get('cls'), spec['func'])

        def fresh():
            fn = Fn(self, spec, fdef, cls)
            for p in pnames:
                t = SELF if (cls and p == 'self') else spec['params'][p]
                fn.params.append((p, t))
                fn.env[p] = Val(p if binders(p, t) or (isinstance(t, tuple) and t[0] in ('MODEL', 'DATA')) else None, t)
            for p, t in spec.get('model_locals', []):
                fn.params.append((p, t))
                fn.env[p] = Val(p, t)
            if fn.oracle:
                fn.env['transcript_'] = Val('([] : List (Draw K))', LIST(DRAW))
            return fn

        # the whole function
        fn = fresh()
        lines = []
        ret = fn.stmts(fdef.body, lines, '  ', top=True)
        if ret is None:
            fail(fdef, 'function does not end in a return')
        if isinstance(ret.ty, tuple) and ret.ty[0] == 'DOMAIN':
            fail(fdef, 'returns a domain')
        if ret.ty == ('GM',):
            fail(fdef, 'returns a model')
        rty = lean_ty(ret.ty)
        rlean = ret.lean
        if fn.oracle:
            rty = f'({rty}) × List (Draw K)'
            rlean = f'({ret.lean}, {fn.env["transcript_"].lean})'
        hdr = ' '.join(fn.header_binders())
        self.out += fn.extra
        self.out.append(f'/-- `{spec["file"]}` `{(spec.get("cls") + ".") if spec.get("cls") else ""}{spec["func"]}` ({spec.get("note", "whole function")}) -/\n'
                        f'def {spec["name"]} {spec["tyvars"]} {hdr} : {rty} :=\n' + '\n'.join(lines + [f'  {rlean}']) + '\n')
        v = dict(spec)
        v['ret'] = ret.ty if not fn.oracle else ('PROD', [ret.ty, LIST(DRAW)])
        self.variants.setdefault(where, []).append(v)
        self.by_func.setdefault(spec['file'], {})[spec['func']] = True
        # its default arguments (scalars / flags), once per function
        if len(self.variants[where]) == 1:
            dstart = len(pnames) - len(fdef.args.defaults)
            for i, d in enumerate(fdef.args.defaults):
                p = pnames[dstart + i]
                if spec['params'].get(p) not in (K, B):
                    continue
                v = Fn(self, spec, fdef, cls).expr(d)
                lean = as_K(v, d) if spec['params'][p] == K else v.lean
                self.out.append(f'/-- default of the parameter `{p}` of `{spec["func"]}` ({spec["file"]}:{fdef.lineno}) -/\n'
                                f'def {spec["name"]}_default_{p} {TV_K if spec["params"][p] == K else ""} : {lean_ty(spec["params"][p])} :=\n  {lean}\n')
        # its locals: the same statements up to the last top-level statement that binds the local
        for loc in spec.get('locals', []):
            idx = None
            for i, s in enumerate(fdef.body):
                if loc in fn.assigned([s]):
                    idx = i
            if idx is None:
                fail(fdef, f'local {loc} of {spec["func"]} is no longer assigned at the top level of the function')
            f2 = fresh()
            l2 = []
            r = f2.stmts(fdef.body[:idx + 1], l2, '  ')
            assert r is None
            if loc not in f2.env or not binders(loc, f2.env[loc].ty):
                fail(fdef.body[idx], f'local {loc} has no Lean value')
            # loop bodies are shared with the whole function (same text): do not emit them twice
            self.out.append(f'/-- the local `{loc}` of `{spec["func"]}` ({spec["file"]}:{fdef.body[idx].lineno}) -/\n'
                            f'def {spec["name"]}_{loc} {spec["tyvars"]} {hdr} : {lean_ty(f2.env[loc].ty)} :=\n'
                            + '\n'.join(l2 + [f'  {f2.env[loc].lean}']) + '\n')

    # ---- a group of statements of a larger function (call sites) ---------------------------------------------
    def slice_site(self, spec):
        CUR['file'] = spec['file']
        fdef = self.find_func(spec['file'], spec['file'], spec.get('cls'), spec['func'])
        cls = self.find_class(fdef, spec['file'], spec['cls']) if spec.get('cls') else None
        fn = Fn(self, spec, fdef, cls)
        if cls:
            fn.env['self'] = Val(None, SELF)
        for p, t in spec['free']:
            fn.params.append((p, t))
            fn.env[p] = Val(p if binders(p, t) or (isinstance(t, tuple) and t[0] in ('MODEL', 'DATA')) else None, t)
        if fn.oracle:
            fn.env['transcript_'] = Val('([] : List (Draw K))', LIST(DRAW))
        lines = []
        last = None
        last_stmt = None
        for tgt in spec['targets']:
            if tgt.startswith('call:'):
                found = [s for s in ast.walk(fdef) if isinstance(s, ast.Assign) and len(s.targets) == 1 and isinstance(s.targets[0], ast.Name)
                         and isinstance(s.value, ast.Call) and ast.unparse(s.value.func) == tgt[5:]]
                ncalls = [c for c in ast.walk(fdef) if isinstance(c, ast.Call) and ast.unparse(c.func) == tgt[5:]]
                if len(found) != 1 or len(ncalls) != 1:
                    fail(fdef, f'{spec["func"]}: expected exactly one call of {tgt[5:]}, bound to a name; found {len(ncalls)} call(s)')
            else:
                found = [s for s in ast.walk(fdef) if isinstance(s, ast.Assign) and len(s.targets) == 1
                         and isinstance(s.targets[0], ast.Name) and s.targets[0].id == tgt]
                if len(found) != 1:
                    fail(fdef, f'{spec["func"]}: expected exactly one assignment to {tgt}, found {len(found)}')
            s = found[0]
            if tgt == spec['targets'][-1]:
                last_stmt = s
            tgt = s.targets[0].id
            v = fn.expr(s.value)
            if s is last_stmt:
                last = v
            else:
                fn.bind(tgt, v, lines, '  ')
        hdr = ' '.join(fn.header_binders())
        self.out.append(f'/-- `{spec["file"]}` `{spec["func"]}`: the statements assigning {", ".join(spec["targets"])} -/\n'
                        f'def {spec["name"]} {spec["tyvars"]} {hdr} : {lean_ty(last.ty)} :=\n' + '\n'.join(lines + [f'  {last.lean}']) + '\n')


# ---------------------------------------------------------------------------------------------------------
TV_C = '{K C : Type} [Add K] [Sub K] [Mul K] [Div K] [Neg K] [LT K] [LE K] [DecidableRel (α := K) (· < ·)] [DecidableRel (α := K) (· ≤ ·)] [DecidableEq K] [OfScientific K] [IntCast K] [DecidableEq C]'
TV_CG = TV_C + ' {DS : Type}'
TV_A = '{K A DS : Type} [Add K] [Sub K] [Mul K] [Div K] [Neg K] [LT K] [LE K] [DecidableRel (α := K) (· < ·)] [DecidableRel (α := K) (· ≤ ·)] [DecidableEq K] [OfScientific K] [IntCast K] [DecidableEq A] [Inhabited A]'
TV_K = '{K : Type} [Add K] [Sub K] [Mul K] [Div K] [Neg K] [LT K] [LE K] [DecidableRel (α := K) (· < ·)] [DecidableRel (α := K) (· ≤ ·)] [DecidableEq K] [OfScientific K] [IntCast K]'

MECH = 'mechanisms/mechanism.py'
AIMF = 'mechanisms/aim.py'
MWEM = 'mechanisms/mwem+pgm.py'
MSTF = 'mechanisms/mst.py'
ADA = 'mechanisms/adaptive_grid.py'

WORKLOAD = LIST(CL)


def em_specs(file, prefix):
    return [dict(kind='site', file=file, func='exponential_mechanism', name=prefix + '_exponential_mechanism', tyvars=TV_K,
                 params={'q': ARR, 'eps': K, 'sensitivity': K, 'prng': PRNG, 'monotonic': B})]


def select_specs(file, prefix, params, call_func, call_free, call_targets):
    return [dict(kind='site', file=file, func='select', name=prefix + '_select', tyvars=TV_A, graph='A', oracle=True,
                 params=params, locals=['weights', 'epsilon'],
                 model_locals=[('est', MODEL(ATTR))] if prefix == 'mst' else []),
            dict(kind='slice', file=file, func=call_func, name=prefix + '_select_call', tyvars=TV_A, graph='A', oracle=True,
                 free=call_free, targets=call_targets)]


SITES = [
    dict(kind='site', file=MECH, cls='Mechanism', func='exponential_mechanism', name='Mechanism_exponential_mechanism_dict', tyvars=TV_C,
         params={'qualities': DICT(CL), 'epsilon': K, 'sensitivity': K, 'base_measure': NONE}, note='qualities a dict, no base measure'),
    dict(kind='site', file=MECH, cls='Mechanism', func='exponential_mechanism', name='Mechanism_exponential_mechanism_dict_base', tyvars=TV_C,
         params={'qualities': DICT(CL), 'epsilon': K, 'sensitivity': K, 'base_measure': DICT(CL)}, note='qualities and base measure dicts'),
    dict(kind='site', file=MECH, cls='Mechanism', func='exponential_mechanism', name='Mechanism_exponential_mechanism_array', tyvars=TV_K,
         params={'qualities': ARR, 'epsilon': K, 'sensitivity': K, 'base_measure': NONE}, note='qualities an array, no base measure'),
    dict(kind='site', file=MECH, cls='Mechanism', func='exponential_mechanism', name='Mechanism_exponential_mechanism_array_base', tyvars=TV_K,
         params={'qualities': ARR, 'epsilon': K, 'sensitivity': K, 'base_measure': ARR}, note='qualities an array, base measure an array'),
    dict(kind='site', file=AIMF, cls='AIM', func='worst_approximated', name='AIM_worst_approximated', tyvars=TV_C,
         params={'candidates': DICT(CL), 'answers': FUN(CL), 'model': MODEL(CL), 'eps': K, 'sigma': K},
         locals=['errors', 'sensitivity', 'max_sensitivity']),
    dict(kind='site', file=AIMF, func='hypothetical_model_size', name='aim_hypothetical_model_size', tyvars=TV_CG, graph='C',
         params={'domain': ('DOMAIN', MODEL(CL)), 'cliques': LIST(CL)}),
    dict(kind='site', file=AIMF, func='filter_candidates', name='aim_filter_candidates', tyvars=TV_CG, graph='C',
         params={'candidates': DICT(CL), 'model': MODEL(CL), 'size_limit': K}),
    dict(kind='slice', file=AIMF, cls='AIM', func='run', name='AIM_run_select', tyvars=TV_CG, graph='C',
         free=[('candidates', DICT(CL)), ('answers', FUN(CL)), ('model', MODEL(CL)), ('size_limit', K), ('epsilon', K), ('sigma', K)],
         targets=['small_candidates', 'call:self.worst_approximated']),
    dict(kind='site', file=MWEM, func='worst_approximated', name='mwem_worst_approximated', tyvars=TV_C,
         params={'workload_answers': FUN(CL), 'est': MODEL(CL), 'workload': LIST(CL), 'eps': K, 'penalty': B, 'bounded': B},
         locals=['errors', 'sensitivity']),
    dict(kind='slice', file=MWEM, func='mwem_pgm', name='mwem_pgm_select', tyvars=TV_C,
         free=[('workload_answers', FUN(CL)), ('est', MODEL(CL)), ('candidates', LIST(CL)), ('exp_eps', K), ('bounded', B)],
         targets=['call:worst_approximated']),
] + em_specs(MSTF, 'mst') + select_specs(
    MSTF, 'mst', {'data': DATA(ATTR), 'rho': K, 'measurement_log': OPAQUE, 'cliques': LIST(PAIR)},
    'MST', [('data', DATA(ATTR)), ('rho', K), ('log1', OPAQUE), ('est', MODEL(ATTR))], ['call:select']
) + em_specs(ADA, 'ada') + select_specs(
    ADA, 'ada', {'data': DATA(ATTR), 'model': MODEL(ATTR), 'rho': K, 'targets': ALIST},
    'adagrid', [('data', DATA(ATTR)), ('engine', ('HASMODEL', MODEL(ATTR))), ('rho_step_2', K), ('targets', ALIST)], ['call:select'])


HEADER = '''/- GENERATED by tools/py2sel.py from mechanisms/{mechanism,aim,mwem+pgm,mst,adaptive_grid}.py — do not edit
   The private selection sites of the four mechanisms, statement by statement.  Core Lean only.
   Contracts: see the docstring of the translator. -/
set_option linter.unusedVariables false
namespace PGM.SelectG

/-- numpy's scalar functions and constants -/
structure NpOps (K : Type) where
  exp : K → K
  log : K → K
  sqrt : K → K
  pi : K
  inf : K
  fmax : K

/-- graph / model-size library calls: `DisjointSet`, `nx.connected_components`, `GraphicalModel(..).size`,
`downward_closure` (aim.py) -/
structure GraphOps (A DS K : Type) where
  ds_empty : DS
  ds_union : DS → A → A → DS
  ds_connected : DS → A → A → Bool
  ncomp : List A × List (A × A) → Nat
  gm_size : List A → K
  downward_closure : List A → List A

/-- what a sampler is handed: `choice(n, p=p)` -/
structure Draw (K : Type) where
  n : Int
  p : List K

def choice {K : Type} (n : Int) (p : List K) : Draw K := ⟨n, p⟩

section
variable {K : Type} [Add K] [Sub K] [Mul K] [Div K] [Neg K] [LT K] [DecidableRel (α := K) (· < ·)] [OfScientific K] [IntCast K]

/-- `np.sum` / `.sum()` of a 1-d array -/
def npSum (xs : List K) : K := xs.foldl (· + ·) ((0 : Int) : K)

def intSum (xs : List Int) : Int := xs.foldl (· + ·) 0

/-- `abs(x)` / `np.abs` -/
def absK (x : K) : K := if x < ((0 : Int) : K) then -x else x

/-- `x ** n` for a literal natural `n` -/
def powNat (x : K) : Nat → K
  | 0 => ((1 : Int) : K)
  | n + 1 => powNat x n * x

/-- `max(list)` / `.max()`: the first maximal element (Python raises on an empty argument; 0 here) -/
def pyMaxList : List K → K
  | [] => ((0 : Int) : K)
  | x :: xs => xs.foldl (fun m t => if m < t then t else m) x

/-- `scipy.special.logsumexp` -/
def lse (np : NpOps K) (v : List K) : K := np.log (npSum (v.map np.exp))

/-- `scipy.special.softmax` -/
def softmaxL (np : NpOps K) (v : List K) : List K := v.map (fun s => np.exp (s - lse np v))
end

/-- insertion-ordered dict as association list -/
def dictKeys {C V : Type} (d : List (C × V)) : List C := d.map Prod.fst
def dictValues {C V : Type} (d : List (C × V)) : List V := d.map Prod.snd

/-- `d[k]` (Python raises KeyError on a missing key; 0 here) -/
def dictGet {C K : Type} [DecidableEq C] [IntCast K] : List (C × K) → C → K
  | [], _ => ((0 : Int) : K)
  | (c, v) :: rest, k => if c = k then v else dictGet rest k

/-- `d[k] = v`: overwrite in place, or append -/
def dictSet {C V : Type} [DecidableEq C] : List (C × V) → C → V → List (C × V)
  | [], k, v => [(k, v)]
  | (c, w) :: rest, k, v => if c = k then (c, v) :: rest else (c, w) :: dictSet rest k v

/-- `{k: v for ..}` -/
def dictOfList {C V : Type} [DecidableEq C] (l : List (C × V)) : List (C × V) :=
  l.foldl (fun d kv => dictSet d kv.1 kv.2) []

/-- `l[i]` -/
def listGet {T : Type} [Inhabited T] (l : List T) (i : Nat) : T := l.getD i default

/-- `itertools.combinations(l, 2)` -/
def comb2 {A : Type} : List A → List (A × A)
  | [] => []
  | a :: rest => rest.map (fun b => (a, b)) ++ comb2 rest

'''


def main():
    ap = argparse.ArgumentParser()
    ap.add_argument('--repo', default='/repo')
    ap.add_argument('--out', required=True)
    a = ap.parse_args()
    gen = Gen(a.repo)
    try:
        for spec in SITES:
            if spec['kind'] == 'site':
                gen.site(spec)
            else:
                gen.slice_site(spec)
    except Untranslatable as e:
        print('py2sel: source outside the translatable subset:', e)
        return 1
    except (OSError, SyntaxError) as e:
        print('py2sel: source outside the translatable subset:', f'{CUR["file"]}:? cannot read/parse: {e}')
        return 1
    os.makedirs(a.out, exist_ok=True)
    with open(os.path.join(a.out, 'SelectG.lean'), 'w') as f:
        f.write(HEADER + '\n'.join(gen.out) + '\nend PGM.SelectG\n')
    print(f'py2sel: {len(gen.out)} definitions')
    return 0


if __name__ == '__main__':
    sys.exit(main())
