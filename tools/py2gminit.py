#!/usr/bin/env python3
"""tools/py2gminit.py --repo R --out DIR

Statement-level translation of `GraphicalModel.__init__` (src/mbi/graphical_model.py) — the GLUE between the junction-tree
construction (`src/mbi/junction_tree.py`, translated by tools/py2jt.py into `PGM/Generated/JunctionTreeG.lean`) and the
inference core (`belief_propagation` …, translated by tools/py2gm.py into `PGM/Generated/GraphicalModelG.lean`).
Writes `DIR/GraphicalModelInitG.lean` (namespace `PGM.GMIG`, imports the two generated files):

* `structure Model τ` — one field per `self.X = …` of `__init__`, in source order, typed by the expression stored;
* `init_given` / `init_none` / `init_int` — `__init__` once per dynamic form of `elimination_order` (a sequence / None / an int:
  the three variants `JTG.init_*` py2jt emits for `JunctionTree.__init__`), each returning the `Model` of the stored fields.

`PGM/Properties/C01E.lean` proves what each stored field is (`gen_init_*`) and the end-to-end theorem
`gen_exact_inference_end_to_end` (the generated `belief_propagation` on the generated `__init__`'s fields).

Method calls on a `JunctionTree` object are calls of the definitions of `JunctionTreeG.lean` as py2jt emitted them: the binder list of
every definition used is READ from `DIR/JunctionTreeG.lean` (run py2jt first) — data binders (`tree`, `d`/`domain`, `cliques`,
`order`/`elimination_order`, `draws`) are filled from the object, contract binders (`tos`, `find_cliques`, `minimum_spanning_tree`,
`choice`, `topological_sort`, `dfs_preorder_nodes`) become PARAMETERS of the generated `init_*`.  The contracts of the construction
are shared by all constructions; those of an accessor call `t.m()` are private to that call site (`<contract>__<m>`), so the theorems
quantify over a *different* admissible outcome at every call (e.g. `separator_axes()` re-runs `topological_sort`).  Every `init_*` takes
the full canonical list (4 construction contracts, then the contracts of the four accessors in the order maximal_cliques, mp_order,
separator_axes, neighbors), used or not; a second call of the same accessor adds `<contract>__<m>_2` ….

Facts re-read from the other files (the translator stops if they changed): `from mbi.junction_tree import JunctionTree` binds the
name; `JunctionTree.__init__(self, domain, cliques, elimination_order=None)`; the accessors take no argument; `_make_tree` stores
`self.elimination_order`; `Domain.size(self, attrs=None)` ends in `return self.project(attrs).size()` (→ `Dom.sizeOf`).

The translatable subset (anything else stops the translator with file:line — a broken obligation, never a silent skip):

statements
  "docstring"
  self.X = e                       a stored field (`let self_X := e`; re-assignment shadows, the last one is stored)
  x = e                            `let`
  if c: <warning only>             the body may only `import warnings`, build a local string (`m = '…' % e`, `m += '…'`) and call
                                   `warnings.warn(m)`: no effect on the object; `c` is translated (`let warn_ : Bool := c`)
expressions
  names (parameters `domain`, `cliques`, `total`, `elimination_order`, locals), `self.X` (a field stored earlier), `None` / the
  parameter `elimination_order` as third argument of `JunctionTree(..)` only
  JunctionTree(domain, cliques[, order])           `JTG.init_<mode>`
  t.maximal_cliques() / t.mp_order() / t.separator_axes() / t.neighbors() / t.elimination_order
  list(e) / tuple(e) of a list = e,  e[::-1] = `List.reverse`,  e1 + e2 on lists = `++`
  sum(e for v in xs) over Nat,  domain.size(e),  len(e),  int constants,  + * ** on Nat,  < <= > >= == on Nat
"""
import argparse, ast, os, re, sys

SRC = 'graphical_model.py'


class Untranslatable(Exception):
    pass


def fail(node, why, src=SRC):
    raise Untranslatable(f'{src} line {getattr(node, "lineno", "?")}: {why}: '
                         f'{ast.unparse(node) if isinstance(node, ast.AST) else node}')


# ---------------------------------------------------------------- types
DOM, TOTAL, NAT, BOOL, CLIQUES, MSGS, SEPS, NBRS, ATTRS, JT, ELIM, NONE = \
    'Dom', 'τ', 'Nat', 'Bool', 'List JT.Clique', 'List JT.Msg', 'List (JT.Msg × (List Attr))', \
    'List ((List Attr) × (List JT.Clique))', 'List Attr', 'JT.Tree × List Attr', '<elimination_order>', '<None>'
LISTS = (CLIQUES, MSGS, SEPS, NBRS, ATTRS)
ELEM = {CLIQUES: ATTRS}                         # element type of the lists one can iterate over here

CONSTRUCTION_CONTRACTS = ('tos', 'find_cliques', 'minimum_spanning_tree', 'choice')
ACCESSOR_CONTRACTS = ('tos', 'topological_sort', 'dfs_preorder_nodes')
ACCESSORS = {'maximal_cliques': CLIQUES, 'mp_order': MSGS, 'separator_axes': SEPS, 'neighbors': NBRS}
ACC_ORDER = ['maximal_cliques', 'mp_order', 'separator_axes', 'neighbors']
MODES = ('given', 'none', 'int')
MODE_ELIM_TYPE = {'given': 'List Attr', 'none': None, 'int': 'Nat'}


# ---------------------------------------------------------------- the generated junction-tree file
def read_jtg(path):
    """name -> [(binder, type)] for every `def` of JunctionTreeG.lean"""
    if not os.path.exists(path):
        raise Untranslatable(f'{path} not found: run tools/py2jt.py with the same --repo/--out first')
    defs = {}
    for m in re.finditer(r'^def (\w+) (.*?) :=\s*$', open(path).read(), re.M):
        name, sig = m.group(1), m.group(2)
        binders, depth, cur, i = [], 0, '', 0
        rest = None
        while i < len(sig):
            ch = sig[i]
            if ch == '(':
                depth += 1
                if depth > 1:
                    cur += ch
            elif ch == ')':
                depth -= 1
                if depth == 0:
                    b, t = cur.split(' : ', 1)
                    binders.append((b.strip(), t.strip()))
                    cur = ''
                else:
                    cur += ch
            elif depth == 0 and ch == ':':
                rest = sig[i + 1:].strip()
                break
            elif depth > 0:
                cur += ch
            i += 1
        defs[name] = (binders, rest)
    return defs


# ---------------------------------------------------------------- facts of the other source files
def check_junction_tree_facts(repo):
    p = os.path.join(repo, 'src', 'mbi', 'junction_tree.py')
    tree = ast.parse(open(p).read())
    cls = [n for n in tree.body if isinstance(n, ast.ClassDef) and n.name == 'JunctionTree']
    if len(cls) != 1:
        raise Untranslatable('junction_tree.py: class JunctionTree not found (exactly once)')
    meths = {n.name: n for n in cls[0].body if isinstance(n, ast.FunctionDef)}
    init = meths.get('__init__')
    if init is None:
        raise Untranslatable('junction_tree.py: JunctionTree.__init__ not found')
    a = init.args
    names = [x.arg for x in a.args]
    if names != ['self', 'domain', 'cliques', 'elimination_order'] or a.vararg or a.kwarg or a.kwonlyargs or \
            len(a.defaults) != 1 or not (isinstance(a.defaults[0], ast.Constant) and a.defaults[0].value is None):
        fail(init, 'JunctionTree.__init__ is no longer (self, domain, cliques, elimination_order=None)', 'junction_tree.py')
    for m in ACCESSORS:
        f = meths.get(m)
        if f is None:
            raise Untranslatable(f'junction_tree.py: JunctionTree.{m} not found')
        if [x.arg for x in f.args.args] != ['self'] or f.args.vararg or f.args.kwarg or f.args.kwonlyargs:
            fail(f, f'JunctionTree.{m} takes arguments now', 'junction_tree.py')
    mk = meths.get('_make_tree')
    stores = [n for n in ast.walk(mk) if isinstance(n, ast.Assign) and len(n.targets) == 1 and
              isinstance(n.targets[0], ast.Attribute) and isinstance(n.targets[0].value, ast.Name) and
              n.targets[0].value.id == 'self' and n.targets[0].attr == 'elimination_order'] if mk else []
    if len(stores) != 1:
        raise Untranslatable('junction_tree.py: `self.elimination_order = …` is not stored exactly once in _make_tree')
    others = [n for f in meths.values() if f is not mk for n in ast.walk(f) if isinstance(n, (ast.Assign, ast.AugAssign)) and
              any(isinstance(t, ast.Attribute) and t.attr == 'elimination_order' for t in (n.targets if isinstance(n, ast.Assign) else [n.target]))]
    if others:
        fail(others[0], '`elimination_order` is stored outside _make_tree', 'junction_tree.py')


def check_domain_size_fact(repo):
    p = os.path.join(repo, 'src', 'mbi', 'domain.py')
    tree = ast.parse(open(p).read())
    for cls in tree.body:
        if isinstance(cls, ast.ClassDef) and cls.name == 'Domain':
            for f in cls.body:
                if isinstance(f, ast.FunctionDef) and f.name == 'size':
                    names = [x.arg for x in f.args.args]
                    body = [s for s in f.body if not (isinstance(s, ast.Expr) and isinstance(s.value, ast.Constant))]
                    ok = names == ['self', 'attrs'] and len(body) == 2 and isinstance(body[0], ast.If) and \
                        ast.unparse(body[0].test) in ('attrs == None', 'attrs is None') and not body[0].orelse and \
                        isinstance(body[1], ast.Return) and ast.unparse(body[1].value) == 'self.project(attrs).size()'
                    if not ok:
                        fail(f, 'Domain.size(attrs) is no longer `self.project(attrs).size()`', 'domain.py')
                    return
    raise Untranslatable('domain.py: Domain.size not found')


# ---------------------------------------------------------------- the translator
class Translator:
    def __init__(self, repo, out):
        self.repo = repo
        self.jtg = read_jtg(os.path.join(out, 'JunctionTreeG.lean'))
        src = open(os.path.join(repo, 'src', 'mbi', SRC)).read()
        self.mod = ast.parse(src)

    def find_init(self):
        bound = [n for n in self.mod.body if isinstance(n, ast.ImportFrom) and any((a.asname or a.name) == 'JunctionTree' for a in n.names)]
        if len(bound) != 1 or bound[0].module != 'mbi.junction_tree' or \
                [(a.name, a.asname) for a in bound[0].names if (a.asname or a.name) == 'JunctionTree'] != [('JunctionTree', None)]:
            raise Untranslatable(f'{SRC}: `JunctionTree` is not bound by `from mbi.junction_tree import JunctionTree` (exactly once)')
        for n in ast.walk(self.mod):
            if isinstance(n, (ast.FunctionDef, ast.ClassDef)) and n.name == 'JunctionTree':
                fail(n, 'the name JunctionTree is re-defined')
            if isinstance(n, ast.Name) and n.id == 'JunctionTree' and isinstance(n.ctx, ast.Store):
                fail(n, 'the name JunctionTree is re-bound')
        cls = [n for n in self.mod.body if isinstance(n, ast.ClassDef) and n.name == 'GraphicalModel']
        if len(cls) != 1:
            raise Untranslatable(f'{SRC}: class GraphicalModel not found (exactly once)')
        inits = [n for n in cls[0].body if isinstance(n, ast.FunctionDef) and n.name == '__init__']
        if len(inits) != 1:
            raise Untranslatable(f'{SRC}: GraphicalModel.__init__ not found (exactly once)')
        f = inits[0]
        a = f.args
        if [x.arg for x in a.args] != ['self', 'domain', 'cliques', 'total', 'elimination_order'] or a.vararg or a.kwarg or a.kwonlyargs:
            fail(f, '__init__ is no longer (self, domain, cliques, total=…, elimination_order=…)')
        if f.decorator_list:
            fail(f, 'decorated __init__')
        return f

    # ---- per-variant state
    def start(self, mode):
        self.mode = mode
        self.env = {'domain': (DOM, 'domain'), 'cliques': (CLIQUES, 'cliques'), 'total': (TOTAL, 'total'),
                    'elimination_order': (NONE if mode == 'none' else ELIM, 'elimination_order')}
        self.fields = []            # [(name, type)] in order of first store
        self.jtinfo = {}            # lean variable name -> construction info of the JunctionTree object it holds
        self.params = {}            # contract parameter name -> type (of the generated definition)
        self.sites = {}             # accessor -> number of call sites so far
        self.lines = []
        self.fresh = 0

    def contract(self, name, ty, site=None):
        if site is not None:
            name = f'{name}__{site}'
        if self.params.setdefault(name, ty) != ty:
            raise Untranslatable(f'JunctionTreeG.lean: contract parameter {name} has two types')
        return name

    def call_jtg(self, node, dname, data, site=None):
        """application of the JunctionTreeG definition `dname`, binder by binder"""
        if dname not in self.jtg:
            fail(node, f'JunctionTreeG.lean has no definition `{dname}` (py2jt output changed)')
        args = []
        for b, t in self.jtg[dname][0]:
            if b in data:
                args.append(data[b])
            elif b in CONSTRUCTION_CONTRACTS + ACCESSOR_CONTRACTS:
                args.append(self.contract(b, t, site))
            else:
                fail(node, f'binder `{b}` of JTG.{dname} has no meaning here (py2jt output changed)')
        return f'(JTG.{dname} ' + ' '.join(args) + ')'

    # ---- expressions: returns (type, lean, jtinfo or None)
    def expr(self, e):
        if isinstance(e, ast.Name):
            if e.id not in self.env:
                fail(e, 'unknown name')
            t, l = self.env[e.id]
            if t in (ELIM, NONE):
                fail(e, '`elimination_order` used outside the third argument of JunctionTree(..)')
            return t, l, self.jtinfo.get(l)
        if isinstance(e, ast.Attribute) and isinstance(e.value, ast.Name) and e.value.id == 'self':
            key = 'self.' + e.attr
            if key not in self.env:
                fail(e, 'field read before it is stored')
            t, l = self.env[key]
            return t, l, self.jtinfo.get(l)
        if isinstance(e, ast.Constant) and type(e.value) is int and e.value >= 0:
            return NAT, f'({e.value} : Nat)', None
        if isinstance(e, ast.Call):
            return self.call(e)
        if isinstance(e, ast.Attribute):
            t, l, info = self.expr(e.value)
            if t == JT and e.attr == 'elimination_order':
                data = {'d': info['dom'], 'domain': info['dom'], 'cliques': info['cliques'], 'order': info['elim'],
                        'elimination_order': info['elim'], 'draws': 'draws'}
                return ATTRS, self.call_jtg(e, 'elimination_order_' + info['mode'], data), None
            fail(e, 'attribute outside the subset')
        if isinstance(e, ast.Subscript):
            t, l, _ = self.expr(e.value)
            s = e.slice
            if t in LISTS and isinstance(s, ast.Slice) and s.lower is None and s.upper is None and \
                    isinstance(s.step, ast.UnaryOp) and isinstance(s.step.op, ast.USub) and \
                    isinstance(s.step.operand, ast.Constant) and s.step.operand.value == 1:
                return t, f'(List.reverse {l})', None
            fail(e, 'subscript outside the subset')
        if isinstance(e, ast.BinOp):
            t1, l1, _ = self.expr(e.left)
            t2, l2, _ = self.expr(e.right)
            if t1 == t2 == NAT and isinstance(e.op, (ast.Add, ast.Mult, ast.Pow)):
                return NAT, f'({l1} {"+" if isinstance(e.op, ast.Add) else "*" if isinstance(e.op, ast.Mult) else "^"} {l2})', None
            if t1 == t2 and t1 in LISTS and isinstance(e.op, ast.Add):
                return t1, f'({l1} ++ {l2})', None
            fail(e, 'operator outside the subset')
        if isinstance(e, ast.Compare) and len(e.ops) == 1:
            t1, l1, _ = self.expr(e.left)
            t2, l2, _ = self.expr(e.comparators[0])
            ops = {ast.Lt: '<', ast.LtE: '≤', ast.Gt: '>', ast.GtE: '≥', ast.Eq: '='}
            if t1 == t2 == NAT and type(e.ops[0]) in ops:
                return BOOL, f'(decide ({l1} {ops[type(e.ops[0])]} {l2}))', None
            fail(e, 'comparison outside the subset')
        fail(e, 'expression outside the subset')

    def call(self, e):
        f = e.func
        if isinstance(f, ast.Name) and f.id == 'JunctionTree':
            return self.construct(e)
        if isinstance(f, ast.Name) and f.id in ('list', 'tuple') and len(e.args) == 1 and not e.keywords:
            t, l, _ = self.expr(e.args[0])
            if t in LISTS:
                return t, l, None
            fail(e, f'{f.id}(..) of a non-list')
        if isinstance(f, ast.Name) and f.id == 'len' and len(e.args) == 1 and not e.keywords:
            t, l, _ = self.expr(e.args[0])
            if t in LISTS:
                return NAT, f'(List.length {l})', None
            fail(e, 'len(..) of a non-list')
        if isinstance(f, ast.Name) and f.id == 'sum' and len(e.args) == 1 and not e.keywords and \
                isinstance(e.args[0], (ast.GeneratorExp, ast.ListComp)):
            g = e.args[0]
            if len(g.generators) != 1 or g.generators[0].ifs or g.generators[0].is_async or not isinstance(g.generators[0].target, ast.Name):
                fail(e, 'comprehension outside the subset')
            tx, lx, _ = self.expr(g.generators[0].iter)
            if tx not in ELEM:
                fail(e, 'iteration over something that is not a list of cliques')
            v = g.generators[0].target.id
            saved = self.env.get(v)
            self.env[v] = (ELEM[tx], v)
            tb, lb, _ = self.expr(g.elt)
            if saved is None:
                del self.env[v]
            else:
                self.env[v] = saved
            if tb != NAT:
                fail(e, 'sum of non-integers')
            return NAT, f'(({lx}.map (fun {v} => {lb})).sum)', None
        if isinstance(f, ast.Attribute):
            to, lo, info = self.expr(f.value)
            if to == DOM and f.attr == 'size' and len(e.args) == 1 and not e.keywords:
                ta, la, _ = self.expr(e.args[0])
                if ta != ATTRS:
                    fail(e, 'domain.size(..) of something that is not a clique')
                return NAT, f'(Dom.sizeOf {lo} {la})', None
            if to == JT and f.attr in ACCESSORS:
                if e.args or e.keywords:
                    fail(e, 'accessor called with arguments')
                k = self.sites.get(f.attr, 0) + 1
                self.sites[f.attr] = k
                site = f.attr if k == 1 else f'{f.attr}_{k}'
                return ACCESSORS[f.attr], self.call_jtg(e, f.attr, {'tree': f'{lo}.1'}, site), None
        fail(e, 'call outside the subset')

    def construct(self, e):
        if e.keywords and any(k.arg not in ('domain', 'cliques', 'elimination_order') for k in e.keywords):
            fail(e, 'unknown keyword of JunctionTree(..)')
        slots = dict(zip(['domain', 'cliques', 'elimination_order'], e.args))
        if len(e.args) > 3:
            fail(e, 'too many arguments of JunctionTree(..)')
        for k in e.keywords:
            if k.arg in slots:
                fail(e, 'argument given twice')
            slots[k.arg] = k.value
        if 'domain' not in slots or 'cliques' not in slots:
            fail(e, 'JunctionTree(..) without domain / cliques')
        td, ld, _ = self.expr(slots['domain'])
        tc, lc, _ = self.expr(slots['cliques'])
        if td != DOM or tc != CLIQUES:
            fail(e, 'JunctionTree(..): first argument must be a Domain, second a list of cliques')
        o = slots.get('elimination_order')
        if o is None or (isinstance(o, ast.Constant) and o.value is None):
            mode, lelim = 'none', None
        elif isinstance(o, ast.Name) and o.id in self.env and self.env[o.id][0] in (ELIM, NONE):
            mode, lelim = self.mode, (None if self.mode == 'none' else self.env[o.id][1])
        else:
            fail(o, 'elimination order of JunctionTree(..) outside the subset (the parameter `elimination_order` or None)')
        data = {'domain': ld, 'd': ld, 'cliques': lc, 'elimination_order': lelim, 'order': lelim, 'draws': 'draws'}
        if lelim is None:
            data.pop('elimination_order'), data.pop('order')
        lean = self.call_jtg(e, 'init_' + mode, data)
        return JT, lean, {'mode': mode, 'dom': ld, 'cliques': lc, 'elim': lelim}

    # ---- statements
    def bind(self, key, lean_name, t, l, info):
        self.lines.append(f'  let {lean_name} : {t} := {l}')
        self.env[key] = (t, lean_name)
        if info is not None:
            self.jtinfo[lean_name] = info
        else:
            self.jtinfo.pop(lean_name, None)

    def warn_only(self, body):
        """the body of the size guard: no effect on the object"""
        locals_ = set()
        for s in body:
            if isinstance(s, ast.Import) and [a.name for a in s.names] == ['warnings']:
                continue
            if isinstance(s, ast.Assign) and len(s.targets) == 1 and isinstance(s.targets[0], ast.Name) and self.is_text(s.value, locals_):
                if s.targets[0].id in self.env:
                    fail(s, 'the warning text overwrites a name of __init__')
                locals_.add(s.targets[0].id)
                continue
            if isinstance(s, ast.AugAssign) and isinstance(s.op, ast.Add) and isinstance(s.target, ast.Name) and s.target.id in locals_ \
                    and self.is_text(s.value, locals_):
                continue
            if isinstance(s, ast.Expr) and isinstance(s.value, ast.Call) and ast.unparse(s.value.func) == 'warnings.warn' and \
                    len(s.value.args) == 1 and not s.value.keywords and self.is_text(s.value.args[0], locals_):
                continue
            fail(s, 'statement with a possible effect inside the size guard')
        return locals_

    def is_text(self, e, locals_):
        if isinstance(e, ast.Constant) and isinstance(e.value, str):
            return True
        if isinstance(e, ast.Name) and e.id in locals_:
            return True
        if isinstance(e, ast.BinOp) and isinstance(e.op, ast.Mod) and isinstance(e.left, ast.Constant) and isinstance(e.left.value, str):
            # '%.2f GB' % (pure arithmetic over stored numbers): reads only
            for n in ast.walk(e.right):
                if isinstance(n, (ast.Call, ast.Lambda, ast.NamedExpr, ast.Await, ast.Yield, ast.YieldFrom)):
                    return False
            return True
        if isinstance(e, ast.BinOp) and isinstance(e.op, ast.Add):
            return self.is_text(e.left, locals_) and self.is_text(e.right, locals_)
        return False

    def stmt(self, s, dead):
        if isinstance(s, ast.Expr) and isinstance(s.value, ast.Constant) and isinstance(s.value.value, str):
            return
        if isinstance(s, ast.Assign) and len(s.targets) == 1:
            tg = s.targets[0]
            for n in ast.walk(s.value):
                if isinstance(n, ast.Name) and n.id in dead:
                    fail(s, 'a local of the warning block is read')
            t, l, info = self.expr(s.value)
            if isinstance(tg, ast.Attribute) and isinstance(tg.value, ast.Name) and tg.value.id == 'self':
                name = tg.attr
                old = [i for i, (n, _) in enumerate(self.fields) if n == name]
                if old:
                    self.fields[old[0]] = (name, t)
                else:
                    self.fields.append((name, t))
                self.bind('self.' + name, 'self_' + name, t, l, info)
                return
            if isinstance(tg, ast.Name):
                if tg.id in ('domain', 'cliques', 'total', 'elimination_order', 'self'):
                    fail(s, 'a parameter is re-bound')
                self.bind(tg.id, tg.id + '_' if tg.id in ('draws', 'τ') or tg.id in self.params else tg.id, t, l, info)
                return
            fail(s, 'assignment target outside the subset')
        if isinstance(s, ast.If) and not s.orelse:
            t, l, _ = self.expr(s.test)
            if t != BOOL:
                fail(s.test, 'test outside the subset')
            dead |= self.warn_only(s.body)
            self.fresh += 1
            self.lines.append(f'  let warn_{self.fresh} : Bool := {l}   -- `warnings.warn(..)` only: no effect on the object')
            return
        fail(s, 'statement outside the subset')

    def variant(self, f, mode):
        self.start(mode)
        dead = set()
        for s in f.body:
            self.stmt(s, dead)
        return list(self.fields), list(self.lines), dict(self.params)

    def run(self):
        check_junction_tree_facts(self.repo)
        check_domain_size_fact(self.repo)
        f = self.find_init()
        out, fields0 = [], None
        for mode in MODES:
            fields, lines, params = self.variant(f, mode)
            if not fields:
                fail(f, '__init__ stores no field')
            if fields0 is None:
                fields0 = fields
                st = ['/-- the object `GraphicalModel.__init__` leaves behind: one field per `self.X = …`, in source order -/',
                      'structure Model (τ : Type) where']
                st += [f'  {n} : {t}' for n, t in fields]
                out.append('\n'.join(st) + '\n')
            elif fields != fields0:
                fail(f, 'the stored fields depend on the form of elimination_order')
            # the canonical contract parameters are always present (used or not), so that the signature of `init_*` is stable
            for dname, (binders, _) in self.jtg.items():
                for b, t in binders:
                    if b in CONSTRUCTION_CONTRACTS:
                        params.setdefault(b, t)
                    if dname in ACCESSORS and b in ACCESSOR_CONTRACTS:
                        params.setdefault(f'{b}__{dname}', t)
            cons = [p for p in CONSTRUCTION_CONTRACTS if p in params]
            acc = sorted((p for p in params if '__' in p),
                         key=lambda p: (ACC_ORDER.index(re.sub(r'_\d+$', '', p.split('__')[1])), p.split('__')[1], ACCESSOR_CONTRACTS.index(p.split('__')[0])))
            rest = [p for p in params if p not in cons and p not in acc]
            if rest:
                fail(f, f'contract parameters without a place: {rest}')
            sig = ''.join(f' ({p} : {params[p]})' for p in cons + acc)
            sig += ' (domain : Dom) (cliques : List JT.Clique) (total : τ)'
            if mode == 'given':
                sig += ' (elimination_order : List Attr)'
            if mode == 'int':
                sig += ' (elimination_order : Nat) (draws : List (List Nat))'
            doc = {'given': '`elimination_order` a sequence', 'none': '`elimination_order` None',
                   'int': '`elimination_order` an int; `draws[k]` lists the outcomes of `np.random.choice` inside the k-th randomised run'}[mode]
            d = [f'/-- `GraphicalModel.__init__` ({SRC}:{f.lineno}) — {doc} -/',
                 f'def init_{mode} {{τ : Type}}{sig} : Model τ :='] + lines
            d.append('  { ' + ', '.join(f'{n} := self_{n}' for n, _ in fields) + ' }')
            out.append('\n'.join(d) + '\n')
        return out


HEADER = '''/- GENERATED by tools/py2gminit.py from src/mbi/graphical_model.py — do not edit
   `GraphicalModel.__init__`, statement by statement, once per dynamic form of `elimination_order`.  `JunctionTree(..)` and the accessors
   of the object are the definitions of PGM/Generated/JunctionTreeG.lean (py2jt); their networkx / set-iteration contracts are parameters
   here too: those of the construction (`tos`, `find_cliques`, `minimum_spanning_tree`, `choice`) once, those of an accessor call `t.m()`
   privately (`<contract>__<m>`: every call may see a different admissible outcome).  `total` is any value (type `τ`).
   The fields are consumed by `GMG.beliefPropagation` / `GMG.logZ` (PGM/Generated/GraphicalModelG.lean, py2gm): PGM/Properties/C01E.lean. -/
import PGM.Generated.JunctionTreeG
import PGM.Generated.GraphicalModelG
set_option linter.unusedVariables false
namespace PGM.GMIG
open PGM PGM.JT

'''


def main():
    ap = argparse.ArgumentParser()
    ap.add_argument('--repo', default='/repo')
    ap.add_argument('--out', required=True)
    a = ap.parse_args()
    try:
        defs = Translator(a.repo, a.out).run()
    except Untranslatable as e:
        print('py2gminit: source outside the translatable subset:', e)
        return 1
    os.makedirs(a.out, exist_ok=True)
    with open(os.path.join(a.out, 'GraphicalModelInitG.lean'), 'w') as f:
        f.write(HEADER + '\n'.join(defs) + '\nend PGM.GMIG\n')
    print(f'py2gminit: {len(defs)} definitions')
    return 0


if __name__ == '__main__':
    sys.exit(main())
