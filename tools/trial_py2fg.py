import os, re, shutil, subprocess, sys
W = '/root/work/py2fg'
R = '/root/work/py2fg_repo'
SRC = 'src/mbi/factor_graph.py'
MUT = [
 ('M01 phase1 pre reads mu_f instead of mu_n', "pre = sum(mu_n[c][cl] for c in cl)", "pre = sum(mu_f[cl][c] for c in cl)"),
 ('M02 complement: is not -> is', "complement = [var for var in cl if var is not v]", "complement = [var for var in cl if var is v]"),
 ('M03 drop message normalisation', "                    mu_f[cl][v] -= mu_f[cl][v].logsumexp()\n", ""),
 ('M04 var->fac message: pre + instead of pre -', "mu_n[v][f] = pre - mu_f[f][v] #", "mu_n[v][f] = pre + mu_f[f][v] #"),
 ('M05 range(self.iters + 1)', "for i in range(self.iters):", "for i in range(self.iters + 1):"),
 ('M06 fac: v not in cl', "fac = [cl for cl in self.cliques if v in cl]", "fac = [cl for cl in self.cliques if v not in cl]"),
 ('M07 normalisation sign', "belief += np.log(self.total) - belief.logsumexp()\n            marginals", "belief += np.log(self.total) + belief.logsumexp()\n            marginals"),
 ('M08 clique_marginals sums mu_f', "belief = potentials[cl] + sum(mu_n[n][cl] for n in cl)", "belief = potentials[cl] + sum(mu_f[cl][n] for n in cl)"),
 ('M09 marginals not exponentiated', "marginals[cl] = belief.exp()", "marginals[cl] = belief"),
 ('M10 init messages ones', "mu_n[v][cl] = Factor.zeros(self.domain.project(v))", "mu_n[v][cl] = Factor.ones(self.domain.project(v))"),
 ('M11 init mu_f over the clique domain', "mu_f[cl][v] = Factor.zeros(self.domain.project(v))", "mu_f[cl][v] = Factor.zeros(self.domain.project(cl))"),
 ('M12 dispatch: if not convex', "        if convex:\n", "        if not convex:\n"),
 ('M13 counting number counts the other cliques', "1.0 - len([cl for cl in cliques if a in cl])", "1.0 - len([cl for cl in cliques if a not in cl])"),
 ('M14 messages not persisted', "self.messages = mu_n, mu_f\n        self.marginals", "self.messages = self.init_messages()\n        self.marginals"),
 ('M15 beliefs from mu_n', "self.beliefs={v:sum(mu_f[cl][v] for cl", "self.beliefs={v:sum(mu_n[v][cl] for cl"),
 ('M16 primal: break on r != s', "if r == s: break", "if r != s: break"),
 ('M17 primal: len(d) > 1', "if len(d) > 0:", "if len(d) > 1:"),
 ('M18 primal: 2-norm', "np.linalg.norm(x-y, 1)", "np.linalg.norm(x-y, 2)"),
 ('M19 primal: count += 2', "count += 1", "count += 2"),
 ('M20 non-convex dispatches to convergent BP', "self.belief_propagation = self.loopy_belief_propagation", "self.belief_propagation = self.convergent_belief_propagation"),
 ('M21 logsumexp over [v] instead of complement', "mu_f[cl][v] = mu_f[cl][v].logsumexp(complement)", "mu_f[cl][v] = mu_f[cl][v].logsumexp([v])"),
 ('M22 clique_marginals: if not self.convex scaling', "if self.convex: belief *= 1.0/v[cl]", "if not self.convex: belief *= 1.0/v[cl]"),
 ('M23 early exit inserted', "            if callback is not None:\n                mg = self.clique_marginals(mu_n, mu_f, potentials) \n", "            if i > 10: break\n            if callback is not None:\n                mg = self.clique_marginals(mu_n, mu_f, potentials) \n"),
 ('M24 cold start on every call', "mu_n, mu_f = self.messages\n", "mu_n, mu_f = self.init_messages()\n"),
 ('M25 subtract the wrong message', "mu_f[cl][v] = potentials[cl] + pre - mu_n[v][cl]", "mu_f[cl][v] = potentials[cl] + pre - mu_f[cl][v]"),
 ('M26 primal: projects y from r', "y = mu[s].project(d).datavector()", "y = mu[r].project(d).datavector()"),
 ('M27 sweep order: var->fac uses its own message table', "pre = sum(mu_f[cl][v] for cl in fac)", "pre = sum(mu_n[v][cl] for cl in fac)"),
 ('M28 callback branch mutates the state', "callback(mg)\n\n        self.beliefs", "callback(mg); mu_n = self.init_messages()[0]\n\n        self.beliefs"),
 ('M29 counting number of a clique is 2.0', "counting_numbers[cl] = 1.0", "counting_numbers[cl] = 2.0"),
 ('M30 total stored wrongly', "self.total = total", "self.total = iters"),
 ('H01 rename local pre -> acc in phase 1', None, None),
 ('H02 is not -> != (attrs)', "complement = [var for var in cl if var is not v]", "complement = [var for var in cl if var != v]"),
 ('H03 swap the two stores of init_messages', "                mu_f[cl][v] = Factor.zeros(self.domain.project(v))\n                mu_n[v][cl] = Factor.zeros(self.domain.project(v))\n",
          "                mu_n[v][cl] = Factor.zeros(self.domain.project(v))\n                mu_f[cl][v] = Factor.zeros(self.domain.project(v))\n"),
 ('H04 remove the dead complement of phase 2', "                    complement = [var for var in fac if var is not f]\n", ""),
 ('H05 fuse two stores into one expression', "                    mu_f[cl][v] = potentials[cl] + pre - mu_n[v][cl]\n                    mu_f[cl][v] = mu_f[cl][v].logsumexp(complement)\n",
          "                    mu_f[cl][v] = (potentials[cl] + pre - mu_n[v][cl]).logsumexp(complement)\n"),
]
def theorem_at(path, line):
    name = None
    for i, l in enumerate(open(path), 1):
        m = re.match(r'\s*(?:theorem|def|example|instance)\s*([\w.]*)', l)
        if m and not l.startswith(' '):
            name = m.group(1) or 'example'
        if i >= line:
            break
    return name
only = sys.argv[1:] 
orig = open('/repo/' + SRC).read()
gen = W + '/lean/PGM/Generated/FactorGraphG.lean'
for name, a, b in MUT:
    if only and not any(name.startswith(o) for o in only):
        continue
    shutil.rmtree(R + '/src', ignore_errors=True); shutil.rmtree(R + '/mechanisms', ignore_errors=True)
    shutil.copytree('/repo/src', R + '/src'); shutil.copytree('/repo/mechanisms', R + '/mechanisms')
    if name.startswith('H01'):
        i = orig.index('#factor to variable BP'); j = orig.index('#variable to factor BP')
        new = orig[:i] + orig[i:j].replace('pre', 'acc') + orig[j:]
    else:
        assert orig.count(a) == 1, (name, orig.count(a))
        new = orig.replace(a, b)
    open(R + '/' + SRC, 'w').write(new)
    try:
        compile(new, 'fg', 'exec')
    except SyntaxError as e:
        print(name, '=> MUTANT DOES NOT PARSE', e); continue
    out = subprocess.run(['/venv/bin/python', W + '/tools/py2fg.py', '--repo', R, '--out', '/tmp/fgmut'], capture_output=True, text=True)
    if out.returncode != 0:
        print(f'{name} => translator stops: {out.stdout.strip()[:230]}'); continue
    shutil.copy('/tmp/fgmut/FactorGraphG.lean', gen)
    b_ = subprocess.run(['lake', 'build', 'PGM.Properties.C16G'], cwd=W + '/lean', capture_output=True, text=True)
    if b_.returncode == 0:
        print(f'{name} => PASSES (translation and all equalities)'); continue
    errs = re.findall(r'error: (PGM/[\w/]+\.lean):(\d+):\d+: ([^\n]*)', b_.stdout + b_.stderr)
    broken = []
    for f, ln, msg in errs:
        t = theorem_at(W + '/lean/' + f, int(ln))
        tag = f'{os.path.basename(f)}:{t}'
        if tag not in broken:
            broken.append(tag)
    print(f'{name} => breaks {", ".join(broken) if broken else (b_.stdout+b_.stderr)[-300:]}')
subprocess.run(['/venv/bin/python', W + '/tools/py2fg.py', '--repo', '/repo', '--out', W + '/lean/PGM/Generated'], capture_output=True)
