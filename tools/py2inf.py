#!/usr/bin/env python3
"""tools/py2inf.py --repo R --out DIR

Translates the estimation code of `src/mbi/inference.py` (class FactoredInference) into Lean definitions
(`DIR/InferenceG.lean`, namespace `PGM.InfG`) over the contracts of `PGM/Model/Loss.lean` (dense `Q @ x`, `Q.T @ v`,
`abs`, `sign`) and `PGM/Model/Solvers.lean` (`CliqueVector` arithmetic, `Result`).  `PGM/Properties/C04G.lean` proves
every generated definition equal to the hand-written model (`Loss.groupOf`, `Loss.marginalLoss`, `Loss.marginalLossL1`,
`Loss.lipschitz`, `Solvers.mirrorDescent`, `Solvers.dualAveraging`, `Solvers.interiorGradient`), so the theorems about
the model are re-checked against what the source says now.

It is a statement-level translator (state-passing style) over a typed recursive expression translator.  Anything
outside the subset makes it fail loudly (exit 1) -- a broken obligation, never a guess, never a silent skip.

Generated definitions (7)
  setupGroups        the grouping loop at the end of `_setup` (`self.groups`)
  marginalLossL2/L1  `_marginal_loss` with metric 'L2' / 'L1' (the `metric` test is decided by the variant)
  lipschitz          `_lipschitz`, the value of `eigsh(Q.H * Q, 1)[0][0]` a parameter per measurement
  mirrorDescent      `mirror_descent`, variant stepsize=None (line search), callback=None
  dualAveraging      `dual_averaging`, variant lipschitz=None, callback=None
  interiorGradient   `interior_gradient`, variant lipschitz=None, c=1, sigma=1, callback=None

Statements
  x = e / a, b = e1, e2 / a, b = pair / x = y = e / x op= e        -> `let` (dead assignments are checked, not emitted)
  d[k] = e / d[k] += e / d[k].append(e) / v.combine(w)              -> `let d := <updated d>` (dicts are association lists in
       insertion order; an in-place `combine` needs a receiver that is not aliased)
  for x in xs: body                                                -> `xs.foldl (fun st x => ...) st`; the state is the tuple of the
       variables assigned in the body that are read before being assigned in it or read after the loop, in the order of
       their first assignment in the function; it is taken apart by projections (`st.1`, `st.2.1`, ...), never by a match
  for ...: ... if c: [S;] break ...                                -> the same fold with a `done` flag (`if done then st else ...`)
  if c: ... return e / if c: return                                -> `if c then <result> else <rest>`
  if c: x = a else: x = b                                          -> `let x := if c then a else b`
  if <test decided by the variant>                                 -> the branch taken (`stepsize is None`, `callback is not None`,
       `metric == 'L1'`, `np.isscalar(None)`, `self.backend == 'torch'`, `hasattr(<ndarray>, 'sign')`, `callable(<str>)`)
  f = lambda t: e ; f(t)                                           -> the body is expanded AT THE CALL (free variables late-bound)
  return e                                                         -> the result
Skipped (no effect on the translated state): docstrings, `print(...)`, `if self.log: print(...)`, `callback(...)` under
  `callback is not None` (callback=None), `assert`s decided by the variant, `self._setup(...)` at the head of a solver (its
  products `self.model`, `self.groups` are the parameters `potentials`, `total`, `domain`, `cliques`, `lossgrad`),
  `Q = aslinearoperator(Q)` and `Q.dtype = ...` (no numeric effect).
Expressions: see `Tr.expr`; numbers: a numeric literal is the scalar built from `Scalar.one` by doubling and `Scalar.div`
  (0.5 = 1/(1+1)); Python ints (`t`, `t+1`, `-t*(t+1)`, `beta = 0`) are `Nat`/`Int` and enter scalar arithmetic through
  `Scalar.ofNat` / `ofInt`; `x**2` is `x*x`; `float(x)` is `x`; `x == 0` is `eq0 x` (false on nan), `x >= y` is
  `geG x y` (false on nan), `max(values)` is Python's `max` (`pyMax`: keeps the first of incomparable values),
  `np.sqrt(x)` is `npSqrt x = exp(log x / 2)` (the interface has no square root); `v.sum()`, `a @ b` are the
  left-to-right `Scalar.sum` / `Loss.dot` of the model (numpy's summation order is not modelled).
Facts about other code that the reading relies on are checked in the source (`check_sources`): the assertion
  `Q.shape[1] == self.domain.size(proj)` of `fix_measurements`, `self.model = GraphicalModel(self.domain, ...)` in `_setup`,
  `Factor.project(self, attrs, agg='sum')`.
"""
import argparse, ast, os, sys
from fractions import Fraction


class Untranslatable(Exception):
    pass


def fail(node, why):
    where = f'inference.py line {getattr(node, "lineno", "?")}' if isinstance(node, ast.AST) else str(node)
    text = (ast.unparse(node) if isinstance(node, ast.AST) else '').split('\n')[0]
    raise Untranslatable(f'{where}: {why}' + (f': {text[:160]}' if text else ''))


LEANTY = {'scalar': 'α', 'nat': 'Nat', 'int': 'Int', 'bool': 'Bool', 'vec': 'List α', 'mat': 'List (List α)',
          'meas': 'Loss.Meas α', 'measlist': 'List (Loss.Meas α)', 'factor': 'Factor α', 'cv': 'CliqueVec α',
          'clique': 'JT.Clique', 'cliques': 'List JT.Clique', 'dom': 'Dom', 'pair': 'α × CliqueVec α',
          'sdict': 'List (JT.Clique × α)', 'groups': 'List (JT.Clique × List (Loss.Meas α))',
          'cvopt': 'Option (CliqueVec α)', 'scalaropt': 'Option α', 'natlist': 'List Nat', 'scalars': 'List α',
          'oracle': 'CliqueVec α → CliqueVec α', 'objective': 'CliqueVec α → α × CliqueVec α',
          'result': 'Solvers.Result α'}
KEYWORDS = {'at', 'from', 'fun', 'end', 'open', 'in', 'let', 'do', 'then', 'else', 'if', 'match', 'with', 'where', 'have',
            'show', 'by', 'def', 'instance', 'export', 'local', 'done', 'item', 'st', 'out', 'α'}
PSEUDO = {'model.potentials': 'model_potentials', 'model.marginals': 'model_marginals', 'self.groups': 'groups'}


def lname(x):
    if x in PSEUDO:
        return PSEUDO[x]
    if x in KEYWORDS:
        fail(x, f'the python variable `{x}` clashes with a name the translation reserves')
    return x


class V:
    """a translated value: lean term, type and what the translator knows about it"""

    def __init__(self, t, ty, cols=None, fresh=False, lit=None, isint=False, lam=None):
        self.t, self.ty, self.cols, self.fresh, self.lit, self.isint, self.lam = t, ty, cols, fresh, lit, isint, lam


def enc_nat(n):
    """a natural number >= 1 as a scalar: doubling from `Scalar.one`"""
    if n == 1:
        return 'Scalar.one'
    h = enc_nat(n // 2)
    d = f'(Scalar.add {h} {h})'
    return d if n % 2 == 0 else f'(Scalar.add {d} Scalar.one)'


def enc_lit(q, node):
    """an exactly representable numeric literal as a scalar term"""
    if q < 0:
        return f'(Scalar.neg {enc_lit(-q, node)})'
    if q == 0:
        return 'Scalar.zero'
    if q.denominator == 1:
        if q.numerator > 1 << 20:
            fail(node, 'integer literal too large for the doubling encoding')
        return enc_nat(q.numerator)
    if q.denominator > 1 << 20 or q.denominator & (q.denominator - 1):
        fail(node, 'numeric literal is not a small dyadic rational (no exact scalar term for it)')
    return f'(Scalar.div {enc_nat(q.numerator)} {enc_nat(q.denominator)})'


# ---------------------------------------------------------------------------------------------------------------------
# reads / writes of statements (for the loop state)

def path_of(n):
    """`model.potentials`, `self.groups`, ... as a pseudo variable name, else None"""
    if isinstance(n, ast.Attribute):
        s = ast.unparse(n)
        if s.startswith('self.model.'):
            s = s[5:]
        if s in PSEUDO:
            return s
    return None


class Flow:
    """conservative read/write sets; `lam` maps a lambda-bound name to the free variables of its body"""

    def __init__(self, fn):
        self.lam = {}
        for n in ast.walk(fn):
            if isinstance(n, ast.Assign) and isinstance(n.value, ast.Lambda) and len(n.targets) == 1 and isinstance(n.targets[0], ast.Name):
                ps = {a.arg for a in n.value.args.args}
                fv = {m.id for m in ast.walk(n.value.body) if isinstance(m, ast.Name)} - ps
                self.lam.setdefault(n.targets[0].id, set()).update(fv)
        self.order = {}
        for name in self.assigned_in_order(fn.body):
            self.order.setdefault(name, len(self.order))

    def reads_expr(self, e):
        out = set()
        if e is None:
            return out
        for m in ast.walk(e):
            if isinstance(m, ast.Name) and isinstance(m.ctx, ast.Load):
                out.add(m.id)
                if m.id in self.lam:
                    out |= self.lam[m.id]
            p = path_of(m)
            if p:
                out.add(p)
        return out

    def targets(self, t):
        """-> (written names, names that are read because the store goes through them)"""
        if isinstance(t, ast.Name):
            return [t.id], set()
        if isinstance(t, (ast.Tuple, ast.List)):
            w, r = [], set()
            for e in t.elts:
                w2, r2 = self.targets(e)
                w += w2
                r |= r2
            return w, r
        if isinstance(t, ast.Subscript):
            w, r = self.targets(t.value)
            return w, r | set(w) | self.reads_expr(t.slice)
        p = path_of(t)
        if p:
            return [p], set()
        if isinstance(t, ast.Attribute):       # a store into another object's attribute (Q.dtype = ...): not a variable
            return [], self.reads_expr(t.value)
        fail(t, 'unsupported assignment target')

    def mutated(self, call):
        """`x.combine(y)` / `d[k].append(e)`: the receiver variable"""
        f = call.func
        if isinstance(f, ast.Attribute) and f.attr in ('combine', 'append'):
            base = f.value
            while isinstance(base, ast.Subscript):
                base = base.value
            if isinstance(base, ast.Name):
                return base.id
            return path_of(base)
        return None

    def stmt_rw(self, st):
        """-> (exposed reads, definite writes, possible writes) of one statement"""
        if is_noop(st):
            return {st.targets[0].id}, set(), set()
        if isinstance(st, ast.Assign):
            r = self.reads_expr(st.value)
            w = []
            for t in st.targets:
                w2, r2 = self.targets(t)
                w += w2
                r |= r2
            return r, set(w), set(w)
        if isinstance(st, ast.AugAssign):
            w, r2 = self.targets(st.target)
            return self.reads_expr(st.value) | r2 | set(w), set(w), set(w)
        if isinstance(st, ast.Expr):
            r = self.reads_expr(st.value)
            m = self.mutated(st.value) if isinstance(st.value, ast.Call) else None
            return r | ({m} if m else set()), ({m} if m else set()), ({m} if m else set())
        if isinstance(st, (ast.Return,)):
            return self.reads_expr(st.value), set(), set()
        if isinstance(st, ast.Assert):
            return set(), set(), set()
        if isinstance(st, (ast.Break, ast.Pass, ast.Import, ast.ImportFrom)):
            return set(), set(), set()
        if isinstance(st, ast.If):
            r0 = self.reads_expr(st.test)
            r1, d1, p1 = self.block_rw(st.body)
            r2, d2, p2 = self.block_rw(st.orelse)
            return r0 | r1 | r2, d1 & d2, p1 | p2
        if isinstance(st, ast.For):
            tw, _ = self.targets(st.target)
            r1, d1, p1 = self.block_rw(st.body)
            return self.reads_expr(st.iter) | (r1 - set(tw)), set(), p1 | set(tw)
        fail(st, 'unsupported statement')

    def block_rw(self, stmts):
        reads, definite, possible = set(), set(), set()
        for st in stmts:
            r, d, p = self.stmt_rw(st)
            reads |= (r - definite)
            definite |= d
            possible |= p
        return reads, definite, possible

    def assigned_in_order(self, stmts):
        out = []
        for st in stmts:
            if isinstance(st, ast.If):
                out += self.assigned_in_order(st.body) + self.assigned_in_order(st.orelse)
            elif isinstance(st, ast.For):
                out += self.targets(st.target)[0] + self.assigned_in_order(st.body)
            elif isinstance(st, (ast.Assign, ast.AugAssign, ast.Expr)):
                _, d, _ = self.stmt_rw(st)
                if isinstance(st, ast.Assign):
                    for t in st.targets:
                        out += self.targets(t)[0]
                else:
                    out += sorted(d)
        return out


# ---------------------------------------------------------------------------------------------------------------------

def ind(text, k=2):
    return '\n'.join((' ' * k + l if l else l) for l in text.split('\n'))


def own_break(stmts):
    """does this loop body contain a `break` of its own loop?"""
    for m in stmts:
        if isinstance(m, ast.Break):
            return True
        if isinstance(m, ast.If) and (own_break(m.body) or own_break(m.orelse)):
            return True
    return False


def is_noop(st):
    """`Q = aslinearoperator(Q)`: the same matrix behind scipy's operator interface (rebinding a name to itself)"""
    return isinstance(st, ast.Assign) and len(st.targets) == 1 and isinstance(st.targets[0], ast.Name) \
        and ast.unparse(st.value) == f'aslinearoperator({st.targets[0].id})'


def is_print(st):
    return isinstance(st, ast.Expr) and isinstance(st.value, ast.Call) and isinstance(st.value.func, ast.Name) and st.value.func.id == 'print'


def is_doc(st):
    return isinstance(st, ast.Expr) and isinstance(st.value, ast.Constant) and isinstance(st.value.value, str)


class Ctx:
    def __init__(self, ret, brk=None):
        self.ret, self.brk = ret, brk


class Tr:
    """translator of one method under one variant"""

    def __init__(self, fn, consts, attrs, zip_eigs=False):
        self.fn = fn
        self.flow = Flow(fn)
        self.consts = dict(consts)      # python name / `self.x` -> the python constant this variant fixes it to
        self.attrs = dict(attrs)        # `self.x` / `model.x` -> V (a parameter of the generated definition)
        self.used = []                  # parameters referenced by emitted code, in order of first use
        self.quiet = 0                  # >0 while translating something that is checked but not emitted
        self.zip_eigs = zip_eigs
        self.eig = None                 # the `eigsh` contract of the current measurement

    # ---- parameters
    def param(self, key, node):
        v = self.attrs.get(key) or fail(node, f'`{key}` is not available in this definition')
        if not self.quiet and v.t not in self.used and v.ty != 'const':
            self.used.append(v.t)
        return v

    # ---- coercions
    def scalar(self, v, node):
        if v.ty == 'lit':
            return enc_lit(v.lit, node)
        if v.ty == 'nat':
            return f'(Scalar.ofNat {v.t})'
        if v.ty == 'int':
            return f'(ofInt {v.t})'
        if v.ty == 'scalar':
            return v.t
        fail(node, f'expected a number, got {v.ty}')

    def nat(self, v, node):
        if v.ty == 'lit' and v.isint and v.lit >= 0:
            return str(v.lit.numerator)
        if v.ty == 'nat':
            return v.t
        fail(node, f'expected a natural number, got {v.ty}')

    def int_(self, v, node):
        if v.ty == 'lit' and v.isint:
            return f'({v.lit.numerator} : Int)'
        if v.ty == 'nat':
            return f'({v.t} : Int)'
        if v.ty == 'int':
            return v.t
        fail(node, f'expected an integer, got {v.ty}')

    def typed(self, n, env, *tys):
        v = self.expr(n, env)
        if v.ty not in tys:
            fail(n, f'expected {"/".join(tys)}, got {v.ty}')
        return v

    # ---- static tests
    def const_of(self, n):
        """(known, value) of a name / attribute the variant fixes"""
        key = n.id if isinstance(n, ast.Name) else ast.unparse(n) if isinstance(n, ast.Attribute) else None
        if key is not None and key in self.consts:
            return True, self.consts[key]
        return False, None

    def static(self, t, env):
        if isinstance(t, ast.UnaryOp) and isinstance(t.op, ast.Not):
            s = self.static(t.operand, env)
            return None if s is None else (not s)
        if isinstance(t, ast.BoolOp):
            vals = [self.static(v, env) for v in t.values]
            if isinstance(t.op, ast.And):
                if any(v is False for v in vals):
                    return False
                return True if all(v is True for v in vals) else None
            if any(v is True for v in vals):
                return True
            return False if all(v is False for v in vals) else None
        if isinstance(t, ast.Compare) and len(t.ops) == 1:
            op, r = t.ops[0], t.comparators[0]
            known, c = self.const_of(t.left)
            if isinstance(r, ast.Constant) and r.value is None and isinstance(op, (ast.Is, ast.IsNot, ast.Eq, ast.NotEq)):
                if known and (isinstance(t.left, ast.Attribute) or t.left.id not in env):
                    return (c is None) == isinstance(op, (ast.Is, ast.Eq))
                if isinstance(t.left, ast.Name) and t.left.id in env:
                    return not isinstance(op, (ast.Is, ast.Eq))       # bound to a translated value: not None
            if isinstance(r, ast.Constant) and isinstance(r.value, str) and isinstance(op, (ast.Eq, ast.NotEq)) and known and isinstance(c, str) \
                    and (isinstance(t.left, ast.Attribute) or t.left.id not in env):
                return (c == r.value) == isinstance(op, ast.Eq)
            return None
        if isinstance(t, ast.Call) and isinstance(t.func, ast.Name) and len(t.args) >= 1 and not t.keywords:
            if t.func.id == 'callable' and len(t.args) == 1:
                known, c = self.const_of(t.args[0])
                if known and isinstance(c, str):
                    return False
            if t.func.id == 'hasattr' and len(t.args) == 2 and isinstance(t.args[0], ast.Name) and t.args[0].id in env \
                    and isinstance(t.args[1], ast.Constant) and t.args[1].value == 'sign' and env[t.args[0].id].ty == 'vec':
                return False          # a numpy ndarray has no attribute `sign` (the torch tensors do)
            return None
        if isinstance(t, ast.Call) and ast.unparse(t.func) == 'np.isscalar' and len(t.args) == 1 and not t.keywords:
            known, c = self.const_of(t.args[0])
            if known and c is None and (not isinstance(t.args[0], ast.Name) or t.args[0].id not in env):
                return False
            return None
        return None

    # ---- expressions
    def expr(self, n, env):
        if isinstance(n, ast.Name):
            if n.id in env:
                return env[n.id]
            known, c = self.const_of(n)
            if known and isinstance(c, (int, float)) and not isinstance(c, bool):
                return V(None, 'lit', lit=Fraction(c), isint=isinstance(c, int))
            if known and isinstance(c, bool):
                return V('true' if c else 'false', 'bool')
            fail(n, 'unknown name (or a parameter this variant fixes to None / a string)')
        if isinstance(n, ast.Constant):
            if isinstance(n.value, bool):
                return V('true' if n.value else 'false', 'bool')
            if isinstance(n.value, (int, float)):
                if n.value != n.value or n.value in (float('inf'), float('-inf')):
                    fail(n, 'non-finite literal')
                return V(None, 'lit', lit=Fraction(n.value), isint=isinstance(n.value, int))
            fail(n, 'unsupported constant')
        if isinstance(n, ast.Attribute):
            return self.attribute(n, env)
        if isinstance(n, ast.Subscript):
            return self.subscript(n, env)
        if isinstance(n, ast.BinOp):
            return self.binop(n, env)
        if isinstance(n, ast.UnaryOp) and isinstance(n.op, ast.USub):
            v = self.expr(n.operand, env)
            if v.ty == 'lit':
                return V(None, 'lit', lit=-v.lit, isint=v.isint)
            if v.ty == 'nat':
                return V(f'(-({v.t} : Int))', 'int')
            if v.ty == 'int':
                return V(f'(-{v.t})', 'int')
            if v.ty == 'scalar':
                return V(f'(Scalar.neg {v.t})', 'scalar')
            fail(n, f'unsupported negation of {v.ty}')
        if isinstance(n, ast.UnaryOp) and isinstance(n.op, ast.Not):
            s = self.static(n, env)
            if s is not None:
                return V('true' if s else 'false', 'bool')
            return V(f'(!{self.typed(n.operand, env, "bool").t})', 'bool')
        if isinstance(n, ast.BoolOp):
            ts = [self.boolean(v, env) for v in n.values]
            return V('(' + (' || ' if isinstance(n.op, ast.Or) else ' && ').join(ts) + ')', 'bool')
        if isinstance(n, ast.Compare):
            return self.compare(n, env)
        if isinstance(n, ast.IfExp):
            s = self.static(n.test, env)
            if s is None:
                fail(n, 'conditional expression whose test is not decided by the variant')
            return self.expr(n.body if s else n.orelse, env)
        if isinstance(n, ast.Call):
            return self.call(n, env)
        if isinstance(n, ast.Dict) and not n.keys:
            return V('([] : CliqueVec α)', 'cv', fresh=True)       # `{ }` is used as a dict of factors
        if isinstance(n, ast.DictComp):
            return self.dictcomp(n, env)
        if isinstance(n, ast.Tuple):
            vs = [self.expr(e, env) for e in n.elts]
            tys = [v.ty for v in vs]
            if tys == ['mat', 'vec', 'scalar', 'clique']:
                return V(f'(Loss.Meas.mk {" ".join(v.t for v in vs)})', 'meas')
            if tys == ['scalar', 'cv']:
                return V(f'({vs[0].t}, {vs[1].t})', 'pair')
            fail(n, f'unsupported tuple of {tys}')
        if isinstance(n, ast.Lambda):
            if n.args.defaults or n.args.vararg or n.args.kwarg or n.args.kwonlyargs:
                fail(n, 'unsupported lambda signature')
            return V(None, 'lambda', lam=n)
        fail(n, 'unsupported expression')

    def boolean(self, n, env):
        s = self.static(n, env)
        if s is not None:
            return 'true' if s else 'false'
        return self.typed(n, env, 'bool').t

    def attribute(self, n, env):
        known, c = self.const_of(n)
        if known:
            if isinstance(c, bool):
                return V('true' if c else 'false', 'bool')
            fail(n, 'an attribute the variant fixes to a non-numeric constant is used as a value')
        s = ast.unparse(n)
        if s.startswith('self.model.'):
            s = s[5:]
        if s in PSEUDO:
            if s not in env:
                fail(n, f'`{s}` is read before it is set')
            return env[s]
        if s in self.attrs:
            return self.param(s, n)
        if s in ('self.model', 'model') or (isinstance(n.value, ast.Name) and n.value.id == 'self' and n.attr == 'model'):
            return V(None, 'model')
        base = self.expr(n.value, env)
        a = n.attr
        if base.ty == 'model' and ('model.' + a) in self.attrs:
            return self.param('model.' + a, n)
        if base.ty == 'model' and ('model.' + a) in PSEUDO:
            if ('model.' + a) not in env:
                fail(n, f'`model.{a}` is read before it is set')
            return env['model.' + a]
        if base.ty == 'factor' and a == 'domain':
            return V(f'(Factor.dom {base.t})', 'dom')
        if base.ty == 'mat' and a == 'T':
            return V(base.t, 'matT', cols=base.cols)
        fail(n, f'unknown attribute of {base.ty}')

    def subscript(self, n, env):
        src = ast.unparse(n)
        if self.eig is not None and src == f'eigsh({self.eig[0]}.H * {self.eig[0]}, 1)[0][0]':
            return V(self.eig[1], 'scalar')      # the contract: the largest eigenvalue of QᵀQ
        if self.eig is not None and src == f'({self.eig[0]}.H * {self.eig[0]}).matvec(np.ones(1))[0]':
            return V(self.eig[1], 'scalar')      # a one-column Q: QᵀQ is the 1×1 matrix holding its own eigenvalue
        # Q.shape[1]
        if isinstance(n.value, ast.Attribute) and n.value.attr == 'shape' and isinstance(n.slice, ast.Constant) and n.slice.value == 1:
            b = self.expr(n.value.value, env)
            if b.ty == 'mat' and b.cols:
                return V(b.cols, 'nat')
            fail(n, 'shape of something that is not a measurement matrix')
        base = self.expr(n.value, env)
        if base.ty == 'pair' and isinstance(n.slice, ast.Constant) and n.slice.value in (0, 1):
            return V(f'{base.t}.{n.slice.value + 1}', 'scalar' if n.slice.value == 0 else 'cv')
        if base.ty == 'cv':
            k = self.typed(n.slice, env, 'clique')
            return V(f'(CliqueVec.get {base.t} {k.t})', 'factor')
        if base.ty == 'groups':
            k = self.typed(n.slice, env, 'clique')
            return V(f'(dgetD {base.t} {k.t} [])', 'measlist')        # a defaultdict(list)
        if base.ty == 'sdict':
            k = self.typed(n.slice, env, 'clique')
            return V(f'(dgetD {base.t} {k.t} default)', 'scalar')
        fail(n, f'unsupported subscript of {base.ty}')

    def binop(self, n, env):
        return self.binop_v(n.op, self.expr(n.left, env), self.expr(n.right, env), n)

    def binop_v(self, op, L, R, n):
        num = ('lit', 'nat', 'int', 'scalar')
        if isinstance(op, ast.MatMult):
            if L.ty == 'mat' and R.ty == 'vec':
                return V(f'(Loss.matVec {L.t} {R.t})', 'vec')
            if L.ty == 'matT' and R.ty == 'vec':
                if not L.cols:
                    fail(n, 'the column count of the matrix is unknown')
                return V(f'(Loss.matTVec {L.t} {L.cols} {R.t})', 'vec')
            if L.ty == 'vec' and R.ty == 'vec':
                return V(f'(Loss.dot {L.t} {R.t})', 'scalar')
            fail(n, f'unsupported `@` on {L.ty} and {R.ty}')
        if isinstance(op, ast.Pow):
            if R.ty == 'lit' and R.lit == 2 and L.ty == 'scalar':
                return V(f'(Scalar.mul {L.t} {L.t})', 'scalar')
            fail(n, 'unsupported power (only `x**2` of a scalar)')
        name = {ast.Add: 'add', ast.Sub: 'sub', ast.Mult: 'mul', ast.Div: 'div'}.get(type(op)) or fail(n, 'unsupported operator')
        if L.ty in num and R.ty in num:
            if L.ty == 'lit' and R.ty == 'lit':
                fail(n, 'arithmetic on two literals')
            ints = ('nat', 'int')
            intlike = lambda v: v.ty in ints or (v.ty == 'lit' and v.isint)
            if name != 'div' and intlike(L) and intlike(R):
                if name == 'add' and 'int' not in (L.ty, R.ty) and not (L.ty == 'lit' and L.lit < 0) and not (R.ty == 'lit' and R.lit < 0):
                    return V(f'({self.nat(L, n)} + {self.nat(R, n)})', 'nat')
                if name == 'mul' and 'int' not in (L.ty, R.ty) and not (L.ty == 'lit' and L.lit < 0) and not (R.ty == 'lit' and R.lit < 0):
                    return V(f'({self.nat(L, n)} * {self.nat(R, n)})', 'nat')
                sym = {'add': '+', 'sub': '-', 'mul': '*'}[name]
                return V(f'({self.int_(L, n)} {sym} {self.int_(R, n)})', 'int')
            return V(f'(Scalar.{name} {self.scalar(L, n)} {self.scalar(R, n)})', 'scalar')
        if name == 'mul' and L.ty in num and R.ty == 'cv':
            return V(f'(CliqueVec.smul {self.scalar(L, n)} {R.t})', 'cv', fresh=True)
        if name == 'mul' and L.ty == 'cv' and R.ty in num:
            return V(f'(CliqueVec.smul {self.scalar(R, n)} {L.t})', 'cv', fresh=True)
        if name == 'add' and L.ty == R.ty == 'cv':
            return V(f'(CliqueVec.addV {L.t} {R.t})', 'cv', fresh=True)
        if name == 'sub' and L.ty == R.ty == 'cv':
            return V(f'(CliqueVec.subV {L.t} {R.t})', 'cv', fresh=True)
        if name == 'mul' and L.ty in num and R.ty == 'vec':
            return V(f'(List.map (fun v => Scalar.mul {self.scalar(L, n)} v) {R.t})', 'vec')
        if name in ('add', 'sub') and L.ty == R.ty == 'vec':
            return V(f'(List.zipWith Scalar.{name} {L.t} {R.t})', 'vec')
        fail(n, f'unsupported arithmetic on {L.ty} and {R.ty}')

    def compare(self, n, env):
        s = self.static(n, env)
        if s is not None:
            return V('true' if s else 'false', 'bool')
        if len(n.ops) != 1:
            fail(n, 'chained comparison')
        op, l, r = n.ops[0], n.left, n.comparators[0]
        isset = lambda x: isinstance(x, ast.Call) and isinstance(x.func, ast.Name) and x.func.id == 'set' and len(x.args) == 1 and not x.keywords
        if isinstance(op, ast.LtE) and isset(l) and isset(r):
            a, b = self.typed(l.args[0], env, 'clique'), self.typed(r.args[0], env, 'clique')
            return V(f'(JT.subset {a.t} {b.t})', 'bool')
        L, R = self.expr(l, env), self.expr(r, env)
        if isinstance(op, ast.Eq) and L.ty == 'scalar' and R.ty == 'lit' and R.lit == 0:
            return V(f'(eq0 {L.t})', 'bool')
        if isinstance(op, ast.GtE) and L.ty == 'scalar' and R.ty == 'scalar':
            return V(f'(geG {L.t} {R.t})', 'bool')
        if isinstance(op, ast.Eq) and L.ty == 'nat' and R.ty in ('nat', 'lit'):
            return V(f'({L.t} == {self.nat(R, n)})', 'bool')
        fail(n, f'unsupported comparison of {L.ty} and {R.ty}')

    def dictcomp(self, n, env):
        if len(n.generators) != 1 or n.generators[0].ifs or not isinstance(n.generators[0].target, ast.Name):
            fail(n, 'unsupported comprehension')
        g = n.generators[0]
        xs = self.typed(g.iter, env, 'cliques')
        k = g.target.id
        if not (isinstance(n.key, ast.Name) and n.key.id == k):
            fail(n, 'the key of the comprehension must be the loop variable')
        env2 = dict(env)
        env2[k] = V(lname(k), 'clique')
        v = self.expr(n.value, env2)
        # a dict display: later equal keys overwrite earlier ones, the position of the first occurrence is kept
        if v.ty == 'factor':
            return V(f'(List.foldl (fun (d : CliqueVec α) {lname(k)} => CliqueVec.set d {lname(k)} {v.t}) [] {xs.t})', 'cv', fresh=True)
        if v.ty in ('scalar', 'lit'):
            return V(f'(List.foldl (fun (d : List (JT.Clique × α)) {lname(k)} => dset d {lname(k)} {self.scalar(v, n)}) [] {xs.t})', 'sdict', fresh=True)
        fail(n, f'unsupported comprehension value {v.ty}')

    def call(self, n, env):
        f, args, nokw = n.func, n.args, not n.keywords
        src = ast.unparse(f)
        if isinstance(f, ast.Name):
            if f.id in env and env[f.id].ty == 'lambda' and nokw:
                lam = env[f.id].lam
                ps = [a.arg for a in lam.args.args]
                if len(ps) != len(args):
                    fail(n, 'wrong number of arguments for the lambda')
                vs = [self.expr(a, env) for a in args]
                env2 = dict(env)                           # the CURRENT environment: free variables are late-bound
                binds = []
                for p, v in zip(ps, vs):
                    if v.ty not in LEANTY:
                        fail(n, f'cannot pass a {v.ty} to a lambda')
                    env2[p] = V(lname(p), v.ty)
                    binds.append((lname(p), LEANTY[v.ty], v.t))
                body = self.expr(lam.body, env2)
                if body.ty not in LEANTY:
                    fail(n, f'lambda returns {body.ty}')
                fun = ' '.join(f'({p} : {ty})' for p, ty, _ in binds)
                return V(f'((fun {fun} => {body.t}) {" ".join(t for _, _, t in binds)})', body.ty)
            if f.id == 'float' and len(args) == 1 and nokw:
                v = self.expr(args[0], env)
                if v.ty in ('scalar', 'lit', 'nat', 'int'):
                    return V(self.scalar(v, n), 'scalar')
                fail(n, f'float of {v.ty}')
            if f.id == 'abs' and len(args) == 1 and nokw:
                return V(f'(List.map Loss.absS {self.typed(args[0], env, "vec").t})', 'vec')
            if f.id == 'CliqueVector' and len(args) == 1 and nokw:
                v = self.typed(args[0], env, 'cv')
                return V(v.t, 'cv', fresh=v.fresh)
            if f.id == 'range' and nokw and len(args) == 1:
                return V(f'(List.range {self.nat(self.expr(args[0], env), n)})', 'natlist')
            if f.id == 'range' and nokw and len(args) == 2:
                a, b = self.nat(self.expr(args[0], env), n), self.nat(self.expr(args[1], env), n)
                return V(f'(List.range\' {a} ({b} - {a}))', 'natlist')
            if f.id == 'sorted' and len(args) == 1 and [k.arg for k in n.keywords] == ['key']:
                xs = self.typed(args[0], env, 'cliques')
                key = n.keywords[0].value
                if not (isinstance(key, ast.Attribute) and key.attr == 'size' and self.expr(key.value, env).ty == 'dom'):
                    fail(n, 'sorted: the key must be `<domain>.size`')
                d = self.expr(key.value, env)
                return V(f'(Dom.sortBy (fun x => Dom.sizeOf {d.t} x) {xs.t})', 'cliques')       # Python's sort is stable
            if f.id == 'max' and len(args) == 1 and nokw:
                return V(f'(pyMax {self.typed(args[0], env, "scalars").t})', 'scalar')
            if f.id == 'defaultdict' and len(args) == 1 and nokw and ast.unparse(args[0]) == 'lambda: []':
                return V('([] : List (JT.Clique × List (Loss.Meas α)))', 'groups', fresh=True)
            fail(n, 'unsupported function')
        if src == 'np.sign' and len(args) == 1 and nokw:
            return V(f'(List.map Loss.signS {self.typed(args[0], env, "vec").t})', 'vec')
        if src == 'np.sqrt' and len(args) == 1 and nokw:
            return V(f'(npSqrt {self.scalar(self.typed(args[0], env, "scalar", "lit", "nat"), n)})', 'scalar')
        if src in ('self.Factor', 'Factor') and len(args) == 2 and nokw and self.consts.get('self.backend') == 'numpy':
            d, g = self.typed(args[0], env, 'dom'), self.typed(args[1], env, 'vec')
            return V(f'(Factor.mk\' {d.t} (NdArr.mk [List.length {g.t}] (List.toArray {g.t})))', 'factor', fresh=True)
        if src in ('self.Factor.zeros', 'Factor.zeros') and len(args) == 1 and nokw and self.consts.get('self.backend') == 'numpy':
            return V(f'(Factor.zeros {self.typed(args[0], env, "dom").t})', 'factor', fresh=True)
        if src == 'self._marginal_loss' and len(args) == 1 and nokw:
            return V(f'({self.param("self._marginal_loss", n).t} {self.typed(args[0], env, "cv").t})', 'pair')
        if src == 'self._lipschitz' and len(args) == 1 and nokw and ast.unparse(args[0]) == 'measurements':
            return self.param('self._lipschitz(measurements)', n)
        if isinstance(f, ast.Attribute):
            base = self.expr(f.value, env)
            m = f.attr
            if base.ty == 'model' and nokw and len(args) == 1 and m in ('belief_propagation', 'mle'):
                return V(f'({self.param("model." + m, n).t} {self.typed(args[0], env, "cv").t})', 'cv', fresh=True)
            if base.ty == 'cv' and m == 'dot' and len(args) == 1 and nokw:
                return V(f'(CliqueVec.dotV {base.t} {self.typed(args[0], env, "cv").t})', 'scalar')
            if base.ty == 'factor' and m == 'project' and len(args) == 1 and nokw:
                return V(f'(Factor.projectSum {base.t} {self.typed(args[0], env, "clique").t})', 'factor', fresh=True)   # agg = 'sum' (checked)
            if base.ty == 'factor' and m == 'datavector' and not args and nokw:
                return V(f'(Factor.datavector {base.t})', 'vec')
            if base.ty == 'vec' and m == 'sum' and not args and nokw:
                return V(f'(Scalar.sum {base.t})', 'scalar')
            if base.ty == 'dom' and m == 'project' and len(args) == 1 and nokw:
                return V(f'(Dom.project {base.t} {self.typed(args[0], env, "clique").t})', 'dom')
            if base.ty == 'dom' and m == 'size' and len(args) == 1 and nokw:
                return V(f'(Dom.sizeOf {base.t} {self.typed(args[0], env, "clique").t})', 'nat')
            if base.ty == 'sdict' and m == 'values' and not args and nokw:
                return V(f'(List.map Prod.snd {base.t})', 'scalars')
            fail(n, f'unsupported method of {base.ty}')
        fail(n, 'unsupported call')

    # ---- statements
    def tuple_of(self, names, env):
        if len(names) == 1:
            return env[names[0]].t
        return '(' + ', '.join(env[x].t for x in names) + ')'

    def tuple_ty(self, names, env, extra=()):
        tys = []
        for x in names:
            ty = env[x].ty
            if ty not in LEANTY:
                fail(self.fn, f'the variable `{x}` of type {ty} cannot be part of a loop state')
            tys.append(LEANTY[ty])
        tys += list(extra)
        return ' × '.join(f'({t})' if ('×' in t or '→' in t) and len(tys) > 1 else t for t in tys)

    def pat(self, names, extra=()):
        ns = [lname(x) for x in names] + list(extra)
        return ns[0] if len(ns) == 1 else '(' + ', '.join(ns) + ')'

    def bind(self, env, name, v, live, lets):
        """`name = v`: emit the let when the variable is read later"""
        if v.ty in ('lambda', 'model'):
            env[name] = v
            return
        if v.ty == 'lit':
            v = V(str(v.lit.numerator), 'nat') if v.isint and v.lit >= 0 else V(enc_lit(v.lit, self.fn), 'scalar')
        if v.ty not in LEANTY:
            fail(self.fn, f'cannot bind `{name}` to a value of type {v.ty}')
        if name not in live:
            env.pop(name, None)       # dead: a later read (there is none, by `live`) would fail loudly
            return
        if lname(name) in PARAM_TY:
            if v.t != lname(name):
                fail(self.fn, f'the python variable `{name}` is bound to something other than the parameter of that name')
            env[name] = V(lname(name), v.ty, cols=v.cols, fresh=False)
            return
        lets.append(f'let {lname(name)} : {LEANTY[v.ty]} := {v.t}')
        env[name] = V(lname(name), v.ty, cols=v.cols, fresh=v.fresh)

    def quiet_expr(self, n, env):
        self.quiet += 1
        try:
            return self.expr(n, env)
        finally:
            self.quiet -= 1

    def block(self, stmts, env, live_out, kont, ctx):
        """the lean term of: run `stmts` from `env`, then `kont(env)`"""
        stmts = [s for s in stmts if not is_doc(s) and not isinstance(s, (ast.Pass, ast.Import, ast.ImportFrom))]
        if not stmts:
            return kont(env)
        st, rest = stmts[0], stmts[1:]
        env = dict(env)
        live = self.flow.block_rw(rest)[0] | live_out
        lets = []
        go = lambda: '\n'.join(lets + [self.block(rest, env, live_out, kont, ctx)])

        if is_print(st):
            return go()
        if is_noop(st):
            self.typed(st.value.args[0], env, 'mat')
            return go()
        if isinstance(st, ast.Assert):
            if self.static(st.test, env) is not True:
                fail(st, 'an assertion that the variant does not decide')
            return go()
        if isinstance(st, ast.Expr) and ast.unparse(st.value).startswith('self._setup(') and self.consts.get('@solver'):
            return go()
        if isinstance(st, ast.Return):
            if rest:
                fail(rest[0], 'unreachable statement after return')
            return ctx.ret(st.value, env)
        if isinstance(st, ast.If):
            return self.if_(st, rest, env, live_out, live, kont, ctx)
        if isinstance(st, ast.For):
            return self.for_(st, rest, env, live_out, live, kont, ctx)
        if isinstance(st, ast.Assign):
            self.assign(st, env, live, lets)
            return go()
        if isinstance(st, ast.AugAssign):
            cur, val = self.expr(self.as_load(st.target), env), self.expr(st.value, env)
            if cur.ty == 'factor' and val.ty == 'factor' and isinstance(st.op, ast.Add):
                v = V(f'(Factor.iadd {cur.t} {val.t})', 'factor')          # Factor.__iadd__: in place, on the receiver's domain
            elif cur.ty in ('factor', 'cv', 'vec'):
                fail(st, f'unsupported in-place operation on a {cur.ty}')
            else:
                v = self.binop_v(st.op, cur, val, st)
            self.store(st.target, v, env, live, lets, st)
            return go()
        if isinstance(st, ast.Expr) and isinstance(st.value, ast.Call):
            self.mutation(st.value, env, live, lets)
            return go()
        fail(st, 'unsupported statement')

    def as_load(self, t):
        t2 = ast.parse(ast.unparse(t), mode='eval').body
        return ast.copy_location(t2, t)

    def assign(self, st, env, live, lets):
        # Q = aslinearoperator(Q) keeps what is known about Q
        if len(st.targets) == 1 and isinstance(st.targets[0], ast.Attribute) and path_of(st.targets[0]) is None:
            t = st.targets[0]
            if t.attr == 'dtype' and self.expr(t.value, env).ty == 'mat':
                return                       # `Q.dtype = np.dtype(Q.dtype)`: dtype normalisation, no numeric effect
            fail(st, 'unsupported attribute store')
        # a, b = e1, e2  (python evaluates the whole right side first)
        if len(st.targets) == 1 and isinstance(st.targets[0], ast.Tuple) and isinstance(st.value, ast.Tuple):
            ts, vs = st.targets[0].elts, st.value.elts
            if len(ts) != len(vs):
                fail(st, 'tuple assignment of different lengths')
            names = [self.tname(t) for t in ts]
            vals = [self.expr(v, env) if x in live else self.quiet_expr(v, env) for x, v in zip(names, vs)]
            for j, v in enumerate(vals):
                for x in names[:j]:
                    if v.t and x in live and lname(x) not in PARAM_TY and self.mentions(v.t, lname(x)):
                        fail(st, 'simultaneous assignment whose right side reads a variable it assigns earlier')
            for x, v in zip(names, vals):
                self.bind(env, x, V(v.t, v.ty, cols=v.cols, fresh=False, lit=v.lit, isint=v.isint, lam=v.lam), live, lets)
            return
        if len(st.targets) == 1 and isinstance(st.targets[0], ast.Tuple):
            ts = st.targets[0].elts
            v = self.expr(st.value, env)
            if v.ty == 'pair' and len(ts) == 2:
                for i, (t, ty) in enumerate(zip(ts, ('scalar', 'cv'))):
                    if isinstance(t, ast.Name) and t.id == '_':
                        continue
                    self.bind(env, self.tname(t), V(f'{v.t}.{i + 1}', ty), live, lets)
                return
            fail(st, f'cannot destructure a {v.ty}')
        live2 = set(live)
        for t in st.targets:
            live2 |= {self.tname(t)} if isinstance(t, ast.Name) else set()
        first = st.targets[0]
        if all(isinstance(t, ast.Name) or path_of(t) for t in st.targets):
            names = [self.tname(t) for t in st.targets]
            anylive = any(x in live for x in names)
            v = self.expr(st.value, env) if anylive else self.quiet_expr(st.value, env)
            if len(names) == 1:
                if names[0] in PSEUDO and names[0] == 'model.marginals':
                    v = V(f'(some {self.as_ty(v, "cv", st).t})', 'cvopt')
                self.bind(env, names[0], v, live, lets)
                return
            # x = y = z = e : e is evaluated once, the names are aliases of one object
            live_names = [x for x in names if x in live]
            if live_names:
                self.bind(env, live_names[0], V(v.t, v.ty, cols=v.cols, fresh=False), live, lets)
                for x in live_names[1:]:
                    self.bind(env, x, V(lname(live_names[0]), v.ty, cols=v.cols, fresh=False), live, lets)
            for x in names:
                if x not in live:
                    env.pop(x, None)
            return
        if len(st.targets) == 1 and isinstance(first, ast.Subscript):
            self.store(first, self.expr(st.value, env), env, live, lets, st)
            return
        fail(st, 'unsupported assignment')

    def as_ty(self, v, ty, node):
        if v.ty != ty:
            fail(node, f'expected {ty}, got {v.ty}')
        return v

    def mentions(self, term, name):
        import re
        return re.search(r'(?<![\w.])' + re.escape(name) + r'(?![\w])', term) is not None

    def tname(self, t):
        if isinstance(t, ast.Name):
            return t.id
        p = path_of(t)
        if p:
            return p
        fail(t, 'unsupported assignment target')

    def store(self, target, v, env, live, lets, node):
        """`x = v` or `d[k] = v`"""
        if isinstance(target, ast.Name) or path_of(target):
            self.bind(env, self.tname(target), v, live, lets)
            return
        if isinstance(target, ast.Subscript) and (isinstance(target.value, ast.Name) or path_of(target.value)):
            dname = self.tname(target.value)
            d = self.expr(target.value, env)
            k = self.typed(target.slice, env, 'clique')
            if d.ty == 'cv' and v.ty == 'factor':
                self.bind(env, dname, V(f'(CliqueVec.set {d.t} {k.t} {v.t})', 'cv', fresh=d.fresh), live, lets)
                return
            if d.ty == 'sdict' and v.ty in ('scalar', 'lit', 'nat', 'int'):
                self.bind(env, dname, V(f'(dset {d.t} {k.t} {self.scalar(v, node)})', 'sdict', fresh=d.fresh), live, lets)
                return
            fail(node, f'unsupported store of {v.ty} into {d.ty}')
        fail(node, 'unsupported store')

    def mutation(self, call, env, live, lets):
        f = call.func
        if isinstance(f, ast.Attribute) and f.attr == 'combine' and len(call.args) == 1 and not call.keywords and isinstance(f.value, ast.Name):
            x = env.get(f.value.id) or fail(call, 'unknown receiver')
            if x.ty != 'cv' or not x.fresh:
                fail(call, 'in-place `combine` on a vector that may be shared with another variable')
            o = self.typed(call.args[0], env, 'cv')
            self.bind(env, f.value.id, V(f'(CliqueVec.combine {x.t} {o.t})', 'cv', fresh=True), live, lets)
            return
        if isinstance(f, ast.Attribute) and f.attr == 'append' and len(call.args) == 1 and not call.keywords and isinstance(f.value, ast.Subscript):
            dn = self.tname(f.value.value)
            d = self.expr(f.value.value, env)
            k = self.typed(f.value.slice, env, 'clique')
            e = self.typed(call.args[0], env, 'meas')
            if d.ty != 'groups':
                fail(call, f'append into {d.ty}')
            # defaultdict(list): a missing key is inserted (at the end) with [], then the list grows in place
            self.bind(env, dn, V(f'(dset {d.t} {k.t} (dgetD {d.t} {k.t} [] ++ [{e.t}]))', 'groups', fresh=d.fresh), live, lets)
            return
        fail(call, 'unsupported expression statement (a call with unknown effects)')

    def effect_free(self, stmts):
        return all(is_print(s) or is_doc(s) or (isinstance(s, ast.If) and self.effect_free(s.body) and self.effect_free(s.orelse)) for s in stmts)

    def if_(self, st, rest, env, live_out, live, kont, ctx):
        if self.effect_free(st.body) and self.effect_free(st.orelse):
            return self.block(rest, env, live_out, kont, ctx)           # logging only
        s = self.static(st.test, env)
        if s is not None:
            return self.block((st.body if s else st.orelse) + rest, env, live_out, kont, ctx)
        c = self.boolean(st.test, env)
        last = st.body[-1]
        if isinstance(last, ast.Return) and not st.orelse:
            a = self.block(st.body, env, live_out, kont, ctx)
            b = self.block(rest, env, live_out, kont, ctx)
            return f'(if {c} then\n{ind(a)}\nelse\n{ind(b)})'
        if isinstance(last, ast.Break) and not st.orelse:
            if ctx.brk is None:
                fail(last, '`break` outside a loop')
            a = self.block(st.body[:-1], env, ctx.brk[1], ctx.brk[0], ctx)
            b = self.block(rest, env, live_out, kont, ctx)
            return f'(if {c} then\n{ind(a)}\nelse\n{ind(b)})'
        for blk in (st.body, st.orelse):
            for m in blk:
                for x in ast.walk(m):
                    if isinstance(x, (ast.Return, ast.Break, ast.Continue)):
                        fail(x, 'return/break inside this `if` is not at the end of its body')
        _, d1, p1 = self.flow.block_rw(st.body)
        _, d2, p2 = self.flow.block_rw(st.orelse)
        names = sorted((p1 | p2) & live, key=lambda x: self.flow.order.get(x, 1 << 30))
        for x in names:
            if x not in env and not (x in d1 and x in d2):
                fail(st, f'`{x}` is assigned in one branch only and has no value before')
        if not names:
            fail(st, 'an `if` with no visible effect')
        outs = []

        def fin(e):
            outs.append(e)
            return self.tuple_of(names, e)
        a = self.block(st.body, env, set(names) | live, fin, ctx)
        b = self.block(st.orelse, env, set(names) | live, fin, ctx)
        env = dict(env)
        for x in names:
            tys = {e[x].ty for e in outs}
            if len(tys) != 1:
                fail(st, f'`{x}` has different types in the two branches')
            env[x] = V(lname(x), tys.pop(), cols=outs[0][x].cols if all(e[x].cols == outs[0][x].cols for e in outs) else None)
        head = f'let {self.pat(names)} : {self.tuple_ty(names, env)} :=\n  (if {c} then\n{ind(a, 4)}\n  else\n{ind(b, 4)})'
        return head + '\n' + self.block(rest, env, live_out, kont, ctx)

    def for_(self, st, rest, env, live_out, live, kont, ctx):
        if st.orelse:
            fail(st, 'for-else')
        flow = self.flow
        tw, _ = flow.targets(st.target)
        it = self.expr(st.iter, env)
        exposed, _, possible = flow.block_rw(st.body)
        carried = sorted(((possible - set(tw)) & (exposed | live)), key=lambda x: flow.order.get(x, 1 << 30))
        if not carried:
            fail(st, 'a loop with no visible effect')
        for x in carried:
            if x not in env:
                fail(st, f'`{x}` is carried by the loop but has no value before it')
        has_break = own_break(st.body)
        for m in st.body:
            for x in ast.walk(m):
                if isinstance(x, ast.Continue) or (isinstance(x, ast.Return)):
                    fail(x, 'continue/return inside a loop')
        # the element
        binder, pre, env_b = None, [], dict(env)
        if it.ty == 'natlist' and isinstance(st.target, ast.Name):
            binder = f'({lname(st.target.id)} : Nat)'
            env_b[st.target.id] = V(lname(st.target.id), 'nat')
        elif it.ty == 'cliques' and isinstance(st.target, ast.Name):
            binder = f'({lname(st.target.id)} : JT.Clique)'
            env_b[st.target.id] = V(lname(st.target.id), 'clique')
        elif it.ty == 'cv' and isinstance(st.target, ast.Name):
            it = V(f'(List.map Prod.fst {it.t})', 'cliques')               # iterating a dict yields its keys, in order
            binder = f'({lname(st.target.id)} : JT.Clique)'
            env_b[st.target.id] = V(lname(st.target.id), 'clique')
        elif it.ty == 'measlist' and isinstance(st.target, ast.Tuple) and len(st.target.elts) == 4 and all(isinstance(e, ast.Name) for e in st.target.elts):
            q, y, noise, proj = [e.id for e in st.target.elts]
            m = 'item'
            if self.zip_eigs and ast.unparse(st.iter) == 'measurements':
                it = V(f'(List.zip {it.t} {self.param("@eigs", st).t})', 'zipped')
                binder = f'(item : Loss.Meas α × α)'
                m = 'item.1'
            else:
                binder = f'(item : Loss.Meas α)'
            cols = None
            if proj != '_':
                cols = f'(Dom.sizeOf {self.param("self.domain", st).t} {lname(proj)})' if self.need_cols(st.body, q) else None
            for name, fld, ty in ((q, 'Q', 'mat'), (y, 'y', 'vec'), (noise, 'noise', 'scalar'), (proj, 'proj', 'clique')):
                if name == '_':
                    continue
                if name in exposed:
                    pre.append(f'let {lname(name)} : {LEANTY[ty]} := {m}.{fld}')
                    env_b[name] = V(lname(name), ty, cols=cols if ty == 'mat' else None)
            if self.zip_eigs and ast.unparse(st.iter) == 'measurements':
                self.eig = (q, 'item.2')
        else:
            fail(st, f'unsupported loop over {it.ty}')
        # the state
        extra_p, extra_t = (['done'], ['Bool']) if has_break else ([], [])
        sty = self.tuple_ty(carried, env, extra_t)
        tup = lambda e, flag=None: self.pat_vals(carried, e, flag)

        def body_end(e):
            self.check_state_types(carried, env, e, st)
            return tup(e, 'false' if has_break else None)

        def body_break(e):
            self.check_state_types(carried, env, e, st)
            return tup(e, 'true')
        body_live = set(carried) | exposed | live
        env_in = dict(env_b)
        for x in carried:
            env_in[x] = V(lname(x), env[x].ty, cols=env[x].cols, fresh=env[x].fresh)
        inner_ctx = Ctx(ctx.ret, (body_break, body_live) if has_break else None)
        body = self.block(st.body, env_in, body_live, body_end, inner_ctx)
        self.eig = None
        n = len(carried) + len(extra_p)

        def proj(base, i):
            return base if n == 1 else base + '.2' * i + ('.1' if i < n - 1 else '')
        # the state is taken apart by projections (no pattern matching: nothing has to be evaluated to read a component)
        lines = []
        if n > 1:
            lines = [f'let {lname(x)} : {LEANTY[env[x].ty]} := {proj("st", i)}' for i, x in enumerate(carried)]
        stname = 'st' if n > 1 else lname(carried[0])
        if has_break:
            lines.append(f'let done : Bool := {proj("st", n - 1)}')
            lines.append('if done then st else')
        lines += pre
        fun = f'fun ({stname} : {sty}) {binder} =>'
        init = self.pat_vals(carried, env, 'false' if has_break else None)
        fold = f'List.foldl ({fun}\n' + ind('\n'.join(lines + [body]), 4) + f') {init} {it.t}'
        if n == 1:
            text = f'let {lname(carried[0])} : {sty} := {fold}'
        else:
            text = f'let out : {sty} := {fold}\n' + '\n'.join(f'let {lname(x)} : {LEANTY[env[x].ty]} := {proj("out", i)}' for i, x in enumerate(carried))
        env = dict(env)
        for x in carried:
            env[x] = V(lname(x), env[x].ty, cols=env[x].cols, fresh=env[x].fresh)
        return text + '\n' + self.block(rest, env, live_out, kont, ctx)

    def need_cols(self, body, q):
        for m in body:
            for x in ast.walk(m):
                if isinstance(x, ast.Attribute) and isinstance(x.value, ast.Name) and x.value.id == q and x.attr in ('T', 'shape'):
                    return True
        return False

    def pat_vals(self, names, env, flag=None):
        vals = [env[x].t for x in names] + ([flag] if flag else [])
        return vals[0] if len(vals) == 1 else '(' + ', '.join(vals) + ')'

    def check_state_types(self, names, env0, env1, node):
        for x in names:
            if x not in env1 or env1[x].ty != env0[x].ty:
                fail(node, f'the loop changes the type of `{x}`')


# ---------------------------------------------------------------------------------------------------------------------

PRELUDE = '''/-- `d[k] = v` on a dict kept as an association list in insertion order -/
def dset {β : Type} (d : List (JT.Clique × β)) (k : JT.Clique) (v : β) : List (JT.Clique × β) :=
  if d.any (fun p => p.1 == k) then d.map (fun p => if p.1 == k then (k, v) else p) else d ++ [(k, v)]

/-- `d[k]`, with the value `z` for a key that is absent (`defaultdict`; `KeyError` otherwise) -/
def dgetD {β : Type} (d : List (JT.Clique × β)) (k : JT.Clique) (z : β) : β := (d.lookup k).getD z

/-- a Python `int` entering float arithmetic -/
def ofInt (z : Int) : α :=
  match z with
  | Int.ofNat n => Scalar.ofNat n
  | Int.negSucc n => Scalar.neg (Scalar.ofNat (n + 1))

/-- `x == 0` on floats (`x <= 0 and -x <= 0`; false on nan) -/
def eq0 (x : α) : Bool := Scalar.le0 x && Scalar.le0 (Scalar.neg x)

/-- `x >= y` on floats, as `y - x <= 0` (false on nan) -/
def geG (x y : α) : Bool := Scalar.le0 (Scalar.sub y x)

/-- Python's builtin `max` of a sequence of floats: the running best is replaced only by a strictly greater value -/
def pyMax (l : List α) : α :=
  match l with
  | [] => default
  | x :: xs => xs.foldl (fun best v => if Scalar.gt0 (Scalar.sub v best) then v else best) x

/-- `np.sqrt(x)`, read through the interface as `exp(log x / 2)` (it has no square root) -/
def npSqrt (x : α) : α := Scalar.exp (Scalar.div (Scalar.log x) (Scalar.add Scalar.one Scalar.one))
'''

HEADER = '''/- GENERATED by tools/py2inf.py from src/mbi/inference.py — do not edit
   Statement-level translation of the estimation code of `class FactoredInference` (numpy backend):
   the grouping loop of `_setup`, `_marginal_loss` (metric 'L2' and 'L1'), `_lipschitz`, and the three solvers in the
   variants `mirror_descent(stepsize=None, callback=None)`, `dual_averaging(lipschitz=None, callback=None)`,
   `interior_gradient(lipschitz=None, c=1, sigma=1, callback=None)`.
   Not translated: callbacks, logging (`print`, `self.log`), the `stepsize`-given branches of `mirror_descent`, the
   `lipschitz`-given branches, callable metrics, the torch backend, `fix_measurements`, the total estimate of `_setup`.
   Oracles: `bp` = `model.belief_propagation`, `lossgrad` = `self._marginal_loss`, `mle` = `model.mle`,
   `L` = the value of `self._lipschitz(measurements)`, `topEigs` = per measurement the value of `eigsh(Q.H * Q, 1)[0][0]`;
   `potentials` / `total` / `domain` / `cliques` are `self.model.potentials` (as `_setup` leaves it) / `.total` / `.domain` /
   `.cliques`, `zeros` is `self.structural_zeros`.  `Q.shape[1]` is read as `self.domain.size(proj)` (the assertion of
   `fix_measurements`).  A solver returns `⟨model.potentials, model.marginals, returned value⟩`. -/
import PGM.Model.Loss
import PGM.Model.Solvers
set_option linter.unusedVariables false
namespace PGM.InfG
open PGM
variable {α : Type} [Scalar α]

'''


def method(cls, name, args, defaults=None):
    fn = next((f for f in cls.body if isinstance(f, ast.FunctionDef) and f.name == name), None) or fail(f'class FactoredInference', f'method {name} not found')
    a = fn.args
    if [x.arg for x in a.args] != args or a.vararg or a.kwarg or a.kwonlyargs or a.posonlyargs or fn.decorator_list:
        fail(fn, f'signature changed: {[x.arg for x in a.args]}')
    ds = dict(zip(args[len(args) - len(a.defaults):], a.defaults))
    for p, want in (defaults or {}).items():
        d = ds.get(p)
        if not (isinstance(d, ast.Constant) and d.value == want and type(d.value) is type(want)):
            fail(fn, f'the default of `{p}` is no longer {want!r}')
    return fn


SELF_ATTRS = {
    'self.domain': V('domain', 'dom'), 'model.domain': V('domain', 'dom'),
    'model.cliques': V('cliques', 'cliques'), 'model.total': V('total', 'scalar'),
    'self.iters': V('iters', 'nat'), 'self.structural_zeros': V('zeros', 'cv'),
    'model.belief_propagation': V('bp', 'oracle'), 'model.mle': V('mle', 'oracle'),
    'self._marginal_loss': V('lossgrad', 'objective'), 'self._lipschitz(measurements)': V('L', 'scalar'),
    '@eigs': V('topEigs', 'scalars'),
}
PARAM_ORDER = ['bp', 'lossgrad', 'mle', 'domain', 'cliques', 'zeros', 'measurements', 'marginals', 'topEigs', 'iters', 'potentials', 'L', 'total']
PARAM_TY = {'bp': 'oracle', 'lossgrad': 'objective', 'mle': 'oracle', 'domain': 'dom', 'cliques': 'cliques', 'zeros': 'cv',
            'measurements': 'measlist', 'marginals': 'cv', 'topEigs': 'scalars', 'iters': 'nat', 'potentials': 'cv', 'L': 'scalar', 'total': 'scalar'}


def emit(name, doc, params, ret, body):
    ps = ' '.join(f'({p} : {LEANTY[PARAM_TY[p]]})' for p in params)
    return f'/-- {doc} -/\ndef {name} {ps} : {ret} :=\n{ind(body)}\n'


def check_sources(cls, repo):
    """facts about other code the translation relies on"""
    fm = next((f for f in cls.body if isinstance(f, ast.FunctionDef) and f.name == 'fix_measurements'), None) or fail('class FactoredInference', 'fix_measurements not found')
    asserts = [ast.unparse(s.test) for s in ast.walk(fm) if isinstance(s, ast.Assert)]
    if 'Q.shape[1] == self.domain.size(proj)' not in asserts:
        fail(fm, 'fix_measurements no longer asserts `Q.shape[1] == self.domain.size(proj)` (the reading of `Q.shape[1]`)')
    setup = next((f for f in cls.body if isinstance(f, ast.FunctionDef) and f.name == '_setup'), None) or fail('class FactoredInference', '_setup not found')
    srcs = [ast.unparse(s) for s in setup.body]
    if not any(s.startswith('model = GraphicalModel(self.domain,') for s in srcs) or 'self.model = model' not in srcs:
        fail(setup, '_setup no longer builds `self.model = GraphicalModel(self.domain, ...)` (`model.domain` is read as `self.domain`)')
    fpath = os.path.join(repo, 'src', 'mbi', 'factor.py')
    ftree = ast.parse(open(fpath).read())
    fcls = next((n for n in ftree.body if isinstance(n, ast.ClassDef) and n.name == 'Factor'), None) or fail('factor.py', 'class Factor not found')
    pr = next((f for f in fcls.body if isinstance(f, ast.FunctionDef) and f.name == 'project'), None) or fail('factor.py', 'Factor.project not found')
    if [a.arg for a in pr.args.args] != ['self', 'attrs', 'agg'] or [ast.unparse(d) for d in pr.args.defaults] != ["'sum'"]:
        fail('factor.py', "Factor.project is no longer `project(self, attrs, agg='sum')`")


def translate(src, repo):
    tree = ast.parse(src)
    cls = next((n for n in tree.body if isinstance(n, ast.ClassDef) and n.name == 'FactoredInference'), None) or fail('inference.py', 'class FactoredInference not found')
    check_sources(cls, repo)
    out = []
    base_consts = {'self.backend': 'numpy', 'callback': None}

    def order(used, extra=()):
        return [p for p in PARAM_ORDER if p in used or p in extra]

    # ---- the grouping loop of _setup
    fn = method(cls, '_setup', ['self', 'measurements', 'total'])
    idx = next((i for i, s in enumerate(fn.body) if isinstance(s, ast.Assign) and ast.unparse(s.targets[0]) == 'self.groups'), None)
    if idx is None:
        fail(fn, '`self.groups = ...` not found in _setup')
    start = idx - 1 if idx > 0 and ast.unparse(fn.body[idx - 1]) == 'cliques = self.model.cliques' else idx
    if start == idx:
        fail(fn, 'the grouping loop must be preceded by `cliques = self.model.cliques`')
    tr = Tr(fn, base_consts, SELF_ATTRS)
    env = {'measurements': V('measurements', 'measlist'), 'model': V(None, 'model')}
    body = tr.block(fn.body[start:], env, {'self.groups'}, lambda e: e['self.groups'].t, Ctx(lambda v, e: fail(fn, 'return in the grouping part of _setup')))
    groups_params = order(tr.used, ['measurements'])
    out.append(emit('setupGroups', f'`self.groups` as the grouping loop of `_setup` leaves it (inference.py:{fn.body[start].lineno}-{fn.body[-1].end_lineno})',
                    order(tr.used, ['measurements']), LEANTY['groups'], body))

    # ---- _marginal_loss, both metrics
    fn = method(cls, '_marginal_loss', ['self', 'marginals', 'metric'], {'metric': None})
    for metric, lean in (('L2', 'marginalLossL2'), ('L1', 'marginalLossL1')):
        consts = dict(base_consts)
        consts.update({'metric': None, 'self.metric': metric})
        tr = Tr(fn, consts, SELF_ATTRS)
        env = {'marginals': V('marginals', 'cv'), 'self.groups': V('groups', 'groups')}

        def ret(v, e, tr=tr):
            if v is None:
                fail(fn, 'no return value')
            r = tr.expr(v, e)
            if r.ty != 'pair':
                fail(v, f'`_marginal_loss` returns {r.ty}')
            return r.t
        # `if metric is None: metric = self.metric` : the local `metric` becomes the constant of the variant
        stmts = list(fn.body)
        pre = [s for s in stmts if isinstance(s, ast.If) and ast.unparse(s.test) == 'metric is None']
        if len(pre) != 1 or [ast.unparse(x) for x in pre[0].body] != ['metric = self.metric'] or pre[0].orelse:
            fail(fn, 'expected `if metric is None: metric = self.metric`')
        stmts.remove(pre[0])
        tr.consts['metric'] = metric
        body = tr.block(stmts, env, set(), lambda e: fail(fn, 'no return value'), Ctx(ret))
        body = f'let groups := setupGroups {" ".join(groups_params)}\n' + body
        out.append(emit(lean, f"`_marginal_loss` (inference.py:{fn.lineno}) with metric '{metric}'; `self.groups` is `setupGroups`",
                        order(tr.used, groups_params + ['marginals']), LEANTY['pair'], body))

    # ---- _lipschitz
    fn = method(cls, '_lipschitz', ['self', 'measurements'])
    tr = Tr(fn, base_consts, SELF_ATTRS, zip_eigs=True)
    env = {'measurements': V('measurements', 'measlist')}

    def ret_l(v, e, tr=tr):
        r = tr.expr(v, e)
        if r.ty != 'scalar':
            fail(v, f'`_lipschitz` returns {r.ty}')
        return r.t
    body = tr.block(fn.body, env, set(), lambda e: fail(fn, 'no return value'), Ctx(ret_l))
    out.append(emit('lipschitz', f'`_lipschitz` (inference.py:{fn.lineno}); `topEigs` holds, per measurement, the largest eigenvalue of `Q.H * Q`',
                    order(tr.used, ['measurements', 'topEigs']), 'α', body))

    # ---- the solvers
    def solver(pyname, lean, args, defaults, consts, doc, scalars=None):
        fn = method(cls, pyname, args, defaults)
        c = dict(base_consts)
        c.update(consts)
        c['@solver'] = True
        tr = Tr(fn, c, SELF_ATTRS)
        env = {'model.potentials': V('potentials', 'cv'), 'model.marginals': V('none', 'cvopt'), 'measurements': V(None, 'opaque')}
        for p, q in (scalars or {}).items():      # numeric parameters the variant fixes: scalars from the start
            env[p] = V(enc_lit(Fraction(q), fn), 'scalar')

        def ret(v, e, tr=tr):
            if v is None:
                r = 'none'
            else:
                x = tr.expr(v, e)
                if x.ty != 'scalar':
                    fail(v, f'a solver returns {x.ty}')
                r = f'(some {x.t})'
            return f'Solvers.Result.mk {e["model.potentials"].t} {e["model.marginals"].t} {r}'
        body = tr.block(fn.body, env, {'model.potentials', 'model.marginals'}, lambda e: ret(None, e), Ctx(ret))
        out.append(emit(lean, doc + f' (inference.py:{fn.lineno})', order(tr.used, ['potentials']), LEANTY['result'], body))

    solver('mirror_descent', 'mirrorDescent', ['self', 'measurements', 'total', 'stepsize', 'callback'],
           {'total': None, 'stepsize': None, 'callback': None}, {'stepsize': None, 'self.metric': 'L2'},
           '`mirror_descent` with the Armijo line search (stepsize=None)')
    solver('dual_averaging', 'dualAveraging', ['self', 'measurements', 'total', 'lipschitz', 'callback'],
           {'total': None, 'lipschitz': None, 'callback': None}, {'lipschitz': None, 'self.metric': 'L2'},
           '`dual_averaging` (lipschitz=None)')
    solver('interior_gradient', 'interiorGradient', ['self', 'measurements', 'total', 'lipschitz', 'c', 'sigma', 'callback'],
           {'lipschitz': None, 'c': 1, 'sigma': 1, 'callback': None}, {'lipschitz': None, 'self.metric': 'L2'},
           '`interior_gradient` (lipschitz=None, c=1, sigma=1)', scalars={'c': 1, 'sigma': 1})
    return out


def main():
    ap = argparse.ArgumentParser()
    ap.add_argument('--repo', default='/repo')
    ap.add_argument('--out', required=True)
    a = ap.parse_args()
    try:
        src = open(os.path.join(a.repo, 'src', 'mbi', 'inference.py')).read()
        defs = translate(src, a.repo)
    except Untranslatable as e:
        print('py2inf: source outside the translatable subset:', e)
        return 1
    except (OSError, SyntaxError) as e:
        print('py2inf: source outside the translatable subset:', f'cannot read/parse the source: {e}')
        return 1
    os.makedirs(a.out, exist_ok=True)
    with open(os.path.join(a.out, 'InferenceG.lean'), 'w') as f:
        f.write(HEADER + PRELUDE + '\n' + '\n'.join(defs) + '\nend PGM.InfG\n')
    print(f'py2inf: {len(defs)} definitions')
    return 0


if __name__ == '__main__':
    sys.exit(main())
