#!/usr/bin/env python3
"""tools/py2fg.py --repo R --out DIR

Translates the NON-CONVEX path of `src/mbi/factor_graph.py` (class FactorGraph) — `__init__` (variant convex=False),
`init_messages`, `loopy_belief_propagation` (variant callback=None; the loop body over `range(self.iters)` is emitted as its
own definition `lbpSweep`), `clique_marginals` (self.convex = False) and `primal_feasibility` — STATEMENT BY STATEMENT into
Lean definitions over the factor model (`PGM/Generated/FactorGraphG.lean`, namespace `PGM.FGG`, `import
PGM.Model.FactorGraph`).  `PGM/Properties/C16G.lean` proves every generated definition equal to the hand model
`PGM/Model/FactorGraph.lean` (the definitions the C16 theorems about loopy propagation are about).

The translator is a typed statement translator.  Anything outside the subset below stops it (exit 1).

Types   dom | cliques (the list self.cliques) | clique (a tuple of attribute names; iterating it yields attrs) | attr | attrs |
        attrset (a tuple made from a set: NO specified order) | scalar | nat | bool | factor | pyval (a Python number OR a Factor:
        the value of `sum(...)`) | cvec (dict clique -> Factor) | mun (`mu_n[v][cl]`) / muf (`mu_f[cl][v]`): two-level
        dictionaries created by `defaultdict(dict)`, which are only ever read and written through BOTH keys and never iterated,
        represented as ONE association list keyed by the pair | msgs (the pair `(mu_n, mu_f)`) | pdict (dict attr -> pyval) |
        adict (dict attr -> Factor) | cn (dict with clique AND attribute keys -> scalar: keys `Sum.inl cl` / `Sum.inr a`, a tuple
        never equals a str) | flat (a flat vector) | none | method (a bound method of self, by name)

Statements
  x = E ; a, b = E (E a msgs pair)            -> let x := E / let (a, b) := E   (re-binding shadows, as in Python)
  self.f = E                                  -> let self_f := E; later reads of self.f in the same function read it; the stored
                                                 fields are returned together with the return value (in order of first store)
  x = {} / x = defaultdict(dict)              -> the empty association list (the type of x is declared per function;
                                                 `defaultdict` must be collections.defaultdict)
  d[k] = E ; d[k1][k2] = E                    -> CliqueVec.set / GM.dictSet d k E / GM.dictSet d (k1, k2) E: an existing key keeps
                                                 its position
  d[k1][k2] -= c                              -> d[k1][k2] = d[k1][k2].__sub__(c)  (factor.py must define no `__isub__`)
  f += c  (f a Factor created in this block by an operator / method, never aliased; c a scalar)
                                              -> Factor.iaddScalar f c   (Factor.__iadd__, scalar branch: in place, same shape)
  a += c (scalars) ; n += 1 (naturals)
  if <flag>: …                                -> decided by the variant being generated (`convex`, `self.convex` = False;
                                                 `callback is not None` = False).  The skipped `callback` branch must be an
                                                 OBSERVER: bindings of fresh names from translated pure methods and the
                                                 call `callback(<name>)` only — so the state evolves identically with a callback
  if c: BODY [else: BODY]                     -> let state := if c then (BODY; state) else (BODY; state)
  for t in XS: BODY                           -> XS.foldl (fun state t => BODY; state) state ; the state is the tuple of the names
                                                 bound before the loop and re-bound in BODY, in order of first binding; names first
                                                 bound inside the loop and the loop targets are dead after the loop.  XS: cliques,
                                                 a clique, a Domain (`Domain.__iter__` is checked to iterate `self.attrs`), a list
                                                 of cliques / attrs, the keys of a cvec
  for t in XS: if C: break; BODY              -> a fold with a flag: once C held, the remaining elements leave the state unchanged
  for i in range(n): BODY  (i not read)       -> BODY becomes the definition `lbpSweep` (parameters: what it reads, and the state)
                                                 and the loop `(List.range n).foldl (fun st _ => lbpSweep … st) st`
  try: return a / n  except: return 0         -> if n == 0 then 0 else a / n, where n is a natural counter and a is the Python int 0
                                                 until the first `a += …`, which stands in the same block as `n += 1`: int / 0
                                                 raises ZeroDivisionError, and float / positive int raises nothing
  return E
Expressions
  d[k] -> CliqueVec.get ; d[k1][k2] -> getN / getF (the model's default `Factor.zeros []` where Python raises KeyError)
  F + G, F - G (Factor.add / Factor.sub), F + S and S - F with S a pyval (`PyVal.addF`, `PyVal.subL`: Python's dispatch; factor.py
        must define no `__rsub__`), c - d (scalars), c - n (scalar minus natural), the float literal 1.0 (Scalar.one), int literals
  sum(E for x in XS [if C]) -> the left fold of Python's `+` FROM THE INT 0 (`0 + f` is `Factor.__radd__`, checked to delegate to
        `__add__`, i.e. `Factor.addScalar 0 f`): a pyval
  [x for x in XS if C] -> XS.filter ; len(XS) ; a in cl (tuple membership) ; z in D ; x == y ; x != y ; len(d) > 0
  x is not y -> x != y  (CONTRACT: both are elements drawn from the same tuple / list; identity coincides with equality unless the
        list holds two equal but distinct objects — never for interned attribute names)
  {k: E for k in D} -> D.attrs.foldl (fun d k => GM.dictSet d k E) []   (a repeated key keeps its first position)
  Factor.zeros(D) ; D.project(a) -> Dom.project D [a] for an attr (domain.py's `if type(attrs) is str: attrs = [attrs]` is checked),
        Dom.project D cl otherwise ; F.logsumexp(attrs) / F.logsumexp() / F.exp() ; np.log(c) ; CliqueVector(d) -> d (constructor
        checked) ; tuple(set(r) & set(s)) -> RG.dedup (JT.inter r s) : attrset (no specified order — the listing chosen is the hand
        model's; it is only used as `mu[r].project(d).datavector()` against `mu[s].project(d).datavector()` under an entrywise
        norm, which is invariant under a common permutation) ; F.project(d) (agg='sum' checked) ; F.datavector() (flatten=True
        checked) ; np.linalg.norm(x - y, 1) -> RG.norm1Diff x y ; self.m(args) for a translated method m
  (a, b) with a : mun, b : muf -> msgs ; (None, None, cn) ; None ; self.<method> (a bound method: its name)
Skipped (listed in the header of the output; a new or renamed method stops the translator): the convex=True path
(`convergent_belief_propagation`, `get_counting_numbers`), `datavector`, `project`, `mle`, `bethe_entropy`.
"""
import argparse, ast, os, sys


class Untranslatable(Exception):
    pass


def fail(node, why, file='factor_graph.py'):
    where = f'{file} line {getattr(node, "lineno", "?")}'
    text = (ast.unparse(node) if isinstance(node, ast.AST) else str(node)).split('\n')[0]
    raise Untranslatable(f'{where}: {why}: {text[:160]}')


CL = 'JT.Clique'
LEANTY = {'dom': 'Dom', 'cliques': f'List {CL}', 'clique': CL, 'attr': 'Attr', 'attrs': 'List Attr', 'attrset': 'List Attr',
          'scalar': 'α', 'nat': 'Nat', 'bool': 'Bool', 'factor': 'Factor α', 'pyval': 'PyVal α', 'cvec': 'CliqueVec α',
          'mun': 'MuN α', 'muf': 'MuF α', 'msgs': 'MuN α × MuF α', 'pdict': 'List (Attr × PyVal α)', 'adict': 'List (Attr × Factor α)',
          'cn': 'CN α', 'flat': 'List α', 'optcvec': 'Option (CliqueVec α)', 'method': 'String',
          'cn3': 'Option Unit × Option Unit × CN α'}
ELEM = {'cliques': 'clique', 'clique': 'attr', 'dom': 'attr', 'attrs': 'attr', 'cvec': 'clique'}
# one-level dictionaries: key type(s) and value type
KEYTY = {'cvec': ('clique',), 'cn': ('clique', 'attr'), 'pdict': ('attr',), 'adict': ('attr',)}
VALTY = {'cvec': 'factor', 'cn': 'scalar', 'pdict': 'pyval', 'adict': 'factor'}
TWO = {'mun': ('attr', 'clique', 'getN'), 'muf': ('clique', 'attr', 'getF')}


def norm(src):
    return [ast.unparse(x) for x in ast.parse(src).body]


def is_doc(st):
    return isinstance(st, ast.Expr) and isinstance(st.value, ast.Constant) and isinstance(st.value.value, str)


def ind(text, n):
    pad = ' ' * n
    return '\n'.join(pad + l if l else l for l in text.split('\n'))


def store_root(t):
    """the name (or self field) a store target binds"""
    if isinstance(t, ast.Name):
        return t.id
    if isinstance(t, ast.Attribute) and isinstance(t.value, ast.Name) and t.value.id == 'self':
        return 'self_' + t.attr
    if isinstance(t, ast.Subscript):
        return store_root(t.value)
    return None


def assigned_names(stmts):
    """names (re)bound by a block, in order of first binding (subscript stores and `+=` bind the container)"""
    out = []

    def add(x):
        if x is not None and x not in out:
            out.append(x)

    def tgt(t):
        if isinstance(t, (ast.Tuple, ast.List)):
            for e in t.elts:
                tgt(e)
        else:
            add(store_root(t))

    for st in stmts:
        for n in ast.walk(st):
            if isinstance(n, ast.Assign):
                for t in n.targets:
                    tgt(t)
            elif isinstance(n, ast.AugAssign):
                tgt(n.target)
            elif isinstance(n, ast.For):
                tgt(n.target)
    return out


class Tr:
    """translator of one block of statements"""

    def __init__(self, gen, spec, env):
        self.gen, self.spec = gen, spec
        self.env = dict(env)            # python name -> (lean term, type)
        self.fresh = set()              # names bound to a Factor object created in this block and not aliased
        self.dead = {}                  # name -> why it may not be read any more
        self.lets = []
        self.used = []                  # lean identifiers of the enclosing scope that were read (for lambda lifting)
        self.paired = set()             # (accumulator, counter) pairs updated in the same block
        self.src = {}                   # loop / comprehension variable -> source text of the iterable it is drawn from

    def sub(self):
        t = Tr(self.gen, self.spec, self.env)
        t.src = dict(getattr(self, 'src', {}))      # loop / comprehension variable -> source text of the iterable it is drawn from
        t.dead = dict(self.dead)
        t.fresh = set(self.fresh)
        t.used = self.used
        t.paired = self.paired
        return t

    # ---------------------------------------------------------------- expressions
    def typed(self, n, *tys):
        t, ty = self.expr(n)
        if ty not in tys:
            fail(n, f'expected {"/".join(tys)}, got {ty}')
        return t

    def const_of(self, n):
        """the value fixed by the variant for a flag expression, or None"""
        src = ast.unparse(n)
        if src in self.spec['consts']:
            return ('const', self.spec['consts'][src])
        return None

    def note(self, ident):
        if ident not in self.used:
            self.used.append(ident)

    def expr(self, n):
        c = self.const_of(n)
        if c is not None:
            if isinstance(n, ast.Attribute):
                self.gen.need_field(n.attr, n)
            if c[1] is None:
                return 'none', 'none'
            if c[1] is True or c[1] is False:
                return ('true' if c[1] else 'false'), 'bool'
        if isinstance(n, ast.Name):
            if n.id in self.dead:
                fail(n, f'read of a dead name ({self.dead[n.id]})')
            if n.id in self.env:
                t, ty = self.env[n.id]
                self.note(t)
                return t, ty
            fail(n, 'unknown name')
        if isinstance(n, ast.Constant):
            if n.value is None:
                return 'none', 'none'
            if type(n.value) is int:
                return str(n.value), 'nat'
            if type(n.value) is float and n.value == 1.0:
                return 'Scalar.one', 'scalar'
            fail(n, 'unsupported constant')
        if isinstance(n, ast.Tuple):
            parts = [self.expr(e) for e in n.elts]
            tys = [p[1] for p in parts]
            if tys == ['mun', 'muf']:
                return f'({parts[0][0]}, {parts[1][0]})', 'msgs'
            if tys == ['none', 'none', 'cn']:
                return f'((none : Option Unit), (none : Option Unit), {parts[2][0]})', 'cn3'
            fail(n, f'unsupported tuple of {tys}')
        if isinstance(n, ast.Attribute):
            return self.attribute(n)
        if isinstance(n, ast.Subscript):
            return self.subscript(n)
        if isinstance(n, ast.Compare) and len(n.ops) == 1:
            return self.compare(n)
        if isinstance(n, ast.BinOp):
            return self.binop(n)
        if isinstance(n, ast.Call):
            return self.call(n)
        if isinstance(n, ast.ListComp):
            return self.listcomp(n)
        if isinstance(n, ast.DictComp):
            return self.dictcomp(n)
        fail(n, 'unsupported expression')

    def attribute(self, n):
        if isinstance(n.value, ast.Name) and n.value.id == 'self':
            loc = 'self_' + n.attr
            if loc in self.env:                       # stored earlier in this very function
                if loc in self.dead:
                    fail(n, f'read of a dead field value ({self.dead[loc]})')
                t, ty = self.env[loc]
                self.note(t)
                return t, ty
            f = self.spec['fields'].get(n.attr)
            if f is not None:
                self.gen.need_field(n.attr, n)
                self.spec['used'].add(n.attr)
                self.note(f[0])
                return f
            if n.attr in self.gen.methods:
                return f'"{n.attr}"', 'method'
            fail(n, 'field of self that this definition does not declare')
        fail(n, 'unknown attribute')

    def subscript(self, n):
        base, tb = self.expr(n.value)
        if tb in TWO:
            k1 = self.typed(n.slice, TWO[tb][0])
            return (base, k1), tb + '1'               # a half-indexed two-level dictionary: only usable as `…[k2]`
        if tb in ('mun1', 'muf1'):
            two = TWO[tb[:-1]]
            k2 = self.typed(n.slice, two[1])
            return f'({two[2]} {base[0]} ({base[1]}, {k2}))', 'factor'
        if tb == 'cvec':
            return f'(CliqueVec.get {base} {self.typed(n.slice, "clique")})', 'factor'
        fail(n, f'unsupported subscript of {tb}')

    def compare(self, n):
        op, l, r = n.ops[0], n.left, n.comparators[0]
        if isinstance(op, ast.In):
            (k, tk), (d, td) = self.expr(l), self.expr(r)
            if td == 'clique' and tk == 'attr':
                return f'({d}.contains {k})', 'bool'
            if td == 'dom' and tk == 'attr':
                self.gen.need_domain('__contains__', 'return attr in self.attrs', n)
                return f'((Dom.attrs {d}).contains {k})', 'bool'
            fail(n, f'unsupported membership test ({tk} in {td})')
        if isinstance(op, (ast.IsNot, ast.NotEq, ast.Eq)):
            (a, ta), (b, tb) = self.expr(l), self.expr(r)
            if ta != tb or ta not in ('attr', 'clique'):
                fail(n, f'unsupported comparison of {ta} and {tb}')
            if isinstance(op, ast.IsNot):
                # the CONTRACT `x is not y` = `x != y` holds for two elements drawn from the SAME tuple / list only: equal attribute names
                # coming from different containers (the domain and a clique, say) need not be the same object
                src = getattr(self, 'src', {})
                if not (isinstance(l, ast.Name) and isinstance(r, ast.Name) and l.id in src and src.get(l.id) == src.get(r.id)):
                    fail(n, 'identity comparison of two values that are not drawn from the same container '
                            f'({ast.unparse(l)} from `{src.get(getattr(l, "id", None))}`, {ast.unparse(r)} from `{src.get(getattr(r, "id", None))}`)')
            return f'({a} {"==" if isinstance(op, ast.Eq) else "!="} {b})', 'bool'
        if isinstance(op, ast.Gt):
            a, b = self.typed(l, 'nat'), self.typed(r, 'nat')
            return f'(decide ({a} > {b}))', 'bool'
        fail(n, 'unsupported comparison')

    def binop(self, n):
        op = n.op
        if isinstance(op, ast.BitAnd):
            def setof(e):
                if isinstance(e, ast.Call) and isinstance(e.func, ast.Name) and e.func.id == 'set' and len(e.args) == 1 and not e.keywords:
                    return self.typed(e.args[0], 'clique')
                fail(n, 'unsupported set intersection')
            return f'(JT.inter {setof(n.left)} {setof(n.right)})', 'setval'
        (a, ta), (b, tb) = self.expr(n.left), self.expr(n.right)
        ta, tb = ('factor' if t == 'newfactor' else t for t in (ta, tb))
        if ta == tb == 'factor':
            if isinstance(op, ast.Add):
                self.gen.need_factor_method('__add__', n)
                return f'(Factor.add {a} {b})', 'newfactor'
            if isinstance(op, ast.Sub):
                self.gen.need_factor_method('__sub__', n)
                return f'(Factor.sub {a} {b})', 'newfactor'
        if ta == 'factor' and tb == 'pyval' and isinstance(op, ast.Add):
            self.gen.need_factor_method('__add__', n)
            return f'(PyVal.addF {a} {b})', 'newfactor'
        if ta == 'pyval' and tb == 'factor' and isinstance(op, ast.Sub):
            self.gen.need_factor_method('__sub__', n)
            self.gen.need_absent('__rsub__', n)
            return f'(PyVal.subL {a} {b})', 'newfactor'
        if ta == tb == 'scalar' and isinstance(op, ast.Sub):
            return f'(Scalar.sub {a} {b})', 'scalar'
        if ta == 'scalar' and tb == 'nat' and isinstance(op, ast.Sub):
            return f'(Scalar.sub {a} (Scalar.ofNat {b}))', 'scalar'
        if ta == tb == 'flat' and isinstance(op, ast.Sub):
            return (a, b), 'flatdiff'
        fail(n, f'unsupported operator on {ta} and {tb}')

    def generator(self, node, g_list, body_fn):
        """`… for x in XS [if C]` -> (list term after the filter, variable, inner translator)"""
        if len(g_list) != 1 or not isinstance(g_list[0].target, ast.Name) or g_list[0].is_async or len(g_list[0].ifs) > 1:
            fail(node, 'unsupported generator')
        g = g_list[0]
        xs, tx = self.expr(g.iter)
        if tx not in ELEM:
            fail(node, f'generator over {tx}')
        if tx == 'dom':
            self.gen.need_domain('__iter__', 'return self.attrs.__iter__()', node)
            xs = f'(Dom.attrs {xs})'
        if tx == 'cvec':
            xs = f'({xs}.map Prod.fst)'
        v = g.target.id
        inner = self.sub()
        inner.env[v] = (v, ELEM[tx])
        inner.src[v] = ast.unparse(g.iter)
        inner.dead.pop(v, None)
        if g.ifs:
            c = inner.typed(g.ifs[0], 'bool')
            xs = f'({xs}.filter (fun {v} => {c}))'
        return xs, v, inner, ELEM[tx], tx

    def listcomp(self, n):
        xs, v, inner, et, tx = self.generator(n, n.generators, None)
        if not (isinstance(n.elt, ast.Name) and n.elt.id == v):
            fail(n, 'only [x for x in XS if C] is supported')
        return xs, {'clique': 'cliques', 'attr': 'attrs'}[et]

    def dictcomp(self, n):
        xs, v, inner, et, tx = self.generator(n, n.generators, None)
        if g_ifs := n.generators[0].ifs:
            fail(n, 'filtered dict comprehension')
        if not (isinstance(n.key, ast.Name) and n.key.id == v and et == 'attr'):
            fail(n, 'only {k: E for k in <attributes>} with the key itself is supported')
        et_, ety = inner.expr(n.value)
        if ety == 'newfactor':
            ety = 'factor'
        dty = {'pyval': 'pdict', 'factor': 'adict'}.get(ety) or fail(n, f'unsupported value type {ety}')
        return f'({xs}.foldl (fun (d : {LEANTY[dty]}) {v} => GM.dictSet d {v} {et_}) [])', dty

    def call(self, n):
        f, args, kws = n.func, n.args, {k.arg: k.value for k in n.keywords}
        if isinstance(f, ast.Name):
            if f.id == 'sum' and len(args) == 1 and not kws and isinstance(args[0], ast.GeneratorExp):
                xs, v, inner, et, tx = self.generator(n, args[0].generators, None)
                e = inner.typed(args[0].elt, 'factor')
                self.gen.need_radd(n)
                return f'(({xs}.map (fun {v} => {e})).foldl (fun x y => PyVal.add x (PyVal.fac y)) (PyVal.num Scalar.zero))', 'pyval'
            if f.id == 'len' and len(args) == 1 and not kws:
                t, ty = self.expr(args[0])
                if ty in ('cliques', 'attrs', 'attrset', 'clique'):
                    return f'(List.length {t})', 'nat'
                fail(n, f'len of {ty}')
            if f.id == 'tuple' and len(args) == 1 and not kws:
                t, ty = self.expr(args[0])
                if ty == 'setval':
                    return f'(RG.dedup {t})', 'attrset'
                fail(n, f'tuple of {ty}')
            if f.id == 'CliqueVector' and len(args) == 1 and not kws:
                self.gen.need_cv_ctor(n)
                return self.typed(args[0], 'cvec'), 'cvec'
            fail(n, 'unsupported function')
        if isinstance(f, ast.Attribute) and ast.unparse(f) == 'np.log' and len(args) == 1 and not kws:
            self.gen.need_import('import numpy as np', n)
            return f'(Scalar.log {self.typed(args[0], "scalar")})', 'scalar'
        if isinstance(f, ast.Attribute) and ast.unparse(f) == 'np.linalg.norm' and len(args) == 2 and not kws:
            self.gen.need_import('import numpy as np', n)
            if not (isinstance(args[1], ast.Constant) and args[1].value == 1 and type(args[1].value) is int):
                fail(n, 'only the 1-norm is supported')
            t, ty = self.expr(args[0])
            if ty != 'flatdiff':
                fail(n, 'norm of something that is not a difference of two flat vectors')
            return f'(RG.norm1Diff {t[0]} {t[1]})', 'scalar'
        if isinstance(f, ast.Attribute) and ast.unparse(f) == 'Factor.zeros' and len(args) == 1 and not kws:
            self.gen.need_import('from mbi import Domain, Factor, CliqueVector', n)
            self.gen.need_factor_method('zeros', n)
            return f'(Factor.zeros {self.typed(args[0], "dom")})', 'newfactor'
        if isinstance(f, ast.Attribute) and isinstance(f.value, ast.Name) and f.value.id == 'self':
            return self.self_call(n, f.attr, args, kws)
        if isinstance(f, ast.Attribute):
            m = f.attr
            base, tb = self.expr(f.value)
            if tb == 'newfactor':
                tb = 'factor'
            if tb == 'dom' and m == 'project' and len(args) == 1 and not kws:
                t, ty = self.expr(args[0])
                if ty == 'attr':
                    self.gen.need_domain_project_str(n)
                    return f'(Dom.project {base} [{t}])', 'dom'
                if ty in ('clique', 'attrs'):
                    return f'(Dom.project {base} {t})', 'dom'
                fail(n, f'Domain.project of {ty}')
            if tb == 'factor':
                if m == 'logsumexp' and not kws:
                    self.gen.need_factor_method(m, n)
                    if not args:
                        return f'(Factor.logsumexpAll {base})', 'scalar'
                    if len(args) == 1:
                        return f'(Factor.logsumexp {base} {self.typed(args[0], "attrs")})', 'newfactor'
                if m == 'exp' and not args and not kws:
                    self.gen.need_factor_method(m, n)
                    return f'(Factor.exp {base})', 'newfactor'
                if m == 'project' and len(args) == 1 and not kws:
                    self.gen.need_default('project', 'agg', 'sum', n)
                    return f'(Factor.projectSum {base} {self.typed(args[0], "attrset", "attrs")})', 'newfactor'
                if m == 'datavector' and not args and not kws:
                    self.gen.need_default('datavector', 'flatten', True, n)
                    return f'(Factor.datavector {base})', 'flat'
            fail(n, f'unsupported method `{m}` of {tb}')
        fail(n, 'unsupported call')

    def self_call(self, n, m, args, kws):
        spec = next((s for s in self.gen.done if s['py'] == m), None)
        if spec is None:
            fail(n, f'call of self.{m}, which is not (yet) translated')
        if kws or len(args) != len(spec['args']):
            fail(n, f'self.{m}: wrong number of arguments')
        ts = []
        for fld, fty in spec['fieldlist']:
            t, ty = self.attribute(ast.copy_location(ast.Attribute(value=ast.Name(id='self', ctx=ast.Load()), attr=fld, ctx=ast.Load()), n))
            if ty != fty:
                fail(n, f'self.{fld} is {ty} here, {m} expects {fty}')
            ts.append(t)
        for a, (p, pty) in zip(args, spec['args']):
            ts.append(self.typed(a, pty))
        return f'({spec["lean"]} ' + ' '.join(ts) + ')', spec['ret']

    # ---------------------------------------------------------------- statements
    def bind(self, name, term, ty, st, annotate=False):
        if ty == 'newfactor':
            ty = 'factor'
            self.fresh.add(name)
        else:
            self.fresh.discard(name)
        if ty == 'none' and name.startswith('self_'):
            ty, term = 'optcvec', '(none : Option (CliqueVec α))'
        if ty not in LEANTY:
            fail(st, f'cannot bind a value of type {ty}')
        ann = f' : {LEANTY[ty]}' if annotate else ''
        self.lets.append(f'let {name}{ann} := {term}')
        self.env[name] = (name, ty)
        self.dead.pop(name, None)

    def run(self, stmts):
        """-> (term, type) of the returned value, or None when the block falls through"""
        for st in stmts:
            if is_doc(st):
                continue
            if isinstance(st, ast.Assign) and len(st.targets) == 1:
                self.assign(st.targets[0], st.value, st)
                continue
            if isinstance(st, ast.AugAssign):
                self.augassign(st, stmts)
                continue
            if isinstance(st, ast.If):
                r = self.if_(st)
                if r is not None:
                    return r
                continue
            if isinstance(st, ast.For):
                self.for_(st)
                continue
            if isinstance(st, ast.Try):
                return self.try_(st)
            if isinstance(st, ast.Return) and st.value is not None:
                return self.expr(st.value)
            fail(st, 'unsupported statement')
        return None

    def assign(self, tg, v, st):
        root = store_root(tg)
        if isinstance(tg, (ast.Name, ast.Attribute)):
            if root is None:
                fail(st, 'unsupported assignment target')
            x = root
            if isinstance(tg, ast.Attribute):
                if x not in self.spec['stores']:
                    self.spec['stores'].append(x)
            if isinstance(v, ast.Dict) and not v.keys or (isinstance(v, ast.Call) and ast.unparse(v) == 'defaultdict(dict)'):
                ty = self.spec['locals'].get(x) or fail(st, f'no declared type for the empty dictionary `{x}`')
                if isinstance(v, ast.Call):
                    self.gen.need_import('from collections import defaultdict', st)
                    if ty not in TWO:
                        fail(st, f'`{x}` is declared {ty}, not a two-level dictionary')
                elif ty not in KEYTY:
                    fail(st, f'`{x}` is declared {ty}, not a dictionary')
                self.bind(x, '[]', ty, st, annotate=True)
                return
            if isinstance(v, ast.Name) and self.env.get(v.id, (None, None))[1] == 'factor':
                fail(st, 'a second name for a Factor object (aliasing is not modelled)')
            t, ty = self.expr(v)
            if ty in ('mun1', 'muf1', 'setval', 'flatdiff'):
                fail(st, f'cannot bind a value of type {ty}')
            self.bind(x, t, ty, st)
            return
        if isinstance(tg, ast.Tuple) and all(isinstance(e, ast.Name) for e in tg.elts) and len(tg.elts) == 2:
            t = self.typed(v, 'msgs')
            a, b = (e.id for e in tg.elts)
            self.lets.append(f'let ({a}, {b}) := {t}')
            self.env[a], self.env[b] = (a, 'mun'), (b, 'muf')
            self.dead.pop(a, None), self.dead.pop(b, None)
            return
        if isinstance(tg, ast.Subscript):
            self.store(tg, lambda cur: self.expr(v), st)
            return
        fail(st, 'unsupported assignment')

    def store(self, tg, value_fn, st):
        """d[k] = E / d[k1][k2] = E ; value_fn(cur) -> (term, type), cur = the term reading the old entry"""
        if isinstance(tg.value, ast.Name):
            d = tg.value.id
            base, tb = self.expr(tg.value)
            if tb in KEYTY:
                k, tk = self.expr(tg.slice)
                if tk not in KEYTY[tb]:
                    fail(st, f'key of type {tk} in a {tb}')
                if tb == 'cn':
                    k = f'(Sum.inl {k})' if tk == 'clique' else f'(Sum.inr {k})'
                t, ty = value_fn(None)
                ty = 'factor' if ty == 'newfactor' else ty
                if ty != VALTY[tb]:
                    fail(st, f'stores a {ty} in a {tb}')
                setter = 'CliqueVec.set' if tb == 'cvec' else 'GM.dictSet'
                self.bind(d, f'({setter} {base} {k} {t})', tb, st)
                return
        if isinstance(tg.value, ast.Subscript) and isinstance(tg.value.value, ast.Name):
            d = tg.value.value.id
            base, tb = self.expr(tg.value.value)
            if tb in TWO:
                k1, k2 = self.typed(tg.value.slice, TWO[tb][0]), self.typed(tg.slice, TWO[tb][1])
                t, ty = value_fn(f'({TWO[tb][2]} {base} ({k1}, {k2}))')
                if ty not in ('factor', 'newfactor'):
                    fail(st, f'stores a {ty} in a {tb}')
                self.bind(d, f'(GM.dictSet {base} ({k1}, {k2}) {t})', tb, st)
                return
        fail(st, 'unsupported store')

    def augassign(self, st, block):
        tg, op = st.target, st.op
        if isinstance(tg, ast.Subscript) and isinstance(op, ast.Sub):
            def val(cur):
                if cur is None:
                    fail(st, '-= on this dictionary is not supported')
                c = self.typed(st.value, 'scalar')          # evaluated before the store
                self.gen.need_absent('__isub__', st)
                self.gen.need_factor_method('__sub__', st)
                return f'(Factor.subScalar {cur} {c})', 'newfactor'
            self.store(tg, val, st)
            return
        if isinstance(tg, ast.Name) and isinstance(op, ast.Add):
            x = tg.id
            cur, ty = self.expr(tg)
            if ty == 'factor':
                c = self.typed(st.value, 'scalar')
                if x not in self.fresh:
                    fail(st, f'in-place update of `{x}`, which may be an object shared with a dictionary or an argument')
                self.gen.need_iadd_scalar(st)
                self.lets.append(f'let {x} := (Factor.iaddScalar {cur} {c})')
                return
            if ty == 'scalar':
                c = self.typed(st.value, 'scalar')
                self.lets.append(f'let {x} := (Scalar.add {cur} {c})')
                for other in block:
                    if isinstance(other, ast.AugAssign) and isinstance(other.target, ast.Name) and other is not st \
                            and self.env.get(other.target.id, (None, None))[1] == 'nat':
                        self.paired.add((x, other.target.id))
                return
            if ty == 'nat':
                if not (isinstance(st.value, ast.Constant) and st.value.value == 1 and type(st.value.value) is int):
                    fail(st, 'a counter may only be incremented by 1')
                self.lets.append(f'let {x} := ({cur} + 1)')
                return
        fail(st, 'unsupported augmented assignment')

    def observer(self, st):
        """the skipped `if callback is not None:` branch may only observe"""
        seen = set()
        for b in st.body:
            if isinstance(b, ast.Assign) and len(b.targets) == 1 and isinstance(b.targets[0], ast.Name) and b.targets[0].id not in self.env \
                    and isinstance(b.value, ast.Call) and isinstance(b.value.func, ast.Attribute) and isinstance(b.value.func.value, ast.Name) \
                    and b.value.func.value.id == 'self':
                probe = self.sub()
                probe.lets, probe.used = [], []
                probe.expr(b.value)                  # must be a call of a translated (pure) method on translatable arguments
                seen.add(b.targets[0].id)
                continue
            if isinstance(b, ast.Expr) and isinstance(b.value, ast.Call) and isinstance(b.value.func, ast.Name) and b.value.func.id == 'callback' \
                    and len(b.value.args) == 1 and not b.value.keywords and isinstance(b.value.args[0], ast.Name) and b.value.args[0].id in seen:
                continue
            fail(b, 'the callback branch may only bind fresh names from translated methods and call callback(<name>)')
        if st.orelse:
            fail(st, 'else branch of the callback test')

    def if_(self, st):
        c = self.const_of(st.test)
        if c is not None and isinstance(c[1], bool):
            if isinstance(st.test, ast.Attribute):
                self.gen.need_field(st.test.attr, st.test)
            if ast.unparse(st.test) == 'callback is not None':
                self.observer(st)
            blk = st.body if c[1] else st.orelse
            return self.run(blk) if blk else None
        cond = self.typed(st.test, 'bool')
        bound = []
        for x in assigned_names(st.body) + assigned_names(st.orelse):
            if x not in bound:
                bound.append(x)
        state = [x for x in self.env if x in bound]
        if not state:
            fail(st, 'a conditional that updates nothing')
        tup = state[0] if len(state) == 1 else '(' + ', '.join(state) + ')'
        outs = []
        for blk in (st.body, st.orelse):
            inner = self.sub()
            inner.lets = []
            if inner.run(blk) is not None:
                fail(st, 'return inside a conditional')
            for x in state:
                if inner.env[x][1] != self.env[x][1]:
                    fail(st, f'`{x}` changes its type inside the conditional')
            outs.append('\n'.join([ind(l, 4) for l in inner.lets] + [f'    {tup}']))
        self.lets.append(f'let {tup} := if {cond} then (\n{outs[0]})\n  else (\n{outs[1]})')
        for x in bound:
            if x not in state:
                self.dead[x] = 'bound inside a conditional: its value afterwards is not modelled'
                self.env.pop(x, None)
        for x in state:
            self.fresh.discard(x)

    def try_(self, st):
        ok = len(st.body) == 1 and isinstance(st.body[0], ast.Return) and isinstance(st.body[0].value, ast.BinOp) \
            and isinstance(st.body[0].value.op, ast.Div) and len(st.handlers) == 1 and st.handlers[0].type is None \
            and len(st.handlers[0].body) == 1 and isinstance(st.handlers[0].body[0], ast.Return) and not st.orelse and not st.finalbody
        if not ok:
            fail(st, 'only `try: return a / n` / `except: return c` is supported')
        num, den = st.body[0].value.left, st.body[0].value.right
        if not (isinstance(num, ast.Name) and isinstance(den, ast.Name)):
            fail(st, 'the quotient must be of two names')
        a, n = self.typed(num, 'scalar'), self.typed(den, 'nat')
        if self.spec['intzero'].get(num.id) is not True or self.spec['intzero'].get(den.id) is not True:
            fail(st, f'`{num.id}` / `{den.id}` do not start from the int 0')
        if (num.id, den.id) not in self.paired:
            fail(st, f'`{num.id} += …` and `{den.id} += 1` do not stand in the same block (the exception is read as `{den.id} == 0`)')
        h = st.handlers[0].body[0].value
        if not (isinstance(h, ast.Constant) and type(h.value) is int and h.value == 0):
            fail(st, 'the handler must return the int 0')
        return f'(if {n} == 0 then Scalar.zero else Scalar.div {a} (Scalar.ofNat {n}))', 'scalar'

    def for_(self, st):
        if st.orelse:
            fail(st, 'for … else')
        if not isinstance(st.target, ast.Name):
            fail(st, 'unsupported loop target')
        var = st.target.id
        # ---- for i in range(n): the body becomes its own definition
        it = st.iter
        if isinstance(it, ast.Call) and isinstance(it.func, ast.Name) and it.func.id == 'range':
            if len(it.args) != 1 or it.keywords:
                fail(st, 'only range(n) is supported')
            n = self.typed(it.args[0], 'nat')
            name = self.spec.get('lift') or fail(st, 'no name declared for the body of a range loop')
            if any(isinstance(x, ast.Name) and x.id == var for b in st.body for x in ast.walk(b)):
                fail(st, f'the body reads the loop index `{var}`')
            bound = assigned_names(st.body)
            state = [x for x in self.env if x in bound]
            if [self.env[x][1] for x in state] != ['mun', 'muf']:
                fail(st, f'the sweep must carry exactly the two message dictionaries, not {state}')
            inner = self.sub()
            inner.lets, inner.used = [], []
            if inner.run(st.body) is not None:
                fail(st, 'return inside a loop')
            for x in state:
                if inner.env[x][1] != self.env[x][1]:
                    fail(st, f'`{x}` changes its type inside the loop')
            order = [p for p, _ in self.spec['fieldlist']] + [p for p, _ in self.spec['args']] + list(self.env)
            params = []
            for p in order:
                if p in inner.used and p not in state and p not in params and (p in dict(self.spec['fieldlist']) or p in self.env):
                    params.append(p)
            tys = dict(self.spec['fieldlist'])
            ptext = ' '.join(f'({p} : {LEANTY[tys[p] if p in tys else self.env[p][1]]})' for p in params)
            tup = '(' + ', '.join(state) + ')'
            body = '\n  '.join([f'let {tup} := st'] + [l.replace('\n', '\n  ') for l in inner.lets] + [tup])
            self.gen.out.append(f'/-- the body of `for {var} in range({ast.unparse(it.args[0])})` of `FactorGraph.{self.spec["py"]}` '
                                f'(factor_graph.py:{st.lineno}): one sweep -/\n'
                                f'def {name} {ptext} (st : {LEANTY["msgs"]}) : {LEANTY["msgs"]} :=\n  {body}\n')
            self.lets.append(f'let {tup} := (List.range {n}).foldl (fun (st : {LEANTY["msgs"]}) ({var} : Nat) => {name} {" ".join(params)} st) {tup}')
            for p in params:
                self.note(p)
            self.after_loop(bound, state, [var])
            return
        xs, tx = self.expr(it)
        if tx not in ELEM:
            fail(st, f'loop over {tx}')
        if tx == 'dom':
            self.gen.need_domain('__iter__', 'return self.attrs.__iter__()', st)
            xs = f'(Dom.attrs {xs})'
        if tx == 'cvec':
            xs = f'({xs}.map Prod.fst)'
        et = ELEM[tx]
        body = [b for b in st.body if not is_doc(b)]
        # ---- `if C: break` as the first statement
        brk = None
        if body and isinstance(body[0], ast.If) and len(body[0].body) == 1 and isinstance(body[0].body[0], ast.Break) and not body[0].orelse:
            brk, body = body[0].test, body[1:]
        def loose(nodes):
            for b in nodes:
                if isinstance(b, (ast.Break, ast.Continue)):
                    return True
                if isinstance(b, (ast.For, ast.While)):
                    continue                      # a nested loop owns its own break (checked when it is translated)
                if loose(list(ast.iter_child_nodes(b))):
                    return True
            return False
        if loose(body):
            fail(st, 'break / continue other than a leading `if C: break`')
        inner = self.sub()
        inner.lets = []
        inner.env[var] = (var, et)
        inner.src[var] = ast.unparse(it)
        inner.dead.pop(var, None)
        bound = assigned_names(body)
        state = [x for x in self.env if x in bound and x != var]
        if not state:
            fail(st, 'a loop that updates nothing')
        tys = [LEANTY[self.env[x][1]] for x in state]
        bcond = inner.typed(brk, 'bool') if brk is not None else None
        if inner.run(body) is not None:
            fail(st, 'return inside a loop')
        for x in state:
            if inner.env[x][1] != self.env[x][1]:
                fail(st, f'`{x}` changes its type inside the loop')
            if x in inner.dead:
                fail(st, f'`{x}` is dead at the end of the loop body')
        tup = state[0] if len(state) == 1 else '(' + ', '.join(state) + ')'
        sty = tys[0] if len(state) == 1 else ' × '.join(tys)
        if brk is None:
            svar = state[0] if len(state) == 1 else 'st'
            lines = [f'{xs}.foldl (fun ({svar} : {sty}) ({var} : {LEANTY[et]}) =>']
            if len(state) > 1:
                lines.append(f'  let {tup} := st')
            lines += [ind(l, 2) for l in inner.lets]
            lines.append(f'  {tup}) {tup}')
            self.lets.append(f'let {tup} := ' + '\n  '.join(lines))
        else:
            lines = [f'{xs}.foldl (fun (stb : ({sty}) × Bool) ({var} : {LEANTY[et]}) =>',
                     f'  let ({tup}, broke) := stb',
                     f'  if broke then ({tup}, true) else',
                     f'  if {bcond} then ({tup}, true) else']
            lines += [ind(l, 2) for l in inner.lets]
            lines.append(f'  ({tup}, false)) ({tup}, false)')
            self.lets.append(f'let ({tup}, broke) := ' + '\n  '.join(lines))
        self.after_loop(bound, state, [var])

    def after_loop(self, bound, state, targets):
        for x in bound + targets:
            if x not in state:
                self.dead[x] = 'bound inside a loop (or a loop target): its value after the loop is not modelled'
                self.env.pop(x, None)
        for x in state:
            self.fresh.discard(x)


# ---------------------------------------------------------------------------- the definitions to generate
SPECS = [
    dict(py='init_messages', lean='initMessages', fieldlist=[('domain', 'dom'), ('cliques', 'cliques')], args=[], consts={},
         locals={'mu_n': 'mun', 'mu_f': 'muf'}, ret='msgs', pyargs=(['self'], {}), doc=''),
    dict(py='clique_marginals', lean='cliqueMarginals', fieldlist=[('cliques', 'cliques'), ('total', 'scalar')],
         args=[('mu_n', 'mun'), ('mu_f', 'muf'), ('potentials', 'cvec')], consts={'self.convex': False}, locals={'marginals': 'cvec'}, ret='cvec',
         pyargs=(['self', 'mu_n', 'mu_f', 'potentials'], {}), doc='self.convex = False'),
    dict(py='loopy_belief_propagation', lean='loopyBeliefPropagation', lift='lbpSweep',
         fieldlist=[('domain', 'dom'), ('cliques', 'cliques'), ('total', 'scalar'), ('iters', 'nat'), ('messages', 'msgs')],
         args=[('potentials', 'cvec')], consts={'callback': None, 'callback is not None': False, 'self.convex': False}, locals={}, ret='cvec',
         pyargs=(['self', 'potentials', 'callback'], {'callback': None}),
         doc='variant callback=None (the callback branch is checked to be an observer).  Returns the return value together with the '
             'fields it stores: (return value, self.potentials, self.beliefs, self.messages, self.marginals)'),
    dict(py='primal_feasibility', lean='primalFeasibility', fieldlist=[], args=[('mu', 'cvec')], consts={}, locals={}, ret='scalar',
         intzero={'ans': True, 'count': True}, pyargs=(['self', 'mu'], {}), doc=''),
    dict(py='__init__', lean='init', fieldlist=[], args=[('domain', 'dom'), ('cliques', 'cliques'), ('total', 'scalar'), ('iters', 'nat')],
         consts={'convex': False}, locals={'counting_numbers': 'cn'}, ret=None,
         pyargs=(['self', 'domain', 'cliques', 'total', 'convex', 'iters'], {'total': 1.0, 'convex': False, 'iters': 25}),
         doc='variant convex=False.  Returns the fields it stores: (domain, cliques, total, convex, iters, counting_numbers, '
             'belief_propagation, potentials, marginals, messages, beliefs)'),
]
SKIPPED = ['datavector', 'project', 'convergent_belief_propagation', 'mle', 'bethe_entropy', 'get_counting_numbers']
# self.<field> = … in __init__: what the translated methods take as an input of the same name
INIT_FIELDS = {'domain': 'self.domain = domain', 'cliques': 'self.cliques = cliques', 'total': 'self.total = total', 'convex': 'self.convex = convex',
               'iters': 'self.iters = iters', 'messages': 'self.messages = self.init_messages()'}


class Generator:
    def __init__(self, srcs):
        self.srcs = srcs
        tree = ast.parse(srcs['factor_graph.py'])
        self.cls = next((n for n in tree.body if isinstance(n, ast.ClassDef) and n.name == 'FactorGraph'), None) \
            or fail('module', 'class FactorGraph not found')
        if self.cls.bases or self.cls.decorator_list or self.cls.keywords:
            fail(self.cls, 'FactorGraph has base classes / decorators')
        self.methods = {}
        for n in self.cls.body:
            if isinstance(n, ast.FunctionDef):
                if n.name in self.methods:
                    fail(n, 'a method defined twice')
                self.methods[n.name] = n
            elif not is_doc(n):
                fail(n, 'class-level statement other than a method')
        self.imports = [ast.unparse(n) for n in tree.body if isinstance(n, (ast.Import, ast.ImportFrom))]
        for n in tree.body:
            if not isinstance(n, (ast.Import, ast.ImportFrom, ast.ClassDef)) and not is_doc(n):
                fail(n, 'module-level statement other than imports and the class')
            if isinstance(n, ast.ClassDef) and n is not self.cls:
                fail(n, 'a second class')
        known = set(SKIPPED) | {s['py'] for s in SPECS}
        for name, fn in self.methods.items():
            if name not in known:
                fail(fn, 'a method this translator neither translates nor lists as skipped')
        for name in known:
            if name not in self.methods:
                fail(self.cls, f'method `{name}` not found')
        # every store to a field the translated methods read, outside the translated methods, would invalidate the reading
        translated = {s['py'] for s in SPECS}
        self.out, self.done, self._cache = [], [], {}

    # ---- facts about the other modules the translation relies on: each is re-read from the source
    def _cls(self, file, cname):
        key = (file, cname)
        if key not in self._cache:
            src = self.srcs.get(file)
            if src is None:
                fail(cname, 'source file missing', file)
            c = next((n for n in ast.parse(src).body if isinstance(n, ast.ClassDef) and n.name == cname), None) or fail(cname, 'class not found', file)
            self._cache[key] = {f.name: f for f in c.body if isinstance(f, ast.FunctionDef)}
        return self._cache[key]

    def _body(self, file, cname, meth, node):
        fn = self._cls(file, cname).get(meth) or fail(node, f'{cname}.{meth} not found', file)
        return fn, [ast.unparse(s) for s in fn.body if not is_doc(s)]

    def need_import(self, text, node):
        if text not in self.imports:
            fail(node, f'the module no longer says `{text}`')

    def need_field(self, field, node):
        init = self.methods['__init__']
        want = INIT_FIELDS.get(field) or fail(node, f'no known initialisation of self.{field}')
        if want not in [ast.unparse(s) for s in init.body]:
            fail(node, f'__init__ no longer says `{want}`')
        # the field is stored nowhere else, except `self.messages` by the translated loopy_belief_propagation (and the skipped convex path)
        for name, fn in self.methods.items():
            if name == '__init__' or name in SKIPPED:
                continue
            for n in ast.walk(fn):
                if isinstance(n, (ast.Assign, ast.AugAssign)):
                    for t in (n.targets if isinstance(n, ast.Assign) else [n.target]):
                        for e in (t.elts if isinstance(t, ast.Tuple) else [t]):
                            if store_root(e) == 'self_' + field and not (field == 'messages' and name == 'loopy_belief_propagation'):
                                fail(n, f'self.{field} is stored outside __init__')

    def need_domain(self, meth, body_src, node):
        fn, body = self._body('domain.py', 'Domain', meth, node)
        if body != norm(body_src):
            fail(fn, f'Domain.{meth} is not `{body_src}`', 'domain.py')

    def need_domain_project_str(self, node):
        fn, body = self._body('domain.py', 'Domain', 'project', node)
        if body != norm('if type(attrs) is str:\n    attrs = [attrs]\nshape = tuple(self.config[a] for a in attrs)\nreturn Domain(attrs, shape)'):
            fail(fn, 'Domain.project no longer wraps a single attribute name into a list', 'domain.py')

    def need_radd(self, node):
        fn, body = self._body('factor.py', 'Factor', '__radd__', node)
        if body != norm('return self.__add__(other)'):
            fail(fn, 'Factor.__radd__ no longer delegates to __add__', 'factor.py')

    def need_absent(self, meth, node):
        if meth in self._cls('factor.py', 'Factor'):
            fail(node, f'factor.py now defines Factor.{meth}: the meaning of this operator changed', 'factor.py')

    def need_iadd_scalar(self, node):
        fn, body = self._body('factor.py', 'Factor', '__iadd__', node)
        if body[:1] != norm('if np.isscalar(other):\n    self.values += other\n    return self'):
            fail(fn, 'Factor.__iadd__: the scalar branch is not `self.values += other; return self`', 'factor.py')

    def need_factor_method(self, m, node):
        self._body('factor.py', 'Factor', m, node)

    def need_default(self, meth, param, value, node):
        fn, _ = self._body('factor.py', 'Factor', meth, node)
        names = [a.arg for a in fn.args.args]
        ds = dict(zip(names[len(names) - len(fn.args.defaults):], fn.args.defaults))
        d = ds.get(param)
        if not (isinstance(d, ast.Constant) and d.value == value and type(d.value) is type(value)):
            fail(fn, f'Factor.{meth}: the default of `{param}` is no longer {value!r}', 'factor.py')

    def need_cv_ctor(self, node):
        fn, body = self._body('clique_vector.py', 'CliqueVector', '__init__', node)
        if body != norm('self.dictionary = dictionary\ndict.__init__(self, dictionary)'):
            fail(fn, 'CliqueVector.__init__ is not the plain dict constructor', 'clique_vector.py')
        self.need_import('from mbi import Domain, Factor, CliqueVector', node)

    # ---- one definition
    def one(self, spec):
        spec = dict(spec)
        spec['consts'] = dict(spec['consts'])
        spec.setdefault('intzero', {})
        py = spec['py']
        fn = self.methods[py]
        names, defaults = spec['pyargs']
        a = fn.args
        if [x.arg for x in a.args] != names or a.vararg or a.kwarg or a.kwonlyargs or a.posonlyargs or fn.decorator_list:
            fail(fn, f'signature changed: {[x.arg for x in a.args]}')
        ds = dict(zip(names[len(names) - len(a.defaults):], a.defaults))
        if set(ds) != set(defaults) or any(not (isinstance(ds[k], ast.Constant) and ds[k].value == v and type(ds[k].value) is type(v))
                                           for k, v in defaults.items()):
            fail(fn, 'defaults changed')
        spec['fields'] = {p: (p, t) for p, t in spec['fieldlist']}
        spec['used'], spec['stores'] = set(), []
        env = {p: (p, t) for p, t in spec['args']}
        for p in names:
            if p != 'self' and p not in env and p not in spec['consts']:
                fail(fn, f'parameter `{p}` is neither translated nor fixed by the variant')
        tr = Tr(self, spec, env)
        # the Python ints 0 that start an accumulator / a counter
        body = [s for s in fn.body if not is_doc(s)]
        for x in spec['intzero']:
            st = body[0] if body else fail(fn, 'empty body')
            if not (isinstance(st, ast.Assign) and len(st.targets) == 1 and isinstance(st.targets[0], ast.Name) and st.targets[0].id == x
                    and isinstance(st.value, ast.Constant) and type(st.value.value) is int and st.value.value == 0):
                fail(st, f'expected `{x} = 0`')
            if x == 'ans':
                tr.lets.append(f'let {x} : α := Scalar.zero')
                tr.env[x] = (x, 'scalar')
            else:
                tr.lets.append(f'let {x} : Nat := 0')
                tr.env[x] = (x, 'nat')
            body = body[1:]
        r = tr.run(body)
        if spec['ret'] is None:
            if r is not None:
                fail(fn, '__init__ returns a value')
            parts = []
        else:
            if r is None:
                fail(fn, 'no return value on this path')
            if r[1] != spec['ret']:
                fail(fn, f'`{spec["lean"]}` returns {r[1]}, expected {spec["ret"]}')
            parts = [r]
        for s in spec['stores']:
            if s in tr.dead or s not in tr.env:
                fail(fn, f'the stored field {s} is not defined on every path')
            parts.append(tr.env[s])
        declared = {p for p, _ in spec['fieldlist']}
        if declared - spec['used']:
            fail(fn, f'no longer reads self.{sorted(declared - spec["used"])[0]}')
        term = parts[0][0] if len(parts) == 1 else '(' + ', '.join(p[0] for p in parts) + ')'
        rty = ' × '.join(('(' + LEANTY[p[1]] + ')') if '×' in LEANTY[p[1]] and len(parts) > 1 else LEANTY[p[1]] for p in parts)
        ps = ' '.join(f'({p} : {LEANTY[t]})' for p, t in spec['fieldlist'] + spec['args'])
        doc = f'`FactorGraph.{py}` (factor_graph.py:{fn.lineno})' + (f' — {spec["doc"]}' if spec['doc'] else '')
        text = '\n  '.join(l.replace('\n', '\n  ') for l in tr.lets + [term])
        self.out.append(f'/-- {doc} -/\ndef {spec["lean"]} {ps} : {rty} :=\n  {text}\n')
        self.done.append(spec)

    def run(self):
        for spec in SPECS:
            self.one(spec)
        return self.out


HEADER = '''/- GENERATED by tools/py2fg.py from src/mbi/factor_graph.py — do not edit
   Statement-level translation of the non-convex path of class `FactorGraph`: `init_messages`, `clique_marginals` (self.convex =
   False), `loopy_belief_propagation` (callback=None; `lbpSweep` = the body of its `for i in range(self.iters)` loop),
   `primal_feasibility` and `__init__` (convex=False).
   Python dictionaries are association lists in insertion order; `d[k] = v` keeps the position of an existing key.  The two-level
   dictionaries `mu_n[v][cl]`, `mu_f[cl][v]` (defaultdict(dict)) are only read and written through both keys and never iterated: each
   is ONE association list keyed by the pair.  `counting_numbers` has clique keys (`Sum.inl`) and attribute keys (`Sum.inr`).
   `x is not y` between elements of the same tuple / list is read as `x != y`.
   `tuple(set(r) & set(s))` in primal_feasibility has no specified order; it is listed as the attributes of `r` that are in `s`, in
   `r`'s order (the hand model's choice); both operands of the norm are projected onto the same listing.
   NOT translated: the convex=True path (`convergent_belief_propagation`, `get_counting_numbers`; selected by `if convex:` in
   __init__ and `if self.convex:` in clique_marginals, which are decided here by convex = False), `datavector`, `project`, `mle`,
   `bethe_entropy`. -/
import PGM.Model.FactorGraph
set_option linter.unusedVariables false
namespace PGM.FGG
open PGM

/-! ## fixed prelude: Python values that are not (yet) factors, the message dictionaries -/

/-- the value of `sum(xs)`: a Python number (the int 0 it starts from) or a Factor -/
inductive PyVal (α : Type) where
  | num (c : α)
  | fac (f : Factor α)

/-- `mu_n[v][cl]` -/
abbrev MuN (α : Type) := List ((Attr × JT.Clique) × Factor α)
/-- `mu_f[cl][v]` -/
abbrev MuF (α : Type) := List ((JT.Clique × Attr) × Factor α)
/-- `counting_numbers`: keys are cliques (tuples) and attributes (strings) -/
abbrev CN (α : Type) := List ((JT.Clique ⊕ Attr) × α)

variable {α : Type} [Scalar α]

/-- `x + y` by Python's dispatch: `number + factor` is `int.__add__` -> NotImplemented -> `Factor.__radd__` -> `Factor.__add__`
(scalar branch, `Factor(domain, other + values)`); `factor + number` is the same branch; `factor + factor` is `Factor.add` -/
def PyVal.add : PyVal α → PyVal α → PyVal α
  | .num a, .num b => .num (Scalar.add a b)
  | .num c, .fac f => .fac (Factor.addScalar c f)
  | .fac f, .num c => .fac (Factor.addScalar c f)
  | .fac f, .fac g => .fac (Factor.add f g)

/-- `f + s` for a Factor `f`: `Factor.__add__` (scalar branch when `s` is a number) -/
def PyVal.addF (f : Factor α) : PyVal α → Factor α
  | .num c => Factor.addScalar c f
  | .fac g => Factor.add f g

/-- `s - f` for a Factor `f`: `Factor.__sub__` when `s` is a Factor.  When `s` is a number Python raises TypeError (factor.py is
checked to define no `__rsub__`); the definitions are total with the model's default, the theorems exclude the case -/
def PyVal.subL : PyVal α → Factor α → Factor α
  | .fac g, f => Factor.sub g f
  | .num _, _ => Factor.zeros []

/-- `mu_n[v][cl]` (KeyError in Python when absent: the model's default) -/
def getN (m : MuN α) (k : Attr × JT.Clique) : Factor α := (List.lookup k m).getD (Factor.zeros [])
/-- `mu_f[cl][v]` -/
def getF (m : MuF α) (k : JT.Clique × Attr) : Factor α := (List.lookup k m).getD (Factor.zeros [])

/-! ## the translated definitions -/

'''


def main():
    ap = argparse.ArgumentParser()
    ap.add_argument('--repo', default='/repo')
    ap.add_argument('--out', required=True)
    a = ap.parse_args()
    try:
        srcs = {}
        for f in ('factor_graph.py', 'factor.py', 'domain.py', 'clique_vector.py'):
            p = os.path.join(a.repo, 'src', 'mbi', f)
            if os.path.exists(p):
                srcs[f] = open(p).read()
        if 'factor_graph.py' not in srcs:
            raise OSError('src/mbi/factor_graph.py not found')
        defs = Generator(srcs).run()
    except Untranslatable as e:
        print('py2fg: source outside the translatable subset:', e)
        return 1
    except (OSError, SyntaxError) as e:
        print('py2fg: source outside the translatable subset:', f'cannot read/parse the source: {e}')
        return 1
    os.makedirs(a.out, exist_ok=True)
    with open(os.path.join(a.out, 'FactorGraphG.lean'), 'w') as f:
        f.write(HEADER + '\n'.join(defs) + '\nend PGM.FGG\n')
    print(f'py2fg: {len(defs)} definitions')
    return 0


if __name__ == '__main__':
    sys.exit(main())
